"""C05 Inelastic energy transfer conserves energy; NaN exactly for unphysical times."""

from __future__ import annotations

import copy
import enum
import pickle

import numpy as np
import scipp as sc

from rv import operands as ops
from rv.oracle import si
from rv.snap import describe
from rv.trace import Tracer

ID = 'C05'
LEVEL = 'exploration'
RULE = (
    'cases = one kernel call (direct or through convert(target=energy_transfer)) on neutrons simulated '
    'forward: (Ei, Ef, L1, L2) log-uniform over 1e-3..1e4 meV / 0.1..1e3 m, t = L1/v(Ei) + L2/v(Ef) rounded to '
    'the tof dtype, plus unphysical times below t0 and a boundary sextuple {t0-2ulp..t0+2ulp, 2 t0} built '
    'from the t0 the code itself computed (observed); plus convert() judged on what it returns: the tof '
    'coordinate as bin edges (N+1) or points, common 1-d / per-pixel 2-d / single spectrum, dense / binned '
    'events next to dense edges / tof-major data / Dataset, ascending and descending, with values below, '
    'exactly at (+-1, 2 ulp) and above the observed t0; the same two-stage probe in every form the entry points '
    'accept (each form a forced class of every run): the scatter flag in every true form (bool, numpy booleans '
    'from comparisons / any() / all() / array elements, 1, np.int64(1), IntEnum) x convert / '
    'deduce_conversion_graph / conversion_graph, positional / keyword / mixed calls, graph factories, the kernels '
    'as nodes of a caller\'s transform_coords graph, names as np.str_ / (str, Enum) members, variances on the '
    'arrival times (result variances against first-order propagation) and on the other operands, bin- / event- / '
    'pixel-level masks, caller dimensions labelled like internal names (event, row, x, spectrum, coordinate names, '
    'origin, target), a DataArray subclass, second use (after refused calls, after the caller modified graphs handed '
    'out earlier, result fed back, display / copy / deepcopy / pickle in between), workspaces without a single '
    'physical arrival (every value of the tof coordinate and of the events at or before the observed t0: every '
    'coordinate layout x both geometries in every shard, so also under the strict-caller / -OO / decimal variants of '
    'shard 0; result: returned, all NaN), the caller\'s objects holding other contents at an earlier call and '
    'rewritten in place, writes into operands / into the returned energy transfer (no shared memory, operands '
    'untouched by the call, same call gives the first result again), bystander coordinates and target / mode names '
    'that only NFKC-normalise to names of the interface, bystander coordinates - per event in the table of binned '
    'data (also in the binned items of a Dataset, also Ei = Ef + dE / Ef = Ei - dE kept from a first conversion) and '
    'dense per pixel - named after the names the graphs reserve but this conversion neither consumes nor produces '
    '(the other geometry\'s energy, Ltotal, wavelength, energy, dspacing, Q, two_theta, positions, beams, gravity) '
    'through convert and deduce_conversion_graph, the first call of each entry point in a fresh interpreter '
    '(bitwise equal to the same call here), operand dimensions of length 1..4 in every pair, and one heavy shard '
    '(2**20+7 events, 3 x 400001 points); distinct = (kernel, energy unit, tof unit, length units, dtype class, '
    'layout, energy decade) signatures, (form, geometry, layout, dtype) for the forms'
)
ASSUMPTIONS = [
    'v(E) = sqrt(2E/m_n) with m_n from scipp.constants',
    'mixed precision (one float32 operand) is judged at single-precision accuracy',
]
EN_UNITS = ['meV', 'ueV', 'eV', 'J']
TIME_UNITS = ['us', 'ns', 'ms', 's']
LEN_UNITS = ['m', 'mm', 'cm', 'km']
LEN_UNITS_WIDE = ['m', 'mm', 'cm', 'km', 'angstrom', 'nm']
FLOOR = 1e-11
_C = None


def mn():
    global _C
    if _C is None:
        _C = si.constants()
    return _C['m_n']


def _eps(f32):
    return si.EPS32 if f32 else si.EPS64


def definition(kind, t, L1, L2, E):
    """(t0, dE) in SI long double; fixed leg is (L1, Ei) for direct, (L2, Ef) for indirect."""
    m = mn()
    two = si.LD(2)
    if kind == 'direct':
        t0 = L1 * np.sqrt(m / (two * E))
        other = m * L2**2 / (two * (t - t0) ** 2)
        return t0, E - other, other
    t0 = L2 * np.sqrt(m / (two * E))
    other = m * L1**2 / (two * (t - t0) ** 2)
    return t0, other - E, other


def _has_var(v):
    return (v.bins.constituents['data'] if ops.is_binned(v) else v).variances is not None


def _novar(v):
    """The values of an operand as a variable without variances (broadcasting one with variances is refused)."""
    return sc.values(v) if _has_var(v) else v


def _aligned_variances(op, res):
    return ops.align(sc.variances(op), _novar(res))


def _res_variances(res):
    return ops.result_values(sc.variances(res)) if _has_var(res) else None


def _variance_broadcast(args):
    """scipp's own rule: an operand with variances is never broadcast (to more dimensions or over the events of
    a bin); an operation that would need that raises VariancesError whatever the package does."""
    vs = [v for v in args.values() if isinstance(v, sc.Variable)]
    dims = set()
    for v in vs:
        dims.update(v.dims)
    binned = any(ops.is_binned(v) for v in vs)
    return any(_has_var(v) and not ops.is_binned(v) and (binned or set(v.dims) != dims) for v in vs)


class Monitors:
    def __init__(self, ctx):
        self.ctx = ctx
        self.meta = {}
        self.last_t0 = None
        self.last_args = None
        self.boundary = None  # (t0 values aligned to tof) for the boundary call
        self.convert_kind = None  # geometry of the data the workload hands to convert()
        self.expect_refusal = None  # name of a deliberately unacceptable call in flight (its refusal is counted)
        self.mute = False  # a call on contents the workload does not vouch for (domain not checked): not judged

    def t0(self, ev):
        if ev.exc is None and not self.mute:
            self.last_t0 = ev.result

    def kernel(self, kind):
        en_name = 'incident_energy' if kind == 'direct' else 'final_energy'
        name = f'energy_transfer_{kind}_from_tof'

        def h(ev):
            if self.mute:
                return
            self.last_args = ev.args
            case = {'kernel': name, **self.meta, 'args': {k: describe(v) for k, v in ev.args.items()}}
            if ev.exc is not None:
                if isinstance(ev.exc, sc.VariancesError) and _variance_broadcast(ev.args):
                    self.ctx.count('refused by scipp: an operand with variances would have to be broadcast')
                    return
                if self.expect_refusal is not None:
                    self.ctx.count('refused (kernel): ' + self.expect_refusal)
                    return
                self.ctx.violation('raised', f'{name} raised {type(ev.exc).__name__}: {ev.exc}', case, kernel=kind)
                return
            self.judge(name, kind, {n: ev.args[n] for n in ('tof', 'L1', 'L2', en_name)}, ev.result, case)
        return h

    def convert_result(self, ev):
        """What the user sees: the object convert() returned (see judge_object)."""
        a = ev.args
        kind = self.convert_kind
        if ev.exc is not None or kind is None or a.get('origin') != 'tof' or a.get('target') != 'energy_transfer':
            return  # an exception is reported by the caller (convert_raised)
        self.judge_object(kind, a['data'], ev.result)

    def judge_object(self, kind, data, out, target='energy_transfer', via='convert'):
        """The target coordinate(s) of the object convert() (via='convert') or transform_coords with one of the
        package's graphs / kernels as nodes (via='graph') returned, judged against the origin coordinate(s) and
        the supplied L1 / L2 / fixed energy of the object passed in (dense coordinate - bin edges or points -
        and event coordinate, each on its own)."""
        ctx = self.ctx
        en_name = 'incident_energy' if kind == 'direct' else 'final_energy'
        try:
            sup = {n: data.coords[n] for n in ('L1', 'L2', en_name)}
            # transform_coords renames dimensions, never reorders them
            back = {o: d for o, d in zip(out.dims, data.dims, strict=True) if o != d}
            todo = []
            if 'tof' in data.coords:
                tof = data.coords['tof']
                edges = any(tof.sizes[d] == data.sizes[d] + 1 for d in tof.dims)
                todo.append(('dense-edges' if edges else 'dense-points', tof, out.coords))
            if isinstance(data, sc.DataArray) and data.bins is not None and 'tof' in data.bins.coords:
                todo.append(('events', data.bins.coords['tof'], out.bins.coords))
        except Exception:  # noqa: BLE001
            ctx.oracle_error('convert_result')
            return
        for cls, tof, got_coords in todo:
            at = f'{via}:{cls}'
            case = {'observed': 'result of ' + ('convert' if via == 'convert' else 'transform_coords'),
                    'coordinate': cls, **self.meta,
                    'args': {'tof': describe(tof), **{k: describe(v) for k, v in sup.items()}}}
            if target not in got_coords:
                ctx.violation('convert_no_target', f'{via} returned without {target} ({cls})', case, at=at)
                continue
            try:
                res = got_coords[target]
                # two dimensions are never exchanged: rename through unique intermediate names
                ren = {o: d for o, d in back.items() if o in res.dims}
                if ren:
                    tmp = {o: f'__rv_{i}' for i, o in enumerate(ren)}
                    res = res.rename_dims(tmp).rename_dims({tmp[o]: d for o, d in ren.items()})
            except Exception:  # noqa: BLE001
                ctx.oracle_error('convert_result')
                continue
            self.judge(f'{via}(tof -> energy_transfer, {kind}) {cls}', kind, {'tof': tof, **sup}, res, case,
                       at=at, event=f'{via}_result:{cls}', pre='result:')

    def judge(self, name, kind, a, res, case, at='kernel', event=None, pre=''):
        """One observed (operands, result) pair against the definition; used for kernel returns (at='kernel')
        and for the coordinates of the object convert() returned (at='convert:...')."""
        ctx = self.ctx
        en_name = 'incident_energy' if kind == 'direct' else 'final_energy'
        on_result = at != 'kernel'
        try:
            tof, en = _novar(a['tof']), a[en_name]
            f32_cls = ops.elem_dtype(tof) == sc.DType.float32 and ops.elem_dtype(en) == sc.DType.float32
            # precision class of the result (documented: single iff tof AND energy are single)
            any32 = f32_cls
            eps = _eps(any32)
            with_var = [n for n in ('tof', 'L1', 'L2', en_name) if _has_var(a[n])]
            res_var = _res_variances(res)
            var_t = (_aligned_variances(a['tof'], res).astype(si.LD) * si.factor(ops.elem_unit(a['tof'])) ** 2
                     if with_var == ['tof'] and res_var is not None else None)
            a = {n: _novar(a[n]) for n in ('tof', 'L1', 'L2', en_name)}
            res = _novar(res)
            S = {n: ops.align(a[n], res).astype(si.LD) * si.factor(ops.elem_unit(a[n]))
                 for n in ('tof', 'L1', 'L2', en_name)}
            t0, dE, other = definition(kind, S['tof'], S['L1'], S['L2'], S[en_name])
            fe = si.factor(ops.elem_unit(en))
            got = ops.result_values(res)
            gotl = got.astype(si.LD)
            t = S['tof']
            valid = (np.isfinite(t.astype(np.float64)) & np.isfinite(S['L1'].astype(np.float64))
                     & np.isfinite(S['L2'].astype(np.float64)) & np.isfinite(S[en_name].astype(np.float64))
                     & (S[en_name] > 0))
            n_invalid = int(valid.size - np.count_nonzero(valid))
            if n_invalid:
                ctx.count(pre + 'elements with non-finite inputs (not judged)', n_invalid)
            with np.errstate(invalid='ignore'):
                band = 8 * eps * np.maximum(np.abs(t), t0)
                below = valid & (t < t0 - band)
                above = valid & (t > t0 + band)
            with np.errstate(divide='ignore', invalid='ignore'):
                cond = t / (t - t0)
                # 1e-11: accuracy floor of the unit-converted constants (scipp's to_unit; cf. the bound C01 states)
                tol = (64 * eps + FLOOR) * np.maximum(np.abs(S[en_name]), np.abs(other)) * np.abs(cond) / fe
        except Exception:  # noqa: BLE001
            ctx.oracle_error(name)
            return
        ctx.event(event or name)
        keys = {'kernel': kind} if not on_result else {'kernel': kind, 'at': at}
        want_dtype = sc.DType.float32 if f32_cls else sc.DType.float64
        if ops.elem_unit(res) != ops.elem_unit(en):
            ctx.violation('unit', f'{name}: result unit {ops.elem_unit(res)}, supplied energy in '
                          f'{ops.elem_unit(en)}', case, **keys)
            return
        if ops.elem_dtype(res) != want_dtype:
            ctx.violation('dtype', f'{name}: dtype {ops.elem_dtype(res)} expected {want_dtype}', case, **keys)
            return
        if np.any(np.isinf(got[valid])):
            ctx.violation('infinite', f'{name}: infinite result for finite inputs', case,
                          boundary=self.boundary is not None, **keys)
            return
        if self.boundary is not None:
            # second stage: tof placed around the t0 the code computed itself
            t0c = ops.align(self.boundary, res)
            tv = ops.align(tof, res)
            okb = np.isfinite(t0c)  # a dead pixel has no boundary
            must_nan = tv <= np.where(okb, t0c, 0)
            ctx.count(pre + 'boundary_points', int(np.count_nonzero(okb)))
            if on_result:
                ctx.count(pre + 'points exactly at the observed t0', int(np.count_nonzero(okb & (tv == t0c))))
            wrong = okb & (np.isnan(got) != must_nan)
            if np.any(wrong):
                i = int(np.argmax(wrong))
                ctx.violation('nan_boundary', f'{name}: tof {np.ravel(tv)[i]!r} vs t0 {np.ravel(t0c)[i]!r}: '
                              f'result {np.ravel(got)[i]!r}', case,
                              at_t0=bool(np.ravel(tv)[i] == np.ravel(t0c)[i]), **keys)
                return
            if not on_result:
                return
        nb, na = int(np.count_nonzero(below)), int(np.count_nonzero(above))
        ctx.count(pre + 'decided:below t0', nb)
        ctx.count(pre + 'decided:above t0', na)
        ctx.count(pre + 'undecided:within 8 ulp of t0', int(np.count_nonzero(valid) - nb - na))
        if np.any(~np.isnan(got[below])):
            ctx.violation('not_nan_below_t0', f'{name}: finite result for arrival before the fixed leg '
                          'could be flown', case, **keys)
            return
        if np.any(np.isnan(got[above])):
            ctx.violation('nan_above_t0', f'{name}: NaN for a physical arrival time', case, **keys)
            return
        if na:
            frac = np.abs(gotl[above] - (dE[above] / fe)) / tol[above]
            worst = float(np.max(frac))
            ctx.dev(f'{pre}{kind}.{"f32" if any32 else "f64"}: error as fraction of bound (64 eps + 1e-11) max(E) t/(t-t0)', worst)
            if worst > 1:
                i = int(np.argmax(frac))
                ctx.violation('value', f'{name}: energy transfer off by {worst:.3g} x the bound '
                              f'(64 eps + 1e-11) max(E) t/(t-t0)',
                              dict(case, got=repr(gotl[above][i]), expected=repr((dE[above] / fe)[i])),
                              **keys)
        # variances: values are judged above whatever carries variances; the variances of the result are judged
        # where first-order propagation is unambiguous in scipp's own arithmetic, i.e. when the arrival time is the
        # only operand with variances: dE depends on it through the single power law (t - t0)^-2, so
        # var(dE) = (2 E_free / (t - t0))^2 var(t).  Elements that must be NaN are not judged.
        if with_var:
            if res_var is None:
                ctx.count(pre + 'variances: result without variances for operands with variances (values judged)')
            elif var_t is None:
                ctx.count(pre + 'variances: on ' + '+'.join(with_var) + ' (values judged only)')
            elif any32:
                # scipp propagates through scale / (t - t0)^2 with the intermediate (t - t0)^8 in the result
                # precision: in single precision that leaves the float32 range for ordinary times (observed: inf)
                ctx.count(pre + 'variances: single precision, intermediate powers leave the float32 range '
                          '(values judged only)')
            elif na:
                try:
                    with np.errstate(all='ignore'):
                        exp = ((2 * other / (t - t0)) ** 2 * var_t / fe**2)
                        rel = 8 * (64 * eps + FLOOR) * np.abs(cond)
                        dec = above & (rel < 1e-2) & np.isfinite(exp.astype(np.float64)) & (exp > 0)
                        fracv = np.abs(res_var.astype(si.LD) - exp)[dec] / (rel * exp)[dec]
                except Exception:  # noqa: BLE001
                    ctx.oracle_error(name + ' (variances)')
                    return
                ctx.count(pre + 'variances: elements judged against first-order propagation',
                          int(np.count_nonzero(dec)))
                if fracv.size:
                    ctx.event('variance_propagation')
                    worstv = float(np.max(fracv))
                    ctx.dev(f'{pre}variance of the result: error as fraction of 8 (64 eps + 1e-11) t/(t-t0), relative',
                            worstv)
                    if not worstv <= 1:
                        i = int(np.argmax(fracv))
                        ctx.violation('variance', f'{name}: variance of the result off by {worstv:.3g} x the bound '
                                      'from (2 E_free/(t-t0))^2 var(t)',
                                      dict(case, got=repr(res_var[dec][i]), expected=repr(exp[dec][i])), **keys)


# ------------------------------------------------------------ generator ---
def v_of(E):
    return np.sqrt(si.LD(2) * E / mn())


def f32_domain_ok(kind, units, L1_u, L2_u, Efix_u, t_u):
    """All-float32 evaluation is only judged where the quantities any single-precision evaluation of the
    documented formula has to hold are normal float32 numbers: the inputs, the folded constant of the
    fixed leg and its quotient with the fixed energy, t0, the scale m L^2/2 of the free leg (in energy x
    time^2 units), t - t0 and its square, and the result."""
    ue, ut, ul1, ul2 = units
    fe, ft = si.factor(sc.Unit(ue)), si.factor(sc.Unit(ut))
    f1, f2 = si.factor(sc.Unit(ul1)), si.factor(sc.Unit(ul2))
    m = mn()
    Lfix_u, ffix, Lfree_u, ffree = (L1_u, f1, L2_u, f2) if kind == 'direct' else (L2_u, f2, L1_u, f1)
    Lfix_u = np.asarray(Lfix_u, dtype=si.LD)
    Lfree_u = np.asarray(Lfree_u, dtype=si.LD)
    E = np.asarray(Efix_u, dtype=si.LD)
    t = np.asarray(t_u, dtype=si.LD)
    c_fixed = (m / 2) / fe * (ffix / ft) ** 2
    ratio = c_fixed / E
    t0 = (Lfix_u * np.sqrt(ratio)).reshape(-1, 1) if np.ndim(t) == 2 else Lfix_u * np.sqrt(ratio)
    K = ((m / 2) / fe * (ffree / ft) ** 2) * Lfree_u**2
    with np.errstate(all='ignore'):
        delta = np.abs(t - t0)
        delta = delta[delta > 0]
        other = (np.max(K) / np.min(delta) ** 2) if delta.size else si.LD(1)
        other_lo = (np.min(K) / np.max(delta) ** 2) if delta.size else si.LD(1)
    qs = [c_fixed, ratio, t0, K, Lfree_u**2, Lfix_u, E, t, delta, delta**2, other, other_lo]
    lo, hi = si.LD('1e-30'), si.LD('1e30')
    for q in qs:
        q = np.abs(np.asarray(q, dtype=si.LD)).ravel()
        q = q[q > 0]
        if q.size and (np.min(q) < lo or np.max(q) > hi):
            return False
    return True


def gen(rng, ctx, kind, layout, f32, units, shape=None):
    """Simulate neutrons; returns kwargs for the kernel and the simulated truth.  shape = (pixels, times) fixes the
    lengths of the two operand dimensions (otherwise drawn)."""
    ue, ut, ul1, ul2 = units
    fe, ft = float(si.lookup(sc.Unit(ue))[0]), float(si.lookup(sc.Unit(ut))[0])
    fl1, fl2 = float(si.lookup(sc.Unit(ul1))[0]), float(si.lookup(sc.Unit(ul2))[0])
    meV = float(si.lookup(sc.Unit('meV'))[0])
    npix = 1 if layout == 'scalar' else int(rng.integers(1, 8))
    nt = 1 if layout == 'scalar' else int(rng.integers(1, 25))
    if shape is not None and layout != 'scalar':
        npix, nt = shape
    dt = 'float32' if f32 else 'float64'
    per_pixel_L1 = layout in ('2d', 'binned') and rng.random() < 0.25
    L1 = 10.0 ** rng.uniform(-1, 3, size=npix) if per_pixel_L1 else np.full(npix, 10.0 ** rng.uniform(-1, 3))
    L2 = 10.0 ** rng.uniform(-1, 3, size=npix)
    Efix = 10.0 ** rng.uniform(-3, 4, size=1 if kind == 'direct' else npix) * meV
    Eother = 10.0 ** rng.uniform(-3, 4, size=(npix, nt)) * meV
    # what the code will see: rounded operands in their units
    r = np.float32 if f32 else np.float64
    L1_u = (L1 / fl1).astype(r)
    L2_u = (L2 / fl2).astype(r)
    Efix_u = (Efix / fe).astype(r)
    # a dead pixel: one entry of a per-pixel fixed-leg input is NaN (spectra without a fixed energy or without a
    # detector position are loaded like that); it must not affect the other pixels, and is itself not judged
    dead = None
    if layout in ('2d', 'binned') and npix > 1 and rng.random() < 0.15:
        dead = int(rng.integers(0, npix))
        if kind == 'indirect':
            Efix_u = Efix_u.copy()
            Efix_u[dead] = np.nan
        elif per_pixel_L1:
            L1_u = L1_u.copy()
            L1_u[dead] = np.nan
        else:
            dead = None
        if dead is not None:
            ctx.hit('dead pixel (NaN fixed-leg input)')
    L1s, L2s, Efs = L1_u.astype(si.LD) * si.LD(fl1), L2_u.astype(si.LD) * si.LD(fl2), Efix_u.astype(si.LD) * si.LD(fe)
    if kind == 'direct':
        t = (L1s / v_of(Efs))[:, None] + L2s[:, None] / v_of(Eother.astype(si.LD))
    else:
        t = L1s[:, None] / v_of(Eother.astype(si.LD)) + (L2s / v_of(Efs))[:, None]
    t_u = (t / si.LD(ft)).astype(np.float64)
    t_u = np.where(np.isfinite(t_u), t_u, 1000.0)
    # unphysical and near-boundary arrivals
    t0 = (L1s / v_of(Efs))[:, None] if kind == 'direct' else (L2s / v_of(Efs))[:, None]
    t0_u = (t0 / si.LD(ft)).astype(np.float64) * np.ones_like(t_u)
    t0_u = np.where(np.isfinite(t0_u), t0_u, 500.0)
    sel = rng.random(size=t_u.shape)
    t_u = np.where(sel < 0.15, t0_u * rng.uniform(0.05, 0.999, size=t_u.shape), t_u)
    t_u = np.where((sel >= 0.15) & (sel < 0.2), t0_u * (1 + 10.0 ** rng.uniform(-6, -2, size=t_u.shape)), t_u)
    ctx.hit('tof below t0')
    if f32 and not f32_domain_ok(kind, units, L1_u, L2_u, Efix_u, t_u):
        ctx.count('out of the float32 domain (extreme units): regenerated')
        return None, None
    if f32 and (units[2] in ('angstrom', 'nm') or units[3] in ('angstrom', 'nm') or units[0] == 'J' or units[1] == 's'):
        ctx.hit('float32 with extreme units inside the domain')
    mixed = None
    tof_dt = dt
    if not f32 and rng.random() < 0.12:
        tof_dt = 'int64'
        t_u = np.maximum(np.rint(t_u), 1)
    en_dt = dt
    if f32 and rng.random() < 0.25:
        mixed = 'tof64_energy32' if rng.random() < 0.5 else 'tof32_energy64'
        tof_dt, en_dt = ('float64', 'float32') if mixed == 'tof64_energy32' else ('float32', 'float64')
    kw = {}
    if layout == 'scalar':
        kw['tof'] = sc.scalar(t_u[0, 0].item(), unit=ut, dtype=tof_dt)
        kw['L2'] = sc.scalar(L2_u[0].item(), unit=ul2, dtype=dt)
        efv = sc.scalar(Efix_u[0].item(), unit=ue, dtype=en_dt)
    elif layout == 'binned':
        sizes = rng.integers(0, nt + 1, size=npix)
        vals = np.concatenate([t_u[p, :sizes[p]] for p in range(npix)]) if sizes.sum() else np.zeros(0)
        kw['tof'] = ops.make_binned(vals.astype(tof_dt), sizes, ['pixel'], (npix,), ut, dtype=tof_dt)
        kw['L2'] = sc.array(dims=['pixel'], values=L2_u, unit=ul2, dtype=dt)
        efv = (sc.scalar(Efix_u[0].item(), unit=ue, dtype=en_dt) if kind == 'direct'
               else sc.array(dims=['pixel'], values=Efix_u, unit=ue, dtype=en_dt))
    else:
        kw['tof'] = sc.array(dims=['pixel', 'tof'], values=t_u, unit=ut, dtype=tof_dt)
        if layout == 'common_tof':
            kw['tof'] = kw['tof']['pixel', 0].copy()
        kw['L2'] = sc.array(dims=['pixel'], values=L2_u, unit=ul2, dtype=dt)
        efv = (sc.scalar(Efix_u[0].item(), unit=ue, dtype=en_dt) if kind == 'direct'
               else sc.array(dims=['pixel'], values=Efix_u, unit=ue, dtype=en_dt))
    if per_pixel_L1:
        kw['L1'] = sc.array(dims=['pixel'], values=L1_u, unit=ul1, dtype=dt)
        ctx.hit('per-pixel L1')
    else:
        kw['L1'] = sc.scalar(L1_u[0].item(), unit=ul1, dtype=dt)
    kw['incident_energy' if kind == 'direct' else 'final_energy'] = efv
    dec = int(np.floor(np.log10(float(Efix[0] / meV))))
    sig = (kind, ue, ut, ul1, ul2, dt if mixed is None else mixed, tof_dt, layout, dec)
    return kw, sig


def boundary_call(rng, ctx, K, mon, kind, kw):
    """Second stage: tof at the t0 the code computed, +-1, +-2 ulp and 2 t0."""
    t0 = mon.last_t0
    if t0 is None or ops.is_binned(kw['tof']):
        return
    tof = kw['tof']
    tdt = tof.dtype
    if tdt not in (sc.DType.float64, sc.DType.float32) or t0.dtype != tdt:
        return  # mixed / integer tof: the subtraction tof - t0 is not in the tof dtype
    t0v = np.asarray(t0.values)
    npt = np.float32 if tdt == sc.DType.float32 else np.float64
    t0v = t0v.astype(npt)
    inf = npt(np.inf)
    cols = [np.nextafter(np.nextafter(t0v, -inf), -inf), np.nextafter(t0v, -inf), t0v,
            np.nextafter(t0v, inf), np.nextafter(np.nextafter(t0v, inf), inf), 2 * t0v]
    arr = np.stack(cols, axis=-1)
    dims = [*list(t0.dims), 'tof']
    kw2 = dict(kw)
    kw2['tof'] = sc.array(dims=dims, values=arr, unit=tof.unit, dtype=tdt)
    if t0.unit != tof.unit:
        return
    t0_full = sc.array(dims=dims, values=np.repeat(t0v[..., None], 6, axis=-1), unit=tof.unit, dtype=tdt)
    try:
        mon.boundary = t0_full
        getattr(K, f'energy_transfer_{kind}_from_tof')(**kw2)
        ctx.hit('boundary sextuple')
    finally:
        mon.boundary = None


# ------------------------------------------------------- the scatter flag ---
# `scatter: bool` is only ever tested for truth by the documented interface; user code computes the flag from data,
# which gives numpy booleans, or passes 0 / 1.  Every true form selects the scattering conversions.
class _Flag(enum.IntEnum):
    OFF = 0
    ON = 1


SCATTER_TRUE = (
    ('True', lambda: True),
    ('np.bool_ from a comparison of numpy scalars', lambda: np.float64(3.5) > np.float64(0.0)),
    ('np.bool_ from ndarray.any()', lambda: (np.array([0.0, 3.5]) > 0.0).any()),
    ('np.bool_ from ndarray.all()', lambda: (np.array([1.0, 3.5]) > 0.0).all()),
    ('element of a boolean array', lambda: np.array([False, True])[1]),
    ('int 1', lambda: 1),
    ('np.int64(1)', lambda: np.int64(1)),
    ('IntEnum member equal to 1', lambda: _Flag.ON),
)
SCATTER_FALSE = (
    ('False', lambda: False),
    ('np.bool_ False from a comparison', lambda: np.float64(3.5) < np.float64(0.0)),
    ('int 0', lambda: 0),
    ('IntEnum member equal to 0', lambda: _Flag.OFF),
)


def scatter_true(ctx, k):
    name, make = SCATTER_TRUE[k % len(SCATTER_TRUE)]
    ctx.hit('scatter flag: ' + name)
    return make()


ALIGNMENT_STATES = ('aligned', 'fixed energy unaligned', 'all supplied unaligned', 'integer slice of a run dimension')


def insitu(rng, ctx, scn, kind, mon=None, i=0):
    """convert(..., target='energy_transfer') on a data array; the monitors see the kernel call."""
    kw, sig = gen(rng, ctx, kind, 'binned' if rng.random() < 0.5 else '2d', False,
                  ('meV', 'us', 'm', 'm'))
    en = 'incident_energy' if kind == 'direct' else 'final_energy'
    coords = {'L1': kw['L1'], 'L2': kw['L2'], en: kw[en]}
    tof = kw['tof']
    if ops.is_binned(tof):
        c = tof.bins.constituents
        ev = sc.DataArray(sc.ones(dims=['event'], shape=[c['data'].sizes['event']], unit='counts'),
                          coords={'tof': c['data']})
        da = sc.DataArray(sc.bins(begin=c['begin'], end=c['end'], dim='event', data=ev), coords=coords)
    else:
        da = sc.DataArray(sc.ones(dims=tof.dims, shape=tof.shape), coords={**coords, 'tof': tof})
    # A supplied coordinate counts whatever its alignment flag says: scipp marks coordinates unaligned when a
    # dimension they depend on is sliced with an integer index and when an earlier conversion consumed them.
    state = ALIGNMENT_STATES[(i // 2) % len(ALIGNMENT_STATES)]
    ctx.hit('convert input: ' + state)
    if state == 'fixed energy unaligned':
        da.coords.set_aligned(en, False)
    elif state == 'all supplied unaligned':
        for nm in ('L1', 'L2', en):
            da.coords.set_aligned(nm, False)
    elif state == 'integer slice of a run dimension':
        # two runs with their own fixed energy; the run that is looked at is the one generated above
        other = da.copy()
        other.coords[en] = da.coords[en] * 1.5
        both = sc.concat([other, da], 'run')
        da = both['run', 1].copy()
        if da.coords[en].aligned and 'run' not in kw[en].dims:
            ctx.count('slice left the fixed energy aligned')
    # positions that contradict the supplied L1/L2 (the real flight path of an indirect spectrometer is not the
    # straight line): the supplied lengths must win, also when an earlier conversion already consumed them
    npx = kw['L2'].sizes.get('pixel', 1)
    if mon is not None:
        mon.convert_kind = kind
    two_step = mon is not None and 'pixel' in kw['L2'].dims and rng.random() < 0.5
    if two_step:
        da.coords['source_position'] = sc.vector([0.0, 0.0, -3.0], unit='m')
        da.coords['sample_position'] = sc.vector([0.0, 0.0, 0.0], unit='m')
        da.coords['position'] = sc.vectors(dims=['pixel'], values=rng.normal(size=(npx, 3)) + [0, 0, 2.0], unit='m')
        first = scn.convert(da, 'tof', 'wavelength', scatter=scatter_true(ctx, i // 2 + 3))
        mon.last_args = None
        out = scn.convert(first, 'tof', 'energy_transfer', scatter=scatter_true(ctx, i // 2))
        ctx.event('two_step_convert')
        la = mon.last_args
        if la is not None:
            for nm in ('L1', 'L2'):
                if not np.array_equal(np.asarray(la[nm].values), np.asarray(kw[nm].values), equal_nan=True) or la[nm].unit != kw[nm].unit:
                    ctx.violation('supplied_length_replaced', f'energy transfer after an earlier conversion was computed '
                                  f'with a {nm} different from the one supplied on the data', {'kind': kind, 'coord': nm},
                                  coord=nm)
    else:
        out = scn.convert(da, 'tof', 'energy_transfer', scatter=scatter_true(ctx, i // 2))
    has = 'energy_transfer' in (out.bins.coords if ops.is_binned(tof) else out.coords)
    if not has:
        ctx.violation('convert_no_target', 'convert returned without energy_transfer', {'kind': kind})
    return ('convert', *sig)


# ---------------------------------------------- what convert() hands back ---
# Every way scipp lets the origin coordinate sit on the data: bin edges (N+1 values for N bins) or points,
# one coordinate for all pixels or one row per pixel, a single spectrum, data stored tof-major, a Dataset,
# and binned events that carry their own tof next to the dense edge coordinate.
RESULT_CLASSES = (
    ('edges', 'common 1-d', 'dense'),
    ('edges', 'per-pixel 2-d', 'dense'),
    ('edges', 'single spectrum', 'dense'),
    ('points', 'common 1-d', 'dense'),
    ('points', 'per-pixel 2-d', 'dense'),
    ('points', 'single spectrum', 'dense'),
    ('edges', 'common 1-d', 'binned events'),
    ('edges', 'per-pixel 2-d', 'binned events'),
    ('edges', 'per-pixel 2-d', 'tof-major data'),
    ('edges', 'common 1-d', 'dataset'),
    ('points', 'per-pixel 2-d', 'dataset'),
)
PROBE_UNITS = (('meV', 'us', 'm', 'm'), ('meV', 'us', 'm', 'm'), ('eV', 'ms', 'm', 'cm'), ('ueV', 'ns', 'mm', 'm'),
               ('J', 's', 'km', 'm'), ('meV', 'ms', 'cm', 'mm'))


def result_class_name(c):
    return 'convert result: tof ' + ', '.join(c)


def _convert(ctx, scn, mon, da, flag=True):
    try:
        scn.convert(da, 'tof', 'energy_transfer', scatter=flag)
    except Exception as e:  # noqa: BLE001  no exception is allowed for finite-or-NaN inputs of a known geometry
        ctx.violation('convert_raised', f'convert raised {type(e).__name__}: {e}', dict(mon.meta),
                      family='convert result')
        return False
    return True


def unphysical_class_name(kind, c):
    return f'no physical arrival time at all ({kind}): tof ' + ', '.join(c)


def all_unphysical_rows(rng, t0c, common, npt, fl):
    """Per pixel, in ascending order: a negative time, zero, four times inside the fixed leg, t0 - 2 ulp, t0 - 1 ulp
    and t0 itself (the t0 the code computed): no neutron of the workspace can have flown the fixed leg yet (the
    prompt-pulse part of a bank converted on its own, a frame cut before the first arrival).  A coordinate common to
    all pixels stays at or below the smallest t0 of the bank."""
    tl = np.full_like(t0c, np.min(t0c)) if common else t0c
    inf = fl(np.inf)
    dn1 = np.nextafter(tl, -inf)
    fr = np.sort(rng.uniform(0.05, 0.999, size=4))
    cols = [-tl * fl(rng.uniform(0.01, 3.0)), np.zeros_like(tl), *(tl * fl(f) for f in fr),
            np.nextafter(dn1, -inf), dn1, tl]
    r64 = np.stack(cols, axis=-1).astype(np.float64)
    lim = tl.astype(np.float64)[:, None]
    if npt is np.int64:
        rows = np.floor(r64).astype(np.int64)
        rows = np.where(rows.astype(np.float64) > lim, rows - 1, rows)
    else:
        rows = r64.astype(npt)
        # the arrival times are stored in a narrower type than t0: rounding must not lift one above t0
        rows = np.where(rows.astype(np.float64) > lim, np.nextafter(rows, npt(-np.inf)), rows)
    return np.sort(rows, axis=1)


def _target_coords(out, target='energy_transfer'):
    """{'dense' / 'events' (of item ...): the target coordinate} of what a conversion returned."""
    found = {}
    if target in out.coords:
        found['dense coordinate'] = out.coords[target]
    if isinstance(out, sc.DataArray) and out.bins is not None and target in out.bins.coords:
        found['event coordinate'] = out.bins.coords[target]
    return found


def _buf(v):
    return v.bins.constituents['data'] if ops.is_binned(v) else v


def convert_all_unphysical(ctx, scn, mon, kind, da, flag):
    """convert() on a workspace without a single physical arrival: it returns (no exception, whatever the caller's
    warning policy is - the strict-caller variant of the runner repeats this with warnings as errors) and every
    energy transfer, dense and per event, is NaN."""
    try:
        out = scn.convert(da, 'tof', 'energy_transfer', scatter=flag)
    except Exception as e:  # noqa: BLE001
        ctx.violation('convert_raised', f'convert raised {type(e).__name__}: {e}', dict(mon.meta),
                      family='all-unphysical workspace')
        return False
    try:
        found = _target_coords(out)
        bad = [n for n, v in found.items() if not np.all(np.isnan(np.asarray(_buf(v).values, dtype=np.float64)))]
    except Exception:  # noqa: BLE001
        ctx.oracle_error('convert_all_unphysical')
        return False
    ctx.event('all_unphysical_workspace')
    if bad:
        ctx.violation('not_nan_below_t0', f'convert({kind}): a workspace whose arrival times are all at or before t0 '
                      f'came back with energy transfers that are not NaN ({", ".join(bad)})', dict(mon.meta),
                      kernel=kind, at='workspace')
        return False
    ctx.count('all-unphysical workspaces: returned, every energy transfer NaN')
    ctx.count('all-unphysical workspaces: energy transfers seen to be NaN',
              int(sum(_buf(v).values.size for v in found.values())))
    return True


def result_probe(rng, ctx, scn, mon, kind, j, form=None, K=None, unphysical=False, dimlen=None):
    """convert(..., 'tof', 'energy_transfer') judged on what it returns.

    Stage 1 converts the simulated arrival times as a per-pixel point coordinate; the t0 helper is observed.
    Stage 2 puts, into the coordinate layout of the class, per row: a negative time, zero, a time inside the
    fixed leg, {t0-2ulp .. t0+2ulp, 2 t0} of the observed t0, and the simulated arrival times, in ascending
    order (a histogram's edges; every third pass in descending order).

    unphysical=True: the workspace of stage 2 holds no physical arrival at all (see all_unphysical_rows); every
    energy transfer of the result must be NaN and the call must return."""
    if form is None:
        cls = RESULT_CLASSES[(j // 2) % len(RESULT_CLASSES)]
        f32 = (j // (2 * len(RESULT_CLASSES))) % 3 == 2
        descending = (j // (2 * len(RESULT_CLASSES))) % 3 == 1
    else:
        # the first layout class, counted from a rotating start, the form can be applied to
        ok = form.get('needs', lambda c: True)
        cls = next(c for c in (RESULT_CLASSES[(j + d) % len(RESULT_CLASSES)] for d in range(len(RESULT_CLASSES)))
                   if ok(c))
        f32 = bool(form.get('f32', False)) or (form.get('f32') is None and j % 5 == 4)
        descending = j % 3 == 1
    coordkind, shape, container = cls
    units = ('meV', 'us', 'm', 'm') if f32 else PROBE_UNITS[int(rng.integers(0, len(PROBE_UNITS)))]
    kw = None
    for _attempt in range(20):
        kw, sig = gen(rng, ctx, kind, '2d', f32, units, shape=dimlen)
        if kw is not None:
            break
    if kw is None:
        ctx.count('result probe: no input inside the float32 domain')
        return None
    en = 'incident_energy' if kind == 'direct' else 'final_energy'
    tof = kw['tof']
    npix, nt = tof.shape
    mon.convert_kind = kind
    mon.meta = {'family': 'convert result', 'class': list(cls), 'units': list(units), 'f32': f32,
                'order': 'descending' if descending else 'ascending'}
    if form is not None:
        mon.meta['form'] = form['name']
    if unphysical:
        mon.meta['workspace'] = 'no physical arrival time at all'
    if dimlen is not None:
        mon.meta['sizes'] = list(dimlen)
    # stage 1
    mon.last_t0 = None
    da1 = sc.DataArray(sc.ones(dims=tof.dims, shape=tof.shape, unit='counts'),
                       coords={'tof': tof, 'L1': kw['L1'], 'L2': kw['L2'], en: kw[en]})
    if not _convert(ctx, scn, mon, da1):
        return None
    t0 = mon.last_t0
    if t0 is None or t0.unit != tof.unit or not set(t0.dims) <= {'pixel'}:
        ctx.count('result probe: no usable t0 observed')
        return None
    exact = t0.dtype == tof.dtype and tof.dtype in (sc.DType.float64, sc.DType.float32)
    npt = (np.float64 if tof.dtype == sc.DType.float64 else np.float32 if tof.dtype == sc.DType.float32 else np.int64)
    fl = npt if exact else np.float64
    t0v = np.broadcast_to(np.asarray(t0.values).astype(fl), (npix,)).copy()
    t0c = np.where(np.isfinite(t0v), t0v, fl(500.0))  # dead pixel: no boundary, any time will do
    inf = fl(np.inf)
    dn1, up1 = np.nextafter(t0c, -inf), np.nextafter(t0c, inf)
    cols = [-t0c * fl(rng.uniform(0.01, 3.0)), np.zeros_like(t0c), t0c * fl(rng.uniform(0.05, 0.999)),
            np.nextafter(dn1, -inf), dn1, t0c, up1, np.nextafter(up1, inf), 2 * t0c]
    tv = np.asarray(tof.values)
    with np.errstate(invalid='ignore'):
        rows = np.concatenate([np.stack(cols, axis=-1).astype(np.float64), tv.astype(np.float64)], axis=1)
        rows = np.rint(rows).astype(npt) if npt is np.int64 else rows.astype(npt)
    rows = np.sort(rows, axis=1)
    if unphysical:
        rows = all_unphysical_rows(rng, t0c, shape == 'common 1-d', npt, fl)
    if descending:  # scipp accepts edges in either monotonic order
        rows = rows[:, ::-1].copy()
        ctx.hit('convert result: coordinate in descending order')
    nrow = rows.shape[1]
    n = nrow - 1 if coordkind == 'edges' else nrow
    ut = tof.unit
    single = shape == 'single spectrum'
    if shape == 'per-pixel 2-d':
        coord = sc.array(dims=['pixel', 'tof'], values=rows, unit=ut, dtype=tof.dtype)
    else:
        coord = sc.array(dims=['tof'], values=rows[0], unit=ut, dtype=tof.dtype)
    sup = {'L1': kw['L1'], 'L2': kw['L2'], en: kw[en]}
    if single:
        sup = {k: (v['pixel', 0].copy() if 'pixel' in v.dims else v) for k, v in sup.items()}
    ddims, dshape = (['tof'], [n]) if single else (['pixel', 'tof'], [npix, n])
    if container == 'binned events':
        # events of a bin sit on its left edge (inclusive) or in its middle: events exactly at t0 exist
        lo = rows[:, :-1] if shape == 'per-pixel 2-d' else np.broadcast_to(rows[0, :-1], (npix, n))
        hi = rows[:, 1:] if shape == 'per-pixel 2-d' else np.broadcast_to(rows[0, 1:], (npix, n))
        mid = ((lo // 2 + hi // 2) if npt is np.int64 else (lo + (hi - lo) / 2)).astype(npt)
        sizes = rng.integers(0, 3, size=(npix, n))
        vals = []
        for p in range(npix):
            for b in range(n):
                k = int(sizes[p, b])
                if k:
                    vals.append(np.where(rng.random(k) < 0.6, lo[p, b], mid[p, b]))
        vals = np.concatenate(vals) if vals else np.zeros(0)
        end = np.cumsum(sizes.ravel()).reshape(npix, n)
        evs = sc.DataArray(sc.ones(dims=['event'], shape=[int(sizes.sum())], unit='counts'),
                           coords={'tof': sc.array(dims=['event'], values=vals.astype(npt), unit=ut, dtype=tof.dtype)})
        data = sc.bins(begin=sc.array(dims=ddims, values=end - sizes, unit=None, dtype='int64'),
                       end=sc.array(dims=ddims, values=end, unit=None, dtype='int64'), dim='event', data=evs)
    else:
        data = sc.ones(dims=ddims, shape=dshape, unit='counts')
    da = sc.DataArray(data, coords={'tof': coord, **sup})
    if container == 'tof-major data':
        da = da.transpose(['tof', 'pixel']).copy()
    elif container == 'dataset':
        da = sc.Dataset({'sample': da, 'vanadium': da * sc.scalar(2.0)})
    dimmap = {}
    if form is not None and 'decorate' in form:
        da, dimmap = form['decorate'](rng, ctx, da, kind)
    try:
        if exact:
            b = t0['pixel', 0].copy() if (single and 'pixel' in t0.dims) else t0
            mon.boundary = b.rename_dims({k: v for k, v in dimmap.items() if k in b.dims})
        if unphysical:
            if not convert_all_unphysical(ctx, scn, mon, kind, da, scatter_true(ctx, j // 2)):
                return None
        elif form is None:
            if not _convert(ctx, scn, mon, da, scatter_true(ctx, j // 2)):
                return None
        elif not call_form(form, rng, ctx, scn, K, mon, kind, da, j):
            return None
    finally:
        mon.boundary = None
    if unphysical:
        ctx.hit(unphysical_class_name(kind, cls))
        return ('all-unphysical workspace', kind, *cls, str(tof.dtype), 'descending' if descending else 'ascending')
    if dimlen is not None:
        ctx.hit(size_class_name('convert', dimlen))
    if form is None:
        ctx.hit(result_class_name(cls))
        if exact:
            ctx.hit('convert result: coordinate value exactly at the observed t0')
        else:
            ctx.count('result probe: tof not in the dtype of t0 (no exact boundary; 8-ulp band only)')
    else:
        ctx.hit(form_class_name(form))
        ctx.count('forms: ' + ('with' if exact else 'without') + ' a coordinate value exactly at the observed t0')
    dec = sig[-1]
    if form is not None:
        return ('entry-point form', form['name'], kind, *cls, str(tof.dtype))
    return ('convert result', kind, *cls, *units, str(tof.dtype), dec)


# ------------------------------------------------ forms of the entry points ---
# The property quantifies over inputs and configurations of the documented entry points: convert(),
# deduce_conversion_graph() / conversion_graph() with transform_coords, the graph factories, and the two kernels
# (also as nodes of a caller's graph).  A form is one way scipp / Python lets a caller hand the same neutrons to
# them; every form goes through the two-stage probe above (negative time, zero, a time inside the fixed leg, the
# boundary sextuple of the observed t0, simulated arrivals) and is judged against the forward simulation.
class _Name(str, enum.Enum):
    tof = 'tof'
    energy_transfer = 'energy_transfer'
    direct_inelastic = 'direct_inelastic'
    indirect_inelastic = 'indirect_inelastic'


NAME_FORMS = {'str': str, 'np.str_': np.str_, '(str, Enum) member': lambda x: _Name[x]}


class _DataArraySubclass(sc.DataArray):
    """A caller's subclass of the documented argument class (adds nothing but bookkeeping)."""
    calls = 0

    def transform_coords(self, *args, **kwargs):
        type(self).calls += 1
        return super().transform_coords(*args, **kwargs)


def _is_binned_da(da):
    return isinstance(da, sc.DataArray) and da.bins is not None


def _items(da, f):
    """Apply f to a data array or to every item of a dataset."""
    if isinstance(da, sc.Dataset):
        return sc.Dataset({k: f(da[k].copy()) for k in da.keys()})
    return f(da)


def _rename(obj, dimmap):
    dimmap = {k: v for k, v in dimmap.items() if k in obj.dims and k != v}
    if not dimmap:
        return obj, {}
    tmp = {k: f'__rv_tmp_{i}' for i, k in enumerate(dimmap)}
    return obj.rename_dims(tmp).rename_dims({tmp[k]: v for k, v in dimmap.items()}), dimmap


def _rebuild_events(da, f):
    """The same binned data array with f applied to the table of events."""
    c = da.bins.constituents
    buf, dim = f(c['data'], c['dim'])
    return sc.DataArray(sc.bins(begin=c['begin'], end=c['end'], dim=dim, data=buf),
                        coords={k: da.coords[k] for k in da.coords}, masks={k: da.masks[k] for k in da.masks})


def _rel_variances(v, rel=1e-3):
    x = np.asarray(v.values, dtype=np.float64)
    out = v.copy()
    out.variances = ((rel * x) ** 2 + 1e-6).astype(np.asarray(v.values).dtype)
    return out


def deco_tof_variances(rng, ctx, da, kind):
    def one(d):
        if 'tof' in d.coords and d.coords['tof'].dtype in (sc.DType.float64, sc.DType.float32):
            d.coords['tof'] = _rel_variances(d.coords['tof'])
        if _is_binned_da(d):
            def f(buf, dim):
                buf = buf.copy()
                if buf.coords['tof'].dtype in (sc.DType.float64, sc.DType.float32):
                    buf.coords['tof'] = _rel_variances(buf.coords['tof'])
                return buf, dim
            d = _rebuild_events(d, f)
        return d
    return _items(da, one), {}


def deco_data_variances(rng, ctx, da, kind):
    def one(d):
        if _is_binned_da(d):
            def f(buf, dim):
                buf = buf.copy()
                buf.variances = np.asarray(buf.values).copy()
                return buf, dim
            return _rebuild_events(d, f)
        d = d.copy()
        d.variances = np.asarray(d.values).copy()
        return d
    return _items(da, one), {}


def deco_masks(which):
    def deco(rng, ctx, da, kind):
        def flags(shape, p):
            m = rng.random(shape) < p
            m.reshape(-1)[rng.integers(0, m.size)] = True
            return m

        def one(d):
            d = d.copy()
            if 'pixel' in which and 'pixel' in d.dims:
                d.masks['dead pixels'] = sc.array(dims=['pixel'], values=flags((d.sizes['pixel'],), 0.5))
            if 'bin' in which:
                d.masks['bad bins'] = sc.array(dims=list(d.dims), values=flags(tuple(d.shape), 0.4))
            if 'tof' in which:
                d.masks['tof range'] = sc.array(dims=['tof'], values=flags((d.sizes['tof'],), 0.4))
            if 'event' in which and _is_binned_da(d):
                def f(buf, dim):
                    buf = buf.copy()
                    n = buf.sizes[dim]
                    if n:
                        buf.masks['bad events'] = sc.array(dims=[dim], values=flags((n,), 0.4))
                    return buf, dim
                d = _rebuild_events(d, f)
            return d
        return _items(da, one), {}
    return deco


def deco_dims(pixel, tof, event=None):
    """Caller's dimension labels: the labels this package and scipp's coordinate transformation use themselves
    ('event', 'row', 'x', 'spectrum', ...), the names of the coordinates involved, the origin and the target."""
    def deco(rng, ctx, da, kind):
        en = 'incident_energy' if kind == 'direct' else 'final_energy'
        px = en if pixel == '<fixed energy>' else pixel
        if event is not None and _is_binned_da(da):
            da = _rebuild_events(da, lambda buf, dim: (buf.rename_dims({dim: event}), event))
        return _rename(da, {'pixel': px, 'tof': tof})
    return deco


def deco_subclass(rng, ctx, da, kind):
    sub = _DataArraySubclass(da.data, coords={k: da.coords[k] for k in da.coords},
                             masks={k: da.masks[k] for k in da.masks})
    for k in da.coords:
        sub.coords.set_aligned(k, da.coords[k].aligned)
    return sub, {}


def _poison(*, tof):
    return tof * 0.0


def _energy_names(kind):
    return ('incident_energy', 'final_energy') if kind == 'direct' else ('final_energy', 'incident_energy')


# ---------------------------------------- the caller writes into its objects ---
# scipp objects are mutable and share memory freely (a Dataset and its items, sc.bins and the table it was made
# from, a coordinate handed to several data arrays).  The property speaks about the values the operands hold WHEN
# the conversion is called and about the result it returned: neither a later write into an operand nor a write into
# the computed energy transfer may change the other.  (Coordinates that convert() merely carries over - tof, L1,
# L2, the data values - are documented shallow copies and are not looked at.)
def _operand_vars(da, kind):
    """Live references to the operands of the conversion as they sit on the object handed to convert()."""
    en = 'incident_energy' if kind == 'direct' else 'final_energy'
    live = {n: da.coords[n] for n in ('tof', 'L1', 'L2', en) if n in da.coords}
    if _is_binned_da(da) and 'tof' in da.bins.coords:
        live['tof of the events'] = da.bins.coords['tof']
    return live


def _snapshot(v):
    b = _buf(v)
    return np.array(b.values, copy=True), b.unit, b.dtype


def _same(v, snap):
    b = _buf(v)
    a = np.asarray(b.values)
    return (b.unit == snap[1] and b.dtype == snap[2] and a.shape == snap[0].shape
            and bool(np.array_equal(a, snap[0], equal_nan=a.dtype.kind == 'f')))


def _write(v, arr):
    """Write into the memory the variable already has (never rebinds)."""
    _buf(v).values[...] = arr


def _other_contents(arr):
    """Different numbers of the same kind: every time later, every length / energy larger."""
    with np.errstate(all='ignore'):
        return (np.abs(arr.astype(np.float64)) * 1.75 + 1.0).astype(arr.dtype)


def earlier_call_on_other_contents(ctx, scn, mon, kind, da, flag):
    """The very objects of the probe hold other contents (values of every operand, the unit of L1) while convert()
    is called a first time; the caller then writes the contents of the probe into the same memory.  The conversion
    that follows must answer for the new contents.  The first call is not judged (its contents are arbitrary)."""
    try:
        live = _operand_vars(da, kind)
        snaps = {n: _snapshot(v) for n, v in live.items()}
    except Exception:  # noqa: BLE001
        ctx.oracle_error('in place: operands')
        return False
    saved = (mon.boundary, mon.convert_kind)
    mon.boundary, mon.convert_kind, mon.mute = None, None, True
    try:
        try:
            for n, v in live.items():
                _write(v, _other_contents(snaps[n][0]))
            u1 = snaps['L1'][1]
            live['L1'].unit = sc.Unit('mm') if u1 != sc.Unit('mm') else sc.Unit('cm')
        except Exception:  # noqa: BLE001
            ctx.oracle_error('in place: writing the earlier contents')
            return False
        try:
            scn.convert(da, 'tof', 'energy_transfer', scatter=flag)
            ctx.count('in place: first call (earlier contents) returned')
        except Exception as e:  # noqa: BLE001  arbitrary contents: whatever the package does with them is tallied
            ctx.count(f'in place: first call (earlier contents) raised {type(e).__name__}')
    finally:
        mon.boundary, mon.convert_kind = saved
        mon.mute = False
        try:
            for n, v in live.items():
                _write(v, snaps[n][0])
            live['L1'].unit = snaps['L1'][1]
            restored = all(_same(v, snaps[n]) for n, v in live.items())
        except Exception:  # noqa: BLE001
            restored = False
    if not restored:
        ctx.oracle_error('in place: contents of the probe not restored')
        return False
    ctx.count('in place: operands rewritten between two calls', len(live))
    return True


def _alias_case(mon, **kw):
    return {**{k: v for k, v in mon.meta.items()}, **kw}


def aliasing_of_result(ctx, mon, kind, da, out, target, invoke, held=None):
    """(1) write into every operand in place: the energy transfer obtained before must not move; (2) write into the
    energy transfer: no operand may move, and the same call on the same objects gives the first result again."""
    try:
        live = _operand_vars(da, kind)
        res = _target_coords(out, target)
        snap_a = {n: _snapshot(v) for n, v in live.items()}
        snap_r = {n: _snapshot(v) for n, v in res.items()}
    except Exception:  # noqa: BLE001
        ctx.oracle_error('aliasing: snapshots')
        return False
    if not res:
        return False  # reported by the result monitor (no target)
    found = False
    # held: what the operands held before the call
    for n in (held or {}):
        try:
            changed = n in live and not _same(live[n], held[n])
        except Exception:  # noqa: BLE001
            ctx.oracle_error('aliasing: operands before / after')
            return False
        if changed:
            found = True
            ctx.violation('operand_modified', f'the conversion changed the contents of {n} on the object the caller '
                          'passed', _alias_case(mon, operand=n), at='convert')
    for n, v in live.items():
        try:
            _write(v, _other_contents(snap_a[n][0]))
            moved = [r for r, rv in res.items() if not _same(rv, snap_r[r])]
            _write(v, snap_a[n][0])
        except Exception:  # noqa: BLE001
            ctx.oracle_error('aliasing: writing into an operand')
            return False
        for r in moved:
            found = True
            ctx.violation('aliasing', f'the {target} ({r}) returned earlier changed when the caller wrote into {n} of '
                          'the object it had passed', _alias_case(mon, operand=n, result=r),
                          direction='operand -> earlier result')
    writable = 0
    for r, rv in res.items():
        try:
            _write(rv, np.full_like(snap_r[r][0], 7.25))
            writable += 1
        except Exception:  # noqa: BLE001  a read-only result cannot be written through
            ctx.count('aliasing: result not writable')
            continue
        try:
            moved = [n for n, v in live.items() if not _same(v, snap_a[n])]
            for n in moved:
                _write(live[n], snap_a[n][0])
        except Exception:  # noqa: BLE001
            ctx.oracle_error('aliasing: comparing the operands')
            return False
        for n in moved:
            found = True
            ctx.violation('aliasing', f'{n} of the object passed in changed when the caller wrote into the {target} '
                          f'({r}) of the result', _alias_case(mon, operand=n, result=r),
                          direction='result -> operand')
    again = _target_coords(invoke(), target)  # judged by the monitors like every call; exceptions: the caller's handler
    try:
        differs = [r for r in res if r not in again or not _same(again[r], snap_r[r])]
    except Exception:  # noqa: BLE001
        ctx.oracle_error('aliasing: comparing the repeated call')
        return False
    for r in differs:
        found = True
        ctx.violation('aliasing', f'the same call on the same objects after the caller wrote into the {target} ({r}) '
                      'of the first result does not give the first result again', _alias_case(mon, result=r),
                      direction='repeat after write into result')
    try:  # the first result goes on to the result monitor: give it back what it held
        for r, rv in res.items():
            _write(rv, snap_r[r][0])
    except Exception:  # noqa: BLE001
        ctx.count('aliasing: result not writable')
    ctx.event('aliasing')
    ctx.count('aliasing: operands written / results written', len(live) + writable)
    return not found


ALIAS_LAYOUTS = ('scalar', '2d', 'common_tof', 'binned')


def aliasing_kernel_cases(rng, ctx, K, mon, kind):
    """The same two questions for the kernels themselves (the result is a new variable, the operands are the
    caller's), in every operand layout; then the caller writes other arrival times into the SAME tof variable and
    calls again with the very same objects: the monitor judges that return against the new contents."""
    kernel = getattr(K, f'energy_transfer_{kind}_from_tof')
    for layout in ALIAS_LAYOUTS:
        kw, sig = gen(rng, ctx, kind, layout, False, ('meV', 'us', 'm', 'm'))
        mon.meta = {'family': 'aliasing', 'layout': layout, 'kernel': kind}
        mon.last_t0 = None

        live = dict(kw)
        try:
            snap_a = {n: _snapshot(v) for n, v in live.items()}
        except Exception:  # noqa: BLE001
            ctx.oracle_error('aliasing (kernel)')
            continue
        try:
            first = kernel(**kw)
        except Exception:  # noqa: BLE001  judged by the kernel monitor
            continue
        try:
            for n, v in live.items():
                if not _same(v, snap_a[n]):
                    ctx.violation('operand_modified', f'the kernel changed the contents of the caller\'s {n}',
                                  _alias_case(mon, operand=n), at='kernel')
                    _write(v, snap_a[n][0])
            snap_r = _snapshot(first)
            found = False
            for n, v in live.items():
                _write(v, _other_contents(snap_a[n][0]))
                moved = not _same(first, snap_r)
                _write(v, snap_a[n][0])
                if moved:
                    found = True
                    ctx.violation('aliasing', f'the energy transfer returned earlier changed when the caller wrote into '
                                  f'{n}', _alias_case(mon, operand=n), direction='operand -> earlier result')
            _write(first, np.full_like(snap_r[0], 7.25))
            for n, v in live.items():
                if not _same(v, snap_a[n]):
                    found = True
                    _write(v, snap_a[n][0])
                    ctx.violation('aliasing', f'{n} changed when the caller wrote into the energy transfer returned',
                                  _alias_case(mon, operand=n), direction='result -> operand')
        except Exception:  # noqa: BLE001
            ctx.oracle_error('aliasing (kernel)')
            continue
        try:
            again = kernel(**kw)
        except Exception:  # noqa: BLE001  judged by the kernel monitor
            continue
        try:
            if not _same(again, snap_r):
                ctx.violation('aliasing', 'the same kernel call on the same objects after the caller wrote into the first '
                              'result does not give the first result again', _alias_case(mon),
                              direction='repeat after write into result')
            ctx.event('aliasing')
            # (k) other arrival times in the same variable, same objects
            _write(kw['tof'], _other_contents(snap_a['tof'][0]))
            mon.meta = {'family': 'in place', 'layout': layout, 'kernel': kind}
        except Exception:  # noqa: BLE001
            ctx.oracle_error('aliasing (kernel)')
            continue
        try:
            later = kernel(**kw)  # judged by the kernel monitor against what the operands hold now
        except Exception:  # noqa: BLE001
            continue
        try:
            # a result that still is the first one although no arrival time is what it was (all-NaN results aside)
            a0 = snap_r[0]
            if a0.size and not np.all(np.isnan(a0)) and _same(later, snap_r):
                ctx.violation('stale_result', 'kernel called again with the same objects after the caller wrote other '
                              'arrival times into the tof variable: the result of the earlier contents came back',
                              _alias_case(mon), kernel=kind)
            ctx.event('in_place_between_calls')
        except Exception:  # noqa: BLE001
            ctx.oracle_error('in place (kernel)')
        ctx.hit(f'aliasing / in place, kernel operands: {layout}')
        ctx.case(('aliasing', kind, layout))


# ------------------------------------------------------------- names ---
# Names are compared code point by code point: a string that only NORMALISES (NFKC) to a name of the interface is
# another name.  On the data such coordinates are bystanders; as target / energy mode they name nothing.
def _fullwidth_first(name):
    return chr(ord(name[0]) + 0xFEE0) + name[1:]


def deco_lookalike_coords(rng, ctx, da, kind):
    en, other_en = _energy_names(kind)

    def one(d):
        d = d.copy(deep=False)
        d.coords[_fullwidth_first(other_en)] = sc.scalar(3.0, unit='meV')  # is not the other energy
        d.coords[_fullwidth_first(en)] = sc.scalar(1.0e-3, unit='meV')  # is not the fixed energy
        d.coords[_fullwidth_first('L1')] = sc.scalar(1.0e-3, unit='m')
        d.coords[_fullwidth_first('L2')] = sc.scalar(1.0e3, unit='m')
        d.coords[_fullwidth_first('tof')] = sc.scalar(0.0, unit='us')
        d.coords['energy\uff3ftransfer'] = sc.scalar(0.0, unit='meV')  # FULLWIDTH LOW LINE: is not the target
        d.coords['Ltota\u2113'] = sc.scalar(1.0, unit='m')  # SCRIPT SMALL L
        return d
    return _items(da, one), {}


# ------------------------------------------- bystanders with reserved names ---
# scipp looks a coordinate name up among the dense coordinates AND among the coordinates of the events.  The
# conversion to energy transfer consumes tof, L1, L2 and the fixed energy of the geometry and produces
# energy_transfer.  Every other name the package's graphs know - the OTHER geometry's energy, Ltotal, wavelength,
# energy, dspacing, Q, two_theta, the positions and beams - is a bystander when it sits on the data next to the
# supplied operands: the neutrons, the geometry and hence Ei - Ef are the same.  (Names that ARE operands or the
# target are left out: an event-level L1 / L2 / fixed energy / tof is an operand for scipp, an energy_transfer
# already present is returned as it is, and BOTH energies as dense coordinates is the documented refusal.)
RESERVED_SCALARS = (('Ltotal', 'm'), ('wavelength', 'angstrom'), ('energy', 'meV'), ('dspacing', 'angstrom'),
                    ('Q', '1/angstrom'), ('two_theta', 'rad'))
RESERVED_VECTORS = (('position', 'm'), ('source_position', 'm'), ('sample_position', 'm'), ('incident_beam', 'm'),
                    ('scattered_beam', 'm'), ('gravity', 'm/s^2'))


def _bystanders(rng, kind, fixed, dims, shape, which):
    """{reserved name: variable of the given dims / shape}; the other energy in unit and precision of the fixed one."""
    _, other_en = _energy_names(kind)
    out = {}
    if 'other energy' in which:
        out[other_en] = sc.array(dims=dims, values=rng.uniform(0.5, 50.0, size=shape),
                                 unit=fixed.unit).to(dtype=fixed.dtype, copy=False)
    if 'other names' in which:
        for nm, u in RESERVED_SCALARS:
            out[nm] = sc.array(dims=dims, values=rng.uniform(0.1, 10.0, size=shape), unit=u)
        for nm, u in RESERVED_VECTORS:
            out[nm] = sc.vectors(dims=dims, values=rng.normal(size=(*shape, 3)), unit=u)
    return out


def deco_event_bystanders(which, dataset=False):
    """Binned data whose table of events carries per-event coordinates named after reserved names (e.g. the
    incident energy Ei = Ef + dE of every neutron kept with the events of an indirect spectrometer)."""
    def deco(rng, ctx, da, kind):
        en, _ = _energy_names(kind)

        def one(d):
            def f(buf, dim):
                buf = buf.copy()
                for nm, v in _bystanders(rng, kind, d.coords[en], [dim], (buf.sizes[dim],), which).items():
                    buf.coords[nm] = v
                return buf, dim
            out = _rebuild_events(d, f)
            for k in d.coords:
                out.coords.set_aligned(k, d.coords[k].aligned)
            ctx.count('reserved names: coordinates put on the events', len(out.bins.coords) - len(d.bins.coords))
            return out
        da = one(da)
        if dataset:
            da = sc.Dataset({'sample': da, 'vanadium': da.copy()})
        return da, {}
    return deco


def deco_dense_bystanders(rng, ctx, da, kind):
    """Per-pixel (0-d for a single spectrum) dense coordinates named after the reserved names that are neither
    operands nor the target nor the other energy."""
    en, _ = _energy_names(kind)

    d = da.copy(deep=False)  # the items of a dataset share its coordinates
    dims, shape = (['pixel'], (d.sizes['pixel'],)) if 'pixel' in d.dims else ([], ())
    for nm, v in _bystanders(rng, kind, d.coords[en], dims, shape, ('other names',)).items():
        d.coords[nm] = v
    ctx.count('reserved names: dense coordinates put on the data', len(RESERVED_SCALARS) + len(RESERVED_VECTORS))
    return d, {}


# FULLWIDTH LATIN SMALL LETTER E / D / T, FULLWIDTH LOW LINE, LATIN SMALL LETTER LONG S, SMALL ROMAN NUMERAL ONE,
# SCRIPT SMALL O (all NFKC-equivalent to the ASCII spelling); a trailing COMBINING ACUTE ACCENT (another name in
# every normal form)
LOOKALIKE_TARGETS = ('\uff45nergy_transfer', 'energy\uff3ftransfer', 'energy_tran\u017ffer', 'energy_transfer\u0301')
LOOKALIKE_MODES = ('\uff44irect_inelastic', 'direct\uff3finelastic', 'indirect_inela\u017ftic',
                   'indirect_\u2170nelastic')
LOOKALIKE_ORIGINS = ('\uff54of', 't\u2134f', 'tof\u0301')


def lookalike_name_calls(ctx, scn, da, kind):
    """Targets / energy modes / origins that are only look-alikes of the interface's names.  A refusal is counted;
    a call that answers as if the proper name had been given has normalised the name."""
    import unicodedata

    for t in LOOKALIKE_TARGETS:
        try:
            out = scn.convert(da, 'tof', t, scatter=True)
        except Exception as e:  # noqa: BLE001
            ctx.count(f'look-alike target: refused ({type(e).__name__})')
        else:
            if 'energy_transfer' in out.coords and 'energy_transfer' not in da.coords:
                ctx.violation('name_normalised', f'convert(target={t!r}) ({[unicodedata.name(c) for c in t if ord(c) > 127]}) '
                              'answered with an energy_transfer coordinate', {'target': t, 'kind': kind}, argument='target')
            else:
                ctx.count('look-alike target: returned without energy_transfer')
        ctx.event('lookalike_names')
    for m in LOOKALIKE_MODES:
        try:
            g = scn.conversion_graph('tof', 'energy_transfer', True, m)
        except Exception as e:  # noqa: BLE001
            ctx.count(f'look-alike energy mode: refused ({type(e).__name__})')
        else:
            if 'energy_transfer' in g:
                ctx.violation('name_normalised', f'conversion_graph(energy_mode={m!r}) returned a graph with a rule for '
                              'energy_transfer', {'energy_mode': m}, argument='energy_mode')
            else:
                ctx.count('look-alike energy mode: graph without a rule for energy_transfer')
        ctx.event('lookalike_names')
    # the origin: the inelastic graphs of the unchanged package always start from 'tof' and never look at the name
    # given as origin (any string is accepted); tallied, not judged
    for o in (*LOOKALIKE_ORIGINS, 'no such coordinate'):
        try:
            scn.convert(da, o, 'energy_transfer', scatter=True)
            ctx.count('origin name not on the data: accepted (the origin is not looked at)')
        except Exception as e:  # noqa: BLE001
            ctx.count(f'origin name not on the data: refused ({type(e).__name__})')
    ctx.hit('names that only normalise to names of the interface')


# ------------------------------------------------- first call of a process ---
FRESH_SCRIPT = r'''
import json, sys
import numpy as np
import scipp as sc
spec = json.loads(sys.stdin.read())
def var(s):
    a = np.array([float.fromhex(x) for x in s['values']], dtype='float64').reshape(s['shape'])
    if not s['dims']:
        return sc.scalar(a.item(), unit=s['unit'], dtype='float64')
    return sc.array(dims=s['dims'], values=a, unit=s['unit'], dtype='float64')
operands = {k: var(v) for k, v in spec['operands'].items()}
before = sorted(m for m in sys.modules if m.startswith('scippneutron') or m == 'scipp.constants')
try:
    if spec['entry'] == 'convert':
        tof = operands['tof']
        da = sc.DataArray(sc.ones(dims=tof.dims, shape=tof.shape, unit='counts'), coords=operands)
        from scippneutron.core.conversions import convert
        res = convert(da, 'tof', 'energy_transfer', scatter=True).coords['energy_transfer']
    else:
        import importlib
        res = getattr(importlib.import_module('scippneutron.conversion.tof'), spec['entry'])(**operands)
    out = {'dims': list(res.dims), 'shape': list(res.shape), 'unit': str(res.unit), 'dtype': str(res.dtype),
           'values': [float(x).hex() for x in np.asarray(res.values, dtype='float64').ravel()]}
except BaseException as e:
    out = {'raised': type(e).__name__ + ': ' + str(e)}
out['imported_before'] = before
print('RVFRESH' + json.dumps(out))
'''
FRESH_ENTRIES = (('direct', 'energy_transfer_direct_from_tof'), ('indirect', 'energy_transfer_indirect_from_tof'),
                 ('direct', 'convert'), ('indirect', 'convert'))


def fresh_interpreter_case(rng, ctx, scn, K, mon, k):
    """The first call of an entry point in an interpreter that has imported nothing of the package but the module of
    that entry point (no scipp.constants, no harness), compared bit by bit with the same call in this process
    (which the monitors judge against the definition)."""
    import json
    import os
    import subprocess
    import sys

    kind, entry = FRESH_ENTRIES[k % len(FRESH_ENTRIES)]
    en = 'incident_energy' if kind == 'direct' else 'final_energy'
    try:
        kw = None
        while kw is None or kw['tof'].dtype != sc.DType.float64:
            kw, _ = gen(rng, ctx, kind, '2d', False, ('meV', 'us', 'm', 'm'))
        spec = {'entry': entry, 'operands': {
            n: {'dims': list(v.dims), 'shape': list(v.shape), 'unit': str(v.unit),
                'values': [float(x).hex() for x in np.asarray(v.values, dtype=np.float64).ravel()]}
            for n, v in kw.items()}}
    except Exception:  # noqa: BLE001
        ctx.oracle_error('fresh interpreter: inputs')
        return
    mon.meta = {'family': 'fresh interpreter', 'entry': entry, 'kind': kind}
    mon.convert_kind = kind
    try:
        if entry == 'convert':
            da = sc.DataArray(sc.ones(dims=kw['tof'].dims, shape=kw['tof'].shape, unit='counts'), coords=dict(kw))
            here = scn.convert(da, 'tof', 'energy_transfer', scatter=True).coords['energy_transfer']
        else:
            here = getattr(K, entry)(**kw)
    except Exception as e:  # noqa: BLE001
        ctx.violation('convert_raised', f'{entry} raised {type(e).__name__}: {e}', dict(mon.meta), family='fresh interpreter')
        return
    try:
        flags = ['-OO'] if sys.flags.optimize >= 2 else []
        p = subprocess.run([sys.executable, *flags, '-c', FRESH_SCRIPT], input=json.dumps(spec), capture_output=True,
                           text=True, timeout=300, env=dict(os.environ), check=False)
        line = next((ln for ln in p.stdout.splitlines() if ln.startswith('RVFRESH')), None)
    except Exception:  # noqa: BLE001  (also a timeout: wall clock is never a verdict)
        ctx.oracle_error('fresh interpreter: subprocess')
        return
    if line is None:
        # nothing of the package had run yet when the script failed, or the interpreter died
        ctx.count('fresh interpreter: no answer (' + (p.stderr.strip().splitlines() or ['?'])[-1][:120] + ')')
        ctx.inconclusive_because('fresh interpreter: the subprocess gave no answer')
        return
    try:
        got = json.loads(line[len('RVFRESH'):])
    except Exception:  # noqa: BLE001
        ctx.oracle_error('fresh interpreter: answer')
        return
    ctx.event('fresh_interpreter')
    ctx.hit(f'first call in a fresh interpreter: {entry} ({kind})')
    ctx.case(('fresh interpreter', entry, kind))
    if got.get('imported_before'):
        ctx.count('fresh interpreter: package modules already imported before the entry point\'s module')
    if 'raised' in got:
        ctx.violation('fresh_interpreter', f'{entry} as the first call of a fresh interpreter raised {got["raised"]}',
                      dict(mon.meta), entry=entry)
        return
    try:
        want = np.asarray(here.values, dtype=np.float64).ravel()
        have = np.array([float.fromhex(x) for x in got['values']], dtype=np.float64)
        same = (got['dims'] == list(here.dims) and got['shape'] == list(here.shape) and got['unit'] == str(here.unit)
                and got['dtype'] == str(here.dtype) and have.shape == want.shape
                and bool(np.array_equal(have, want, equal_nan=True)))
    except Exception:  # noqa: BLE001
        ctx.oracle_error('fresh interpreter: comparison')
        return
    if not same:
        with np.errstate(all='ignore'):
            worst = (float(np.nanmax(np.abs(have - want) / np.abs(want))) if have.shape == want.shape and have.size
                     else float('nan'))
        ctx.violation('fresh_interpreter', f'{entry} as the first call of a fresh interpreter answers differently from the '
                      f'same call in a process that has used the package (largest relative difference {worst:.3g}; '
                      f'{got["dims"]} {got["unit"]} {got["dtype"]})', dict(mon.meta), entry=entry)


# ------------------------------------------------------- operand lengths ---
# Lengths scipp / the package use themselves: 1 (broadcast), 2 (a pair of bin edges, a 'range'), 3 (the components
# of a position vector), 4 (one above): every combination for the pixel and the time dimension.
SIZES = tuple((a, b) for a in (1, 2, 3, 4) for b in (1, 2, 3, 4))


def size_class_name(where, shape):
    return f'{where}: {shape[0]} pixel(s) x {shape[1]} arrival time(s)'


def call_form(form, rng, ctx, scn, K, mon, kind, da, j):
    """Stage 2 of the probe in the calling form; returns False when the call raised (reported)."""
    from scippneutron.conversion import graph as G

    how = form.get('call', 'convert mixed')
    nm = NAME_FORMS[form.get('names', 'str')]
    tof_, et_ = nm('tof'), nm('energy_transfer')
    mode = nm(kind + '_inelastic')
    flag = scatter_true(ctx, form['flag'] if 'flag' in form else j)
    mon.meta = dict(mon.meta, scatter=f'{type(flag).__module__}.{type(flag).__name__}', call=how)
    kernel = getattr(K, f'energy_transfer_{kind}_from_tof')
    en, other_en = _energy_names(kind)
    out, target, via = None, 'energy_transfer', 'convert'
    try:
        pre = form.get('before')
        if pre == 'refused: both energies':
            bad = da.copy()
            bad.coords[other_en] = sc.scalar(3.0, unit='meV')
            mon.convert_kind, mon.expect_refusal = None, pre
            try:
                scn.convert(bad, 'tof', 'energy_transfer', scatter=flag)
                ctx.count('before: call with both energies was accepted')
            except Exception as e:  # noqa: BLE001  any refusal of an input outside the property
                ctx.count(f'before: call with both energies refused ({type(e).__name__})')
            finally:
                mon.convert_kind, mon.expect_refusal = kind, None
        elif pre == 'refused: arrival time given as a length':
            bad = da.copy()
            bad.coords['tof'] = sc.array(dims=list(da.coords['tof'].dims),
                                         values=np.asarray(da.coords['tof'].values, dtype=np.float64), unit='m')
            mon.convert_kind, mon.expect_refusal = None, pre
            try:
                scn.convert(bad, 'tof', 'energy_transfer', scatter=flag)
                ctx.count('before: call with tof in metres was accepted')
            except Exception as e:  # noqa: BLE001
                ctx.count(f'before: call with tof in metres refused ({type(e).__name__})')
            finally:
                mon.convert_kind, mon.expect_refusal = kind, None
        elif pre == 'graphs handed out earlier were modified by the caller':
            for g in (scn.conversion_graph('tof', 'energy_transfer', True, 'direct_inelastic'),
                      scn.conversion_graph('tof', 'energy_transfer', True, 'indirect_inelastic'),
                      scn.deduce_conversion_graph(da, 'tof', 'energy_transfer', True),
                      G.tof.direct_inelastic('tof'), G.tof.indirect_inelastic('tof')):
                g['energy_transfer'] = _poison
                g.pop('L1', None)
        elif pre == 'display of data, graph and result between two calls':
            g = scn.conversion_graph('tof', 'energy_transfer', True, str(mode))
            first = scn.convert(da, 'tof', 'energy_transfer', scatter=flag)
            for o in (da, first, g, kernel):
                repr(o)
                str(o)
            for o in (da, first):
                o._repr_html_()
            if g != dict(g) or copy.copy(g) != g:
                ctx.count('graph does not compare equal to its copy')
        elif pre == 'same input converted before':
            scn.convert(da, 'tof', 'energy_transfer', scatter=flag)
        elif pre == 'operands modified in place between two calls':
            if not earlier_call_on_other_contents(ctx, scn, mon, kind, da, flag):
                return False
        elif pre == 'result of an earlier conversion fed back':
            first = scn.convert(da, 'tof', 'energy_transfer', scatter=flag)
            back = {o: d for o, d in zip(first.dims, da.dims, strict=True) if o != d}
            da = first.drop_coords('energy_transfer').rename_dims(back)
        elif pre == 'other energy of every event stored after a first conversion':
            # the route by which such a coordinate comes to sit on events: Ei = Ef + dE (Ef = Ei - dE) of every
            # neutron is kept with the events, the same data object is converted again later in the workflow
            first = scn.convert(da, 'tof', 'energy_transfer', scatter=flag)
            try:
                dE, fixed = first.bins.coords['energy_transfer'], first.coords[en]
                stored = _buf(fixed - dE if kind == 'direct' else fixed + dE)

                def keep(buf, dim):
                    buf = buf.copy()
                    buf.coords[other_en] = stored.rename_dims({stored.dim: dim})
                    return buf, dim
                aligned = {k: da.coords[k].aligned for k in da.coords}
                da = _rebuild_events(da, keep)
                for k, al in aligned.items():
                    da.coords.set_aligned(k, al)
            except Exception:  # noqa: BLE001  the harness itself
                ctx.oracle_error('reserved names: storing the other energy with the events')
                return False
            ctx.count('reserved names: other energy of the events taken from a first conversion')

        if how not in ('convert mixed', 'convert positional', 'convert keywords'):
            via = 'graph'
        if how == 'kernel as a node under another name':
            target = 'dE'

        def invoke():
            if how == 'convert mixed':
                return scn.convert(da, tof_, et_, scatter=flag)
            elif how == 'convert positional':
                return scn.convert(da, tof_, et_, flag)
            elif how == 'convert keywords':
                return scn.convert(scatter=flag, target=et_, origin=tof_, data=da)
            else:
                if how == 'deduce_conversion_graph positional':
                    g = scn.deduce_conversion_graph(da, tof_, et_, flag)
                elif how == 'deduce_conversion_graph keywords':
                    g = scn.deduce_conversion_graph(scatter=flag, target=et_, origin=tof_, data=da)
                elif how == 'conversion_graph positional':
                    g = scn.conversion_graph(tof_, et_, flag, mode)
                elif how == 'conversion_graph keywords':
                    g = scn.conversion_graph(energy_mode=mode, scatter=flag, target=et_, origin=tof_)
                elif how == 'graph factories':
                    fac = G.tof.direct_inelastic if kind == 'direct' else G.tof.indirect_inelastic
                    g = {**G.beamline.beamline(scatter=flag), **(fac(tof_) if j % 2 else fac(start=tof_))}
                elif how == 'kernel as the node of a graph':
                    g = {'energy_transfer': kernel}
                elif how == 'kernel as a node under another name':
                    g = {'dE': kernel}
                elif how == 'graph deep-copied':
                    g = copy.deepcopy(scn.conversion_graph('tof', 'energy_transfer', flag, str(mode)))
                elif how == 'graph pickled':
                    g = pickle.loads(pickle.dumps(scn.conversion_graph('tof', 'energy_transfer', flag, str(mode))))
                else:
                    raise AssertionError(how)
                return da.transform_coords(target if target != 'energy_transfer' else et_, graph=g)

        held = None
        if form.get('after') == 'aliasing of result and arguments':
            try:
                held = {n: _snapshot(v) for n, v in _operand_vars(da, kind).items()}
            except Exception:  # noqa: BLE001
                ctx.oracle_error('aliasing: operands before the call')
                return False
        out = invoke()
        if held is not None:
            # harness errors are reported inside; exceptions of the repeated call propagate to the handler below
            aliasing_of_result(ctx, mon, kind, da, out, target, invoke, held)
    except Exception as e:  # noqa: BLE001  no exception is allowed: same neutrons, same geometry, another form
        ctx.violation('convert_raised', f'{form["name"]}: {type(e).__name__}: {e}', dict(mon.meta),
                      family='entry-point form', axis=form['axis'])
        return False
    finally:
        mon.expect_refusal = None
        mon.convert_kind = kind
    ctx.hit('entry point: ' + how)
    if via == 'graph':
        mon.judge_object(kind, da, out, target=target, via='graph')
    if isinstance(da, _DataArraySubclass):
        ctx.count('subclass: transform_coords of the subclass was called', _DataArraySubclass.calls)
        _DataArraySubclass.calls = 0
    return True


def _dense(c):
    return c[2] == 'dense'


def _binned(c):
    return c[2] == 'binned events'


def _data_array(c):
    return c[2] != 'dataset'


def _no_broadcast_of_tof(c):
    # a coordinate with variances must already have the shape of the result (scipp refuses to broadcast it)
    return c[1] in ('per-pixel 2-d', 'single spectrum') and c[2] != 'tof-major data'


def _forms():
    out = []

    def add(axis, name, **kw):
        out.append({'axis': axis, 'name': name, **kw})

    # (K) every true form of the flag x every entry point that takes it
    for k, (fname, _) in enumerate(SCATTER_TRUE):
        for how in ('convert positional', 'convert keywords', 'deduce_conversion_graph positional',
                    'conversion_graph positional'):
            add('scatter flag', f'scatter = {fname}; {how}', flag=k, call=how)
    # (d) calling conventions and graph use
    for how in ('convert mixed', 'deduce_conversion_graph keywords', 'conversion_graph keywords', 'graph factories',
                'kernel as the node of a graph', 'kernel as a node under another name'):
        add('calling convention', how, call=how)
    # (e) names given as numpy strings / members of a (str, Enum)
    for names in ('np.str_', '(str, Enum) member'):
        for how in ('convert positional', 'convert keywords', 'conversion_graph positional', 'graph factories'):
            add('name types', f'names as {names}; {how}', names=names, call=how)
    # (a) variances
    add('variances', 'variances on the arrival times (dense coordinate and events)', decorate=deco_tof_variances,
        needs=_no_broadcast_of_tof, f32=None)
    add('variances', 'variances on the arrival times; kernel as the node of a graph', decorate=deco_tof_variances,
        needs=_no_broadcast_of_tof, call='kernel as the node of a graph', f32=None)
    add('variances', 'variances on the data values', decorate=deco_data_variances, needs=_data_array)
    # (b) masks
    add('masks', 'per-pixel mask', decorate=deco_masks(('pixel',)), needs=lambda c: c[1] != 'single spectrum')
    add('masks', 'bin-level mask', decorate=deco_masks(('bin', 'tof')))
    add('masks', 'event-level mask', decorate=deco_masks(('event',)), needs=_binned)
    add('masks', 'masks of every kind', decorate=deco_masks(('pixel', 'bin', 'tof', 'event')))
    # (c) dimension labels
    for px, tf in (('event', 'tof'), ('row', 'tof'), ('x', 'time'), ('spectrum', 'tof'), ('L2', 'tof'),
                   ('<fixed energy>', 'tof'), ('energy_transfer', 'tof'), ('position', 'x'), ('tof', 'time'),
                   ('pixel', 'energy_transfer'), ('L1', 'event'), ('detector_number', 'Ltotal')):
        add('dimension labels', f'dims ({px}, {tf})', decorate=deco_dims(px, tf))
    for ev in ('tof', 'pixel', 'x', 'row', 'energy_transfer'):
        add('dimension labels', f'table of events along "{ev}"', decorate=deco_dims('pixel', 'tof', ev), needs=_binned)
    add('dimension labels', 'dims (event, x), table of events along "tof"', decorate=deco_dims('event', 'x', 'tof'),
        needs=_binned)
    # (i) subclass of the documented argument class
    add('subclass', 'subclass of DataArray', decorate=deco_subclass, needs=_data_array)
    add('subclass', 'subclass of DataArray; deduce_conversion_graph', decorate=deco_subclass, needs=_data_array,
        call='deduce_conversion_graph positional')
    # (g) second use, (j) display / copies between calls
    for before in ('refused: both energies', 'refused: arrival time given as a length',
                   'graphs handed out earlier were modified by the caller', 'same input converted before',
                   'display of data, graph and result between two calls'):
        add('second use', before, before=before)
    add('second use', 'result of an earlier conversion fed back', before='result of an earlier conversion fed back',
        needs=lambda c: _dense(c))
    add('second use', 'graphs handed out earlier were modified by the caller; conversion_graph',
        before='graphs handed out earlier were modified by the caller', call='conversion_graph positional')
    # (k) the caller's objects held other contents at an earlier call, (l) result and operands share no memory
    for how in ('convert mixed', 'deduce_conversion_graph positional'):
        add('in place', f'operands modified in place between two calls; {how}',
            before='operands modified in place between two calls', call=how)
    for how in ('convert mixed', 'conversion_graph positional', 'kernel as the node of a graph'):
        add('aliasing', f'aliasing of result and arguments; {how}', after='aliasing of result and arguments', call=how)
    # (n) coordinates on the data whose names only normalise (NFKC) to names of the interface: bystanders
    add('names', 'look-alike coordinate names on the data', decorate=deco_lookalike_coords)
    add('names', 'look-alike coordinate names on the data; deduce_conversion_graph', decorate=deco_lookalike_coords,
        call='deduce_conversion_graph positional')
    # (o) bystander coordinates, on the events and on the data, named after names the package reserves
    for how in ('convert mixed', 'convert keywords', 'deduce_conversion_graph positional',
                'deduce_conversion_graph keywords'):
        add('reserved names', f"event coordinate named after the other geometry's energy; {how}",
            decorate=deco_event_bystanders(('other energy',)), needs=_binned, call=how)
    for how in ('convert mixed', 'deduce_conversion_graph positional'):
        add('reserved names', f'event coordinates named after the other reserved names; {how}',
            decorate=deco_event_bystanders(('other names',)), needs=_binned, call=how)
        add('reserved names', f"dataset of binned items, event coordinates named after every reserved name; {how}",
            decorate=deco_event_bystanders(('other energy', 'other names'), dataset=True), needs=_binned, call=how)
        add('reserved names', f'dense coordinates named after the other reserved names; {how}',
            decorate=deco_dense_bystanders, call=how)
        add('reserved names', f'other energy of every event stored with the events after a first conversion; {how}',
            before='other energy of every event stored after a first conversion', needs=_binned, call=how)
    add('second use', 'graph deep-copied', call='graph deep-copied')
    add('second use', 'graph pickled', call='graph pickled')
    return tuple(out)


FORMS = _forms()


def form_class_name(form):
    return f'form [{form["axis"]}]: {form["name"]}'


def false_flag_calls(ctx, scn, da, kind):
    """scatter false in every form: the non-scattering graphs have no rule for the energy transfer.  The property
    says nothing about this configuration; what the package does is tallied, never judged."""
    for name, make in SCATTER_FALSE:
        flag = make()
        try:
            scn.convert(da, 'tof', 'energy_transfer', scatter=flag)
            ctx.count('scatter false: convert returned')
        except Exception as e:  # noqa: BLE001
            ctx.count(f'scatter false: convert refused ({type(e).__name__})')
        try:
            g = scn.conversion_graph('tof', 'energy_transfer', flag, kind + '_inelastic')
            ctx.count('scatter false: graph ' + ('with' if 'energy_transfer' in g else 'without')
                      + ' a rule for energy_transfer')
        except Exception as e:  # noqa: BLE001
            ctx.count(f'scatter false: conversion_graph refused ({type(e).__name__})')
        ctx.hit('scatter flag false: ' + name)


VARIANCE_OPERANDS = ('tof', 'L1', 'L2', 'energy', 'all')


def variance_kernel_cases(rng, ctx, K, mon, kind):
    """Kernel calls with variances on one operand at a time and on all of them, in the two layouts where scipp
    needs no broadcast of the carrier (all scalars; one arrival per pixel).  Values are judged for all of them;
    the variances only where the arrival time is the only carrier.  Where scipp has to broadcast a carrier it
    refuses (VariancesError): counted."""
    en = 'incident_energy' if kind == 'direct' else 'final_energy'
    for layout in ('scalar', 'one arrival per pixel'):
        for which in VARIANCE_OPERANDS:
            kw, sig = gen(rng, ctx, kind, 'scalar' if layout == 'scalar' else '2d', False, ('meV', 'us', 'm', 'm'))
            if layout != 'scalar':
                kw['tof'] = kw['tof']['tof', 0].copy()
            if kw['tof'].dtype not in (sc.DType.float64, sc.DType.float32):
                kw['tof'] = kw['tof'].to(dtype='float64')
            for n in ('tof', 'L1', 'L2', en):
                if which in ('all', 'energy' if n == en else n):
                    kw[n] = _rel_variances(kw[n])
            mon.meta = {'family': 'variances', 'layout': layout, 'carrier': which}
            mon.last_t0 = None
            try:
                getattr(K, f'energy_transfer_{kind}_from_tof')(**kw)
            except Exception:  # noqa: BLE001  judged by the kernel monitor (refusal of a broadcast is counted there)
                pass
            ctx.hit(f'variances on {which} ({layout})')
            ctx.case(('variances', kind, layout, which))


HEAVY = (('direct', 'events', False), ('indirect', 'events', True), ('direct', 'dense', True),
         ('indirect', 'dense', False))
HEAVY_EVENTS = 2**20 + 7
HEAVY_DENSE = (3, 400001)


def heavy_case(rng, ctx, scn, mon, kind, layout, f32):
    """One conversion of 2**20 + 7 events / 3 x 400001 points (sizes beyond any block, chunk or thread grain)."""
    r = np.float32 if f32 else np.float64
    meV, us = si.LD(si.lookup(sc.Unit('meV'))[0]), si.LD('1e-6')
    npix = 5 if layout == 'events' else HEAVY_DENSE[0]
    sizes = (rng.multinomial(HEAVY_EVENTS, np.full(npix, 1 / npix)) if layout == 'events'
             else np.full(npix, HEAVY_DENSE[1]))
    n = int(sizes.sum())
    pix = np.repeat(np.arange(npix), sizes)
    L1 = np.full(npix, 10.0 ** rng.uniform(0, 2)).astype(r)
    L2 = (10.0 ** rng.uniform(-0.5, 1.5, size=npix)).astype(r)
    Efix = (10.0 ** rng.uniform(-1, 3, size=1 if kind == 'direct' else npix)).astype(r)
    Efix_p = np.broadcast_to(Efix, (npix,))
    Efree = 10.0 ** rng.uniform(-3, 4, size=n)
    Lfix, Lfree = (L1, L2) if kind == 'direct' else (L2, L1)
    t0 = Lfix.astype(si.LD) / v_of(Efix_p.astype(si.LD) * meV)
    t = t0[pix] + Lfree.astype(si.LD)[pix] / v_of(Efree.astype(si.LD) * meV)
    sel = rng.random(n)
    t = np.where(sel < 0.1, t0[pix] * rng.uniform(0.05, 0.999, size=n), t)
    t_u = (t / us).astype(r)
    dt = 'float32' if f32 else 'float64'
    en = 'incident_energy' if kind == 'direct' else 'final_energy'
    coords = {'L1': sc.scalar(L1[0].item(), unit='m', dtype=dt),
              'L2': sc.array(dims=['pixel'], values=L2, unit='m', dtype=dt),
              en: (sc.scalar(Efix[0].item(), unit='meV', dtype=dt) if kind == 'direct'
                   else sc.array(dims=['pixel'], values=Efix, unit='meV', dtype=dt))}
    if layout == 'events':
        ev = sc.DataArray(sc.ones(dims=['event'], shape=[n], unit='counts', dtype='float32'),
                          coords={'tof': sc.array(dims=['event'], values=t_u, unit='us', dtype=dt)})
        end = np.cumsum(sizes)
        da = sc.DataArray(sc.bins(begin=sc.array(dims=['pixel'], values=end - sizes, unit=None, dtype='int64'),
                                  end=sc.array(dims=['pixel'], values=end, unit=None, dtype='int64'),
                                  dim='event', data=ev), coords=coords)
    else:
        da = sc.DataArray(sc.ones(dims=['pixel', 'tof'], shape=list(HEAVY_DENSE), unit='counts', dtype='float32'),
                          coords={**coords, 'tof': sc.array(dims=['pixel', 'tof'], values=t_u.reshape(HEAVY_DENSE),
                                                            unit='us', dtype=dt)})
    mon.convert_kind = kind
    mon.meta = {'family': 'heavy', 'layout': layout, 'elements': n, 'f32': f32}
    if _convert(ctx, scn, mon, da, scatter_true(ctx, n)):
        ctx.count('heavy: elements converted in one call', n)
    ctx.hit(f'heavy: {HEAVY_EVENTS} events' if layout == 'events' else f'heavy: {HEAVY_DENSE[0]} x {HEAVY_DENSE[1]} points')
    ctx.case(('heavy', kind, layout, dt))


LAYOUTS = ['scalar', '2d', 'binned', 'common_tof']


N_REGULAR = 13  # + the heavy shard + the runner's two environment variants of shard 0 = one wave on 16 cores


def plan(tier, seed):
    quick = tier == 'quick'
    regular = [{'cases': 1230 if quick else 24600, 'insitu': 74 if quick else 1850,
                'result_probes': 88 if quick else 1628, 'form_rounds': 1 if quick else 12}
               for _ in range(N_REGULAR)]
    return [*regular, {'cases': 0, 'insitu': 0, 'result_probes': 0, 'form_rounds': 0, 'heavy': True}]


def requirements(tier):
    return {'events': {'energy_transfer_direct_from_tof': 100, 'energy_transfer_indirect_from_tof': 100,
                       'convert_result:dense-edges': 200, 'convert_result:dense-points': 200,
                       'convert_result:events': 100,
                       'graph_result:dense-edges': 50, 'graph_result:dense-points': 50, 'graph_result:events': 20,
                       'variance_propagation': 20, 'all_unphysical_workspace': 200, 'aliasing': 50,
                       'in_place_between_calls': 50, 'lookalike_names': 50, 'fresh_interpreter': len(FRESH_ENTRIES)},
            'forced': ['tof below t0', 'boundary sextuple', 'per-pixel L1',
                       'float32 with extreme units inside the domain', 'dead pixel (NaN fixed-leg input)']
            + ['convert input: ' + a for a in ALIGNMENT_STATES]
            + [result_class_name(c) for c in RESULT_CLASSES]
            + ['convert result: coordinate value exactly at the observed t0',
               'convert result: coordinate in descending order']
            + ['scatter flag: ' + n for n, _ in SCATTER_TRUE] + ['scatter flag false: ' + n for n, _ in SCATTER_FALSE]
            + [form_class_name(f) for f in FORMS]
            + sorted({'entry point: ' + f.get('call', 'convert mixed') for f in FORMS})
            + [f'variances on {w} ({lay})' for lay in ('scalar', 'one arrival per pixel') for w in VARIANCE_OPERANDS]
            + [f'heavy: {HEAVY_EVENTS} events', f'heavy: {HEAVY_DENSE[0]} x {HEAVY_DENSE[1]} points']
            + [unphysical_class_name(k, c) for k in ('direct', 'indirect') for c in RESULT_CLASSES]
            + [size_class_name(w, z) for w in ('kernel', 'convert') for z in SIZES]
            + [f'aliasing / in place, kernel operands: {lay}' for lay in ALIAS_LAYOUTS]
            + ['names that only normalise to names of the interface']
            + [f'first call in a fresh interpreter: {e} ({k})' for k, e in FRESH_ENTRIES],
            'counters': {'boundary_points': 500, 'decided:below t0': 200, 'decided:above t0': 2000,
                         'convert_calls': 10, 'result:boundary_points': 2000,
                         'result:points exactly at the observed t0': 200,
                         'result:decided:below t0': 1000, 'result:decided:above t0': 2000,
                         'form_probes': 6 * len(FORMS),
                         'forms: with a coordinate value exactly at the observed t0': 4 * len(FORMS),
                         'variances: elements judged against first-order propagation': 100,
                         'result:variances: elements judged against first-order propagation': 200,
                         'refused by scipp: an operand with variances would have to be broadcast': 2,
                         'all-unphysical workspaces: returned, every energy transfer NaN': 200,
                         'in place: operands rewritten between two calls': 50,
                         'aliasing: operands written / results written': 100,
                         'reserved names: coordinates put on the events': 100,
                         'reserved names: dense coordinates put on the data': 100,
                         'reserved names: other energy of the events taken from a first conversion': 10,
                         'heavy: elements converted in one call': 2 * HEAVY_EVENTS + 2 * HEAVY_DENSE[0] * HEAVY_DENSE[1]},
            }


def run(shard, ctx):
    import scippneutron as scn
    from scippneutron.conversion import tof as K

    rng = np.random.Generator(np.random.PCG64([shard['seed'], shard['index'], 5]))
    mon = Monitors(ctx)
    tr = Tracer()
    tr.watch(K._energy_transfer_t0, '_energy_transfer_t0', on_return=mon.t0)
    tr.watch(K.energy_transfer_direct_from_tof, 'direct', on_return=mon.kernel('direct'))
    tr.watch(K.energy_transfer_indirect_from_tof, 'indirect', on_return=mon.kernel('indirect'))
    tr.watch(scn.convert, 'convert', on_return=mon.convert_result)
    with tr:
        if shard.get('heavy'):
            for k, (kind, layout, f32) in enumerate(HEAVY):
                hrng = np.random.Generator(np.random.PCG64([shard['seed'], shard['index'], 5, 100 + k]))
                try:
                    heavy_case(hrng, ctx, scn, mon, kind, layout, f32)
                except Exception:  # noqa: BLE001  the harness itself (convert's exceptions are judged in _convert)
                    ctx.oracle_error('heavy_case')
        for i in range(shard['cases']):
            kind = 'direct' if i % 2 == 0 else 'indirect'
            layout = LAYOUTS[rng.integers(0, len(LAYOUTS))]
            f32 = rng.random() < 0.3
            kw = None
            dimlen = None
            if i < 2 * len(SIZES):  # operand dimensions of length 1..4, every pair, both geometries, rotating layouts
                dimlen = SIZES[i // 2]
                layout = ('2d', 'binned', 'common_tof')[(i // 2 + shard['index']) % 3]
            for _attempt in range(20):
                lens = LEN_UNITS_WIDE if rng.random() < 0.5 else LEN_UNITS
                units = (EN_UNITS[rng.integers(0, 4)], TIME_UNITS[rng.integers(0, 4)],
                         lens[rng.integers(0, len(lens))], lens[rng.integers(0, len(lens))])
                if f32 and _attempt == 0 and rng.random() < 0.3:
                    # extreme but legitimate combination: SI energy and time, microscopic unit for the free leg
                    free = ['angstrom', 'nm'][rng.integers(0, 2)]
                    fixed = ['m', 'cm'][rng.integers(0, 2)]
                    units = ('J', 's', fixed, free) if kind == 'direct' else ('J', 's', free, fixed)
                kw, sig = gen(rng, ctx, kind, layout, f32, units, shape=dimlen)
                if kw is not None:
                    break
            if kw is None:
                continue
            if dimlen is not None:
                ctx.hit(size_class_name('kernel', dimlen))
            mon.meta = {'layout': layout, 'units': units, 'f32': f32}
            mon.last_t0 = None
            before = ctx.n_violations
            try:
                getattr(K, f'energy_transfer_{kind}_from_tof')(**kw)
            except Exception:  # noqa: BLE001 judged via PY_UNWIND
                pass
            else:
                try:
                    boundary_call(rng, ctx, K, mon, kind, kw)
                except Exception as e:  # noqa: BLE001
                    ctx.violation('raised', f'boundary call raised {type(e).__name__}: {e}',
                                  {'kind': kind, **mon.meta}, kernel=kind)
            ctx.case(sig, trivial=(layout == 'scalar' and units == ('J', 's', 'm', 'm') and not f32))
            if i < 2 or (ctx.n_violations > before and len(ctx.samples) < 6):
                ctx.sample({'signature': sig, 'args': {k: describe(v) for k, v in kw.items()}})
        mon.meta = {'family': 'convert'}
        for i in range(shard['insitu']):
            try:
                ctx.case(insitu(rng, ctx, scn, 'direct' if i % 2 == 0 else 'indirect', mon, i))
                ctx.count('convert_calls')
            except Exception as e:  # noqa: BLE001
                ctx.violation('convert_raised', f'convert raised {type(e).__name__}: {e}', {'family': 'convert'})
        for j in range(shard.get('result_probes', 0)):
            try:
                sig = result_probe(rng, ctx, scn, mon, 'direct' if j % 2 == 0 else 'indirect', j,
                                   dimlen=SIZES[(j + shard['index']) % len(SIZES)] if j < len(SIZES) else None)
                if sig is not None:
                    ctx.case(sig)
                    ctx.count('convert_result_probes')
            except Exception:  # noqa: BLE001  the harness itself (convert's exceptions are judged in _convert)
                ctx.oracle_error('result_probe')
            finally:
                mon.boundary = None
        # workspaces without a single physical arrival: every coordinate layout x both geometries in every shard
        # (shard 0 included: the runner repeats it as a strict caller, under -OO and with a coarse decimal context);
        # order / precision (ascending, descending, single) rotate with the shard
        for rnd in range(shard.get('form_rounds', 0)):
            urng = np.random.Generator(np.random.PCG64([shard['seed'], shard['index'], 5, 9, rnd]))
            for k in range(len(RESULT_CLASSES)):
                for g, kind in enumerate(('direct', 'indirect')):
                    j = 2 * k + g + 2 * len(RESULT_CLASSES) * ((shard['index'] + rnd) % 3)
                    try:
                        sig = result_probe(urng, ctx, scn, mon, kind, j, unphysical=True)
                        if sig is not None:
                            ctx.case(sig)
                    except Exception:  # noqa: BLE001  the harness itself
                        ctx.oracle_error('all-unphysical probe')
                    finally:
                        mon.boundary = None
        # every form of the entry points, both geometries, once per round; layout class, precision and order
        # rotate with the shard so that the 13 shards of a run cross each form with all layouts
        for rnd in range(shard.get('form_rounds', 0)):
            frng = np.random.Generator(np.random.PCG64([shard['seed'], shard['index'], 5, 7, rnd]))
            for f, form in enumerate(FORMS):
                for g in range(1):  # one geometry per form and shard; it alternates with the shard index
                    j = 3 * f + 7 * shard['index'] + 11 * rnd + g
                    kind = 'direct' if (f + shard['index'] + rnd + g) % 2 == 0 else 'indirect'
                    try:
                        sig = result_probe(frng, ctx, scn, mon, kind, j, form=form, K=K)
                        if sig is not None:
                            ctx.case(sig)
                            ctx.count('form_probes')
                    except Exception:  # noqa: BLE001  the harness itself (exceptions of the package: call_form)
                        ctx.oracle_error('form_probe: ' + form['name'])
                    finally:
                        mon.boundary = None
                        mon.expect_refusal = None
            if rnd == 0 and shard['index'] < len(FRESH_ENTRIES):
                try:
                    fresh_interpreter_case(frng, ctx, scn, K, mon, shard['index'])
                except Exception:  # noqa: BLE001
                    ctx.oracle_error('fresh interpreter')
            for kind in ('direct', 'indirect'):
                try:
                    aliasing_kernel_cases(frng, ctx, K, mon, kind)
                except Exception:  # noqa: BLE001
                    ctx.oracle_error('aliasing kernel cases')
                try:
                    variance_kernel_cases(frng, ctx, K, mon, kind)
                    kw, _ = gen(frng, ctx, kind, '2d', False, ('meV', 'us', 'm', 'm'))
                    en = 'incident_energy' if kind == 'direct' else 'final_energy'
                    da = sc.DataArray(sc.ones(dims=kw['tof'].dims, shape=kw['tof'].shape, unit='counts'),
                                      coords={'tof': kw['tof'], 'L1': kw['L1'], 'L2': kw['L2'], en: kw[en]})
                    mon.convert_kind = None
                    mon.meta = {'family': 'scatter false'}
                    false_flag_calls(ctx, scn, da, kind)
                    mon.meta = {'family': 'look-alike names'}
                    lookalike_name_calls(ctx, scn, da, kind)
                    # a carrier of variances that scipp would have to broadcast: refused by scipp itself
                    mon.convert_kind = kind
                    mon.meta = {'family': 'variances', 'carrier': 'fixed energy, broadcast'}
                    da.coords[en] = _rel_variances(da.coords[en].to(dtype='float64'))
                    try:
                        scn.convert(da, 'tof', 'energy_transfer', scatter=True)
                        ctx.count('variances on a broadcast operand: accepted (values judged)')
                    except sc.VariancesError:
                        ctx.count('variances on a broadcast operand: refused by scipp (VariancesError)')
                    except Exception as e:  # noqa: BLE001
                        ctx.violation('convert_raised', f'convert raised {type(e).__name__}: {e}', dict(mon.meta),
                                      family='variances')
                except Exception:  # noqa: BLE001
                    ctx.oracle_error('variance / false-flag cases')


TECHNIQUE = ('runtime monitors (sys.monitoring) on both inelastic kernels, the t0 helper and the object convert() '
             'returns; forward flight-time simulation of neutrons as reference; NaN-boundary probe built from the '
             'observed t0')
LEVEL_TEXT = ('exploration: neutrons are simulated forward (Ei, Ef, L1, L2 -> arrival time) and every observed '
              'kernel return (direct, indirect, through convert) must give Ei-Ef in the supplied energy unit within '
              'the conditioning bound 64 eps max(E) t/(t-t0); NaN/finite is decided on both sides of t0 (8-ulp '
              'undecided band) and exactly at, 1 and 2 ulp around the t0 the code itself computed; no infinity '
              'anywhere. The same judgement is applied to the energy_transfer coordinates (dense bin edges / points '
              'and event coordinate) of every object convert() returned and of every object transform_coords returned '
              'for a graph of the package or a kernel used as a node, in every calling form listed in the rule; result '
              'variances are compared with (2 E_free/(t-t0))^2 var(t) when the arrival time is the only carrier '
              '(double precision). A workspace in which no arrival is physical must come back all NaN without an '
              'exception (also with warnings as errors: strict-caller variant); operands and returned energy transfer '
              'share no memory and the call leaves its operands as they were; a call after the caller rewrote its '
              'objects in place answers for the new contents; the first call in a fresh interpreter equals the call in '
              'the worker bit by bit. Sampled inputs, not a proof.')
LEVEL_NOTE = 'trusted: numpy long double, independent SI table, scipp containers, m_n from scipp.constants'
DESIGN_REF = 'DESIGN.md section 4, C05'
