"""C06 Event-mode conversion equals dense conversion and preserves the data."""

from __future__ import annotations

import numpy as np
import scipp as sc

from rv.snap import describe, fp
from rv.trace import Tracer

ID = 'C06'
LEVEL = 'exploration'
RULE = (
    'cases = one convert() call on a generated binned data array: layouts {all bins empty, some empty, one '
    'huge bin, 1-d pixel grid, 2-d pixel x tof-bin grid, bins with gaps in the event buffer, and the non-compact '
    'views scipp allows: transposed view of a 2-d grid, pixel / tof-bin slices not starting at bin 0, one pixel '
    'sliced out (0-d / 1-d), bins stored in another order than the logical one}, 0..5000 events, '
    'event coordinate float32/float64/int64, targets wavelength/energy/dspacing/Q/energy_transfer '
    '(direct+indirect)/Q-vector/hkl from tof and energy/dspacing/Q from wavelength, geometry as reduced coordinates, '
    'as positions or as beams, positions/beams in every axis-aligned frame (incident beam along +-x, +-y, +-z; sample '
    'at the origin or elsewhere), with/without a dense bin-edge coordinate of the origin; the first 36 cases of every '
    'shard sweep frame x placement x geometry-dependent target and non-compact layout x {direct, indirect, elastic}; '
    'the monitor on convert builds the dense twin (event buffer flat, per-pixel geometry gathered per event), re-runs '
    'the dense conversion, and evaluates the definitions in long double per event; '
    'every shard also runs call SEQUENCES and input classes that one call on fresh data never shows: the converted '
    'object converted again (same target, another target, a by-product as target, the first target as origin), the same '
    'input twice, display / copy / comparison between two calls, a conversion after a refused request; DataArray and '
    'Dataset (two binned items, with / without a dense item); event coordinates next to the origin whose NAME means '
    'something to the graphs (every reserved name once as a bystander the conversion does not read, per the derivation '
    'model rv.oracle.convgraph; event coordinates shadowing a dense one with equal values); an event coordinate with '
    'variances (first-order propagation of the power laws); masks along the renamed dimension and on the 2-d grid; pixel '
    'and event-buffer dimensions named like internal dims / coordinates; every calling convention and str-like / '
    'bool-like argument type; the same conversion through transform_coords with deduce_conversion_graph / '
    "conversion_graph / the kernels as nodes of a user's graph; one shard with > 2^20 events per conversion; "
    'round 7: ALIASING programs on geometry by positions with the sample exactly at the origin (+0.0 / -0.0), the source '
    'exactly at the origin, the sample elsewhere (x 16 targets incl. every geometry target, without scattering, hkl), on '
    'beams and on reduced geometry: convert, write in place into every coordinate the conversion COMPUTED (dense and '
    'event level; existing ones are documented shallow copies), the input must stay as it was and converting it again '
    'must give the first result; then change the argument in place (event-coordinate values / its unit / one pixel of '
    'a geometry coordinate / weights and a mask): computed coordinates of the earlier result must stay, and the very '
    'same object is converted again and judged for its new contents; names outside NFC / NFKC for unrelated '
    'coordinates, masks and the pixel dimension; pixel / bin dimensions of length 2, 3, 4 with exactly 2, 3, 4 events '
    'per bin; one first convert() per shard in a fresh interpreter that imports only the entry module; '
    'round 8: WHERE THE ORIGIN LIVES - only on the events, only as a dense coordinate of the bins (bin edges or one value '
    'per bin: what da.bins.drop_coords(origin) leaves), or both - x every elastic origin/target pair, both inelastic modes '
    'and a conversion without scattering, on 2-d grids and their views; dense-only also as an item of a Dataset next to an '
    'ordinary event item (either order); for dense-only the events must come through untouched and the dense coordinate '
    'must equal what dense data gets (bit for bit) and the long-double definition; '
    'distinct = (origin, target, layout, event dtype, geometry kind, edges, container) signatures'
)
ASSUMPTIONS = [
    'the dense kernels themselves are decided by C01/C03/C05; here they are the bit-for-bit reference, and the '
    'long-double definitions (C01 closed forms, Euclidean geometry, C05 energy balance, Q = k_i - k_f) a second, '
    'independent one at 1e-11 / 1e-5 (float32)',
    'elementwise IEEE operations: binned and dense paths must agree bit for bit',
]
LAYOUTS = ['all_empty', 'some_empty', 'one_huge', '1d', '2d', 'gaps',
           # every other way scipp lets bins sit in the event buffer: views of a larger / differently ordered parent
           'transposed', 'slice_pixels', 'slice_tof', 'one_pixel', 'permuted']
# layouts whose begin/end indices are not the compact ones (bins in logical order, starting at 0, no unused events)
NONCOMPACT = ['gaps', 'transposed', 'slice_pixels', 'slice_tof', 'one_pixel', 'permuted']
HKL_TARGETS = ['Qx', 'Qz', 'Q_vec', 'hkl_vec', 'h', 'k', 'l']
TARGETS = [('tof', 'hkl:'), ('wavelength', 'hkl:'), ('tof', 'wavelength'), ('tof', 'energy'), ('tof', 'dspacing'), ('tof', 'Q'),
           ('tof', 'energy_transfer:direct'), ('tof', 'energy_transfer:indirect'),
           ('wavelength', 'energy'), ('wavelength', 'dspacing'), ('wavelength', 'Q'),
           # conversions without scattering (monitors, beam characterisation) and geometry targets, whose result
           # is a per-pixel coordinate next to untouched events
           ('tof', 'wavelength:noscatter'), ('tof', 'energy:noscatter'),
           ('tof', 'geom:')]
GEOM_TARGETS = ['two_theta', 'L1', 'L2', 'Ltotal', 'incident_beam', 'scattered_beam', 'Ltotal:noscatter']


def _bits(a):
    a = np.ascontiguousarray(a)
    return a.view(np.uint8)


def same_bits(a, b):
    a, b = np.asarray(a), np.asarray(b)
    return a.shape == b.shape and a.dtype == b.dtype and np.array_equal(_bits(a), _bits(b))


def event_index(binned: sc.Variable) -> np.ndarray:
    c = binned.bins.constituents
    b = np.asarray(c['begin'].values).ravel()
    e = np.asarray(c['end'].values).ravel()
    if b.size == 0:
        return np.zeros(0, dtype=np.int64)
    return np.concatenate([np.arange(x, y) for x, y in zip(b, e, strict=True)] + [np.zeros(0, dtype=np.int64)]).astype(np.int64)


def gather(coord: sc.Variable, data: sc.Variable) -> sc.Variable:
    """Dense per-bin coordinate -> one entry per event (flat 'event' dim)."""
    sizes = (np.asarray(data.bins.constituents['end'].values) - np.asarray(data.bins.constituents['begin'].values)).ravel()
    if coord.ndim == 0:
        return coord
    bc = sc.broadcast(coord, dims=data.dims, shape=data.shape) if coord.dims != data.dims else coord
    vals = np.asarray(bc.values)
    flat = vals.reshape((-1,) + vals.shape[data.ndim:])
    rep = np.repeat(flat, sizes, axis=0)
    if coord.dtype == sc.DType.vector3:
        return sc.vectors(dims=['event'], values=rep, unit=coord.unit)
    return sc.array(dims=['event'], values=rep, unit=coord.unit, dtype=coord.dtype)


def is_edges(coord, data):
    return any(coord.sizes[d] == data.sizes[d] + 1 for d in coord.dims if d in data.dims)


def flat_events(v: sc.Variable, idx, dim) -> sc.Variable:
    """The selected entries of an event-buffer coordinate as a dense 1-d variable (values, variances, vectors)."""
    vals = np.asarray(v.values)[idx]
    if v.dtype == sc.DType.vector3:
        return sc.vectors(dims=[dim], values=vals.reshape(-1, 3), unit=v.unit)
    var = np.asarray(v.variances)[idx] if v.variances is not None else None
    return sc.array(dims=[dim], values=vals, variances=var, unit=v.unit, dtype=v.dtype)


def plain(s):
    """np.str_, str subclasses and (str, Enum) members -> the str they are."""
    return str.__str__(s) if isinstance(s, str) else s


def binned_items(d):
    """[(item name or None, binned data array)] of a data array / dataset."""
    if isinstance(d, sc.DataArray):
        return [(None, d)] if d.bins is not None else []
    if isinstance(d, sc.Dataset):
        return [(str(k), d[k]) for k in d.keys() if d[k].bins is not None]
    return []


# ---- which coordinates does a conversion read?  Decided by the derivation model written from the user guide
# (rv.oracle.convgraph: "if a coordinate is present use it, otherwise derive it from its inputs"), not by the package:
# the energy mode follows from the dense (beamline) coordinates, the leaves of the derivation are what is read, the
# nodes on the way are what is produced.  Every other coordinate -- whatever its name -- is unrelated to the
# conversion: it has to come through unchanged, and (event level) the dense formula is evaluated without it.
UNRELATED_BY_NAME = frozenset({'unrelated_ev', 'unrelated_px'})


def roles(d, origin, target, scatter):
    """(names of unrelated event coordinates, names of unrelated dense coordinates) of one binned data array."""
    from rv.oracle import convgraph as G
    ev_names = {str(k) for k in d.bins.constituents['data'].coords.keys()}
    dense_names = {str(k) for k, v in d.coords.items() if v.bins is None}
    try:
        mode = G.energy_mode(dense_names, origin, target)
        table = G.rules(origin, target, scatter, mode)
        present = dense_names | ev_names
        leaves = set(G.used_inputs(target, present, table))
        planned = set(G.plan(target, present, table))
    except (G.Refuse, KeyError):
        # outside the model: only the coordinates the generator itself calls unrelated
        return (frozenset(n for n in ev_names if n.startswith('unrelated')),
                frozenset(n for n in dense_names if n.startswith('unrelated')))
    touched = leaves | {origin, target} | {n for n in ev_names | dense_names if G.node_of(n) in planned}
    return frozenset(ev_names - touched), frozenset(dense_names - touched)


# ------------------------------------------------- independent definitions ---
# Both dense twins run the package's own kernels: a defect that does not depend on binning (a wrong angle for one
# orientation of the frame, a wrong constant) is shared by the twins.  The property speaks of "the value the dense
# formula gives", so next to the twins every event is also compared with the definitions themselves, evaluated in
# long double from the event coordinate and the pixel's geometry (rv.oracle.geom for beams, lengths and the angle
# from positions; the closed forms of C01; C05's energy balance).  Tolerances as in C01: 1e-11 / 1e-5 (float32).
TOL64, TOL32 = 1e-11, 1e-5
SMALL_ANGLE = 1e-3      # rad; below, the float64 angle of the package is only good to ~eps/angle relative: not judged
ELASTIC_DEF = {('tof', 'wavelength'), ('tof', 'energy'), ('tof', 'dspacing'), ('tof', 'Q'),
               ('wavelength', 'energy'), ('wavelength', 'dspacing'), ('wavelength', 'Q')}
# exponent of the event coordinate in each elastic closed form (y = c x^p at fixed pixel geometry)
POWER = {('tof', 'wavelength'): 1, ('tof', 'energy'): -2, ('tof', 'dspacing'): 1, ('tof', 'Q'): -1,
         ('wavelength', 'energy'): -2, ('wavelength', 'dspacing'): 1, ('wavelength', 'Q'): -1}
QVEC_DEF = ('Qx', 'Qy', 'Qz', 'Q_vec')       # documented: Q = k_i - k_f = 2 pi / lambda (e_i - e_f), lab frame
GEOM_DEF = ('two_theta', 'L1', 'L2', 'Ltotal', 'incident_beam', 'scattered_beam')


class GeometryModel:
    """L1, L2, Ltotal, two_theta, beams by their Euclidean definitions from whatever the data array carries.

    ``fetch(name)`` returns the coordinate in SI as a long double array (per event or per pixel); a quantity that is
    present as a coordinate is taken as given (that is the pixel's geometry), everything else is derived.
    """

    def __init__(self, d, scatter, fetch):
        self.d, self.scatter, self.fetch = d, scatter, fetch
        self.memo = {}
        self.derived_angle = False
        self.single = False

    def has(self, name):
        return name in self.d.coords and self.d.coords[name].bins is None

    def get(self, name):
        if name not in self.memo:
            self.memo[name] = self._get(name)
        return self.memo[name]

    def _get(self, name):
        from rv.oracle import geom
        if self.has(name):
            if self.d.coords[name].dtype == sc.DType.float32:
                self.single = True
            return self.fetch(name)
        if name == 'incident_beam':
            return self.get('sample_position') - self.get('source_position')
        if name == 'scattered_beam':
            return self.get('position') - self.get('sample_position')
        if name == 'L1':
            return geom.norm(self.get('incident_beam'))
        if name == 'L2':
            return geom.norm(self.get('scattered_beam'))
        if name == 'two_theta':
            self.derived_angle = True
            return geom.angle(self.get('incident_beam'), self.get('scattered_beam'))
        if name == 'Ltotal':
            if self.scatter:
                return self.get('L1') + self.get('L2')
            return geom.norm(self.get('position') - self.get('source_position'))
        raise KeyError(name)


def _si_values(v):
    from rv.oracle import si
    return np.asarray(v.values).astype(si.LD) * si.factor(v.unit)


def event_fetch(d):
    def fetch(name):
        return _si_values(gather(d.coords[name], d.data))
    return fetch


def pixel_fetch(d, dims, shape):
    def fetch(name):
        v = d.coords[name]
        if not set(v.dims) <= set(dims):
            raise KeyError(name)
        return _si_values(sc.broadcast(v, dims=list(dims), shape=list(shape)) if v.ndim else v)
    return fetch


def elastic_definition(origin, target, x, gm):
    """Expected event values in SI (long double) and the SI unit that carries their dimension."""
    from rv.props.c01 import expected_si
    if origin == 'tof':
        lam = expected_si('wavelength_from_tof', {'tof': x, 'Ltotal': gm.get('Ltotal')})[0]
    else:
        lam = x
    if target == 'wavelength':
        return lam, 'm'
    if target == 'energy':
        if origin == 'tof':
            return expected_si('energy_from_tof', {'tof': x, 'Ltotal': gm.get('Ltotal')})[0], 'J'
        return expected_si('energy_from_wavelength', {'wavelength': x})[0], 'J'
    if target == 'dspacing':
        if origin == 'tof':
            return expected_si('dspacing_from_tof', {'tof': x, 'Ltotal': gm.get('Ltotal'),
                                                     'two_theta': gm.get('two_theta')})[0], 'm'
        return expected_si('dspacing_from_wavelength', {'wavelength': x, 'two_theta': gm.get('two_theta')})[0], 'm'
    if target == 'Q':
        return expected_si('Q_from_wavelength', {'wavelength': lam, 'two_theta': gm.get('two_theta')})[0], '1/m'
    raise KeyError(target)


class Monitor:
    def __init__(self, ctx, scn):
        self.ctx = ctx
        self.scn = scn
        self.meta = {}
        self.expect_refusal = False      # set by the workload for a call the derivation model refuses

    # ---- observation through the tracer (scn.convert) ...
    def on_start(self, ev):
        return self.pre(ev.args.get('data'), ev.args.get('origin'), ev.args.get('target'), ev.args.get('scatter'))

    def on_return(self, ev):
        if ev.pre is None:
            return
        self.post(ev.pre, ev.args['data'], ev.result, ev.exc, 'convert')

    # ---- ... and for results obtained another way (transform_coords with the package's graphs / kernels)
    def observe(self, d, origin, target, scatter, fn, how):
        pre = self.pre(d, origin, target, scatter)
        out = exc = None
        try:
            out = fn()
        except Exception as e:  # noqa: BLE001  judged in post()
            exc = e
        if pre is not None:
            self.post(pre, d, out, exc, how)
        return out

    def pre(self, d, origin, target, scatter):
        try:
            origin, target = plain(origin), plain(target)
            items = binned_items(d)
            if not items:
                return None
            pre = {'input_fp': fp(d), 'origin': origin, 'target': target, 'scatter': bool(scatter), 'items': {}}
            for name, item in items:
                ev_keep, dense_keep = roles(item, origin, target, bool(scatter))
                pre['items'][name] = {'ev_keep': ev_keep, 'dense_keep': dense_keep,
                                      'names': (sorted(map(str, item.bins.constituents['data'].coords.keys())),
                                                sorted(map(str, item.coords.keys())), sorted(map(str, item.masks.keys()))),
                                      'parts': self.parts(item, ev_keep, dense_keep)}
            return pre
        except Exception:  # noqa: BLE001
            self.ctx.oracle_error('C06 monitor (before the call)')
            return None

    @staticmethod
    def parts(d, ev_keep, dense_keep):
        """Semantic content that must survive: per-bin event lists (in order) and bin-level items.

        Raw begin/end indices and the name of a renamed dimension are representation, not content:
        the result may store its events compacted and has the origin dimension renamed.
        ``ev_keep`` / ``dense_keep``: names of the event / dense coordinates the conversion does not read
        (see roles()).
        """
        tab = d.bins.constituents['data']
        idx = event_index(d.data)
        sizes = (np.asarray(d.bins.constituents['end'].values) - np.asarray(d.bins.constituents['begin'].values))

        def ev(v):
            vals = np.asarray(v.values)[idx]
            var = np.asarray(v.variances)[idx] if v.variances is not None else None
            return fp((str(v.unit), str(v.dtype), vals, var))

        def dn(v):
            return fp((str(v.unit), str(v.dtype), tuple(v.shape), np.asarray(v.values),
                       None if v.variances is None else np.asarray(v.variances)))

        return {
            'sizes': fp(sizes),
            'weights': ev(tab.data),
            'ev_masks': {str(k): ev(v) for k, v in tab.masks.items()},
            'ev_coords': {str(k): ev(v) for k, v in tab.coords.items() if str(k) in ev_keep},
            'masks': {str(k): dn(v) for k, v in d.masks.items()},
            'coords': {str(k): dn(v) for k, v in d.coords.items() if str(k) in dense_keep and v.bins is None},
        }

    def post(self, pre, d, out, exc, how):
        ctx = self.ctx
        origin, target, scatter = pre['origin'], pre['target'], pre['scatter']
        case = {**self.meta, 'origin': origin, 'target': target, 'how': how, 'input': describe(d)}
        # ---- the input object is not modified (whatever the outcome of the call)
        try:
            modified = fp(d) != pre['input_fp']
        except Exception:  # noqa: BLE001
            ctx.oracle_error('C06 monitor (input fingerprint)')
            return
        if modified:
            lost = []
            for name, item in binned_items(d):
                before = pre['items'].get(name)
                if before is not None:
                    now = self.parts(item, before['ev_keep'], before['dense_keep'])
                    lost += [f'{part}' for part, h in before['parts'].items() if now.get(part) != h]
                    names = (sorted(map(str, item.bins.constituents['data'].coords.keys())),
                             sorted(map(str, item.coords.keys())), sorted(map(str, item.masks.keys())))
                    for label, b_, n_ in zip(('event coordinates', 'coordinates', 'masks'), before['names'], names, strict=True):
                        if b_ != n_:
                            lost.append(f'{label} {b_} -> {n_}')
            ctx.violation('input_modified', f'{how} modified its binned input'
                          + (f' (changed: {", ".join(lost)})' if lost else ''), case)
        if self.expect_refusal:
            # a request the derivation model refuses (no rule for the target): whether and how the package refuses
            # is C02's business; here only the input had to stay as it was
            ctx.event('refused request')
            ctx.count('refusal: ' + (type(exc).__name__ if exc is not None else 'none'))
            return
        if exc is not None:
            ctx.violation('raised', f'{how} raised {type(exc).__name__}: {exc}', case)
            return
        ctx.event('convert(binned)')
        container = 'Dataset' if isinstance(d, sc.Dataset) else 'DataArray'
        if isinstance(d, sc.Dataset):
            ctx.event('dataset item')
            if not isinstance(out, sc.Dataset) or set(out.keys()) != set(d.keys()):
                ctx.violation('items_changed', 'the result of converting a dataset is not a dataset with the same items',
                              case)
                return
        for name, item in binned_items(d):
            before = pre['items'][name]
            self.judge(item, out[name] if isinstance(d, sc.Dataset) else out, before, origin, target, scatter,
                       dict(case, container=container, **({'item': name} if name is not None else {})))

    def judge(self, d, out, pre, origin, target, scatter, case):
        ctx = self.ctx
        try:
            out_tab = out.bins.constituents['data']
            in_tab0 = d.bins.constituents['data']
            # where the origin lives: on the events, as a dense (bin-edge / per-bin) coordinate, or both.  The events get
            # the target iff the conversion reads something at event level (roles(): everything not in ev_keep)
            ev_origin = origin in in_tab0.coords
            ev_read = ev_origin or any(str(k) not in pre['ev_keep'] for k in in_tab0.coords.keys())
            geom_target = target in ('two_theta', 'L1', 'L2', 'Ltotal', 'incident_beam', 'scattered_beam')
            if geom_target:
                # a geometry target is a per-pixel coordinate: it must equal what the same conversion gives for
                # dense data with the same pixels, and the events must come through untouched
                if target not in out.coords:
                    ctx.violation('no_geometry_target', f'no coordinate {target!r} in the result', case)
                    return
                pcoords = {k: v for k, v in d.coords.items() if v.bins is None and not is_edges(v, d.data)}
                ptwin = sc.DataArray(sc.ones(dims=list(d.dims), shape=list(d.shape)), coords=pcoords)
                pw = self.scn.convert(ptwin, origin, target, scatter=scatter).coords[target]
                pg = out.coords[target]
                ctx.event('geometry_twin')
                if (pg.unit != pw.unit or pg.dtype != pw.dtype or pg.sizes != pw.sizes
                        or not same_bits(np.asarray(pg.values), np.asarray(pw.values))):
                    ctx.violation('geometry_value', f'coordinate {target} of binned data differs from the one dense '
                                  'data with the same pixels gets', case, part='geometry')
                self.geometry_definition(d, pg, target, scatter, case)
                if ev_origin and (origin not in out_tab.coords or fp(np.asarray(out_tab.coords[origin].values)[event_index(out.data)]) != \
                        fp(np.asarray(d.bins.constituents['data'].coords[origin].values)[event_index(d.data)])):
                    ctx.violation('coord_changed', f'event coordinate {origin!r} lost or changed by a geometry '
                                  'conversion', case, part='ev_origin')
            elif ev_read and target not in out_tab.coords:
                ctx.violation('no_event_target', f'no event coordinate {target!r} in the result', case)
                return
            # ---- preservation
            # (a dimension named like a coordinate -- given or computed on the way -- is a dimension-coordinate:
            # transform_coords documents that it renames such a dimension when that coordinate is consumed; every other
            # dimension stays)
            gone = [x for x in d.dims if x != origin and x not in out.dims and x not in RESERVED
                    and not any(x in m for m in (d.coords, out.coords, d.bins.constituents['data'].coords, out_tab.coords))]
            if gone:
                # (names are compared code point by code point: a name that merely normalises to another is another name)
                ctx.violation('dims_changed', f'dimension(s) {gone!r} of the input are not dimensions of the result '
                              f'{out.dims!r}', case, part='dims')
            ev_keep, dense_keep = pre['ev_keep'], pre['dense_keep']
            before, after = pre['parts'], self.parts(out, ev_keep, dense_keep)
            if ev_keep - UNRELATED_BY_NAME:
                ctx.event('bystander event coordinate judged')
            if after['sizes'] != before['sizes']:
                ctx.violation('membership_changed', 'number of events per bin changed', case, part='sizes')
            if after['weights'] != before['weights']:
                ctx.violation('weights_changed', 'event weights/variances or event order changed', case,
                              part='weights')
            for part, label in (('masks', 'bin mask'), ('ev_masks', 'event mask'),
                                ('coords', 'unrelated coordinate'), ('ev_coords', 'unrelated event coordinate')):
                for k, h in before[part].items():
                    if after[part].get(k) != h:
                        ctx.violation('mask_changed' if 'mask' in part else 'coord_changed',
                                      f'{label} {k!r} lost or changed', case, part=part)
            if geom_target:
                return
            if not ev_read:
                # the origin exists only as a dense coordinate (e.g. after da.bins.drop_coords(origin)): the events were
                # judged above (all of it unchanged); the dense coordinate is converted exactly as for dense data
                ctx.event('origin only as a dense coordinate: events untouched')
                if origin not in d.coords or d.coords[origin].bins is not None:
                    ctx.count('origin neither on the events nor dense (not judged)')
                    return
                self.dense_origin(d, out, origin, target, scatter, case, where='dense only')
                return
            # ---- differential: dense twin
            idx = event_index(d.data)
            in_tab = d.bins.constituents['data']
            coords = {}
            for k, v in d.coords.items():
                if v.bins is not None or is_edges(v, d.data) or k == origin:
                    continue
                coords[k] = gather(v, d.data)
            for k, v in in_tab.coords.items():
                if str(k) in ev_keep:
                    continue      # not read by this conversion: the twin does without it
                if str(k) in coords:
                    ctx.event('event coordinate shadowing a dense one')
                coords[k] = flat_events(v, idx, 'event')
            twin = sc.DataArray(sc.ones(dims=['event'], shape=[len(idx)]), coords=coords)
            dense = self.scn.convert(twin, origin, target, scatter=scatter)
            want = dense.coords[target]
            got = out_tab.coords[target]
            oidx = event_index(out.data)
            gv = np.asarray(got.values)[oidx]
            ok = got.unit == want.unit and got.dtype == want.dtype and same_bits(gv, np.asarray(want.values))
            if (got.variances is None) != (want.variances is None):
                ok = False
            elif got.variances is not None:
                ctx.event('twin variances')
                ok = ok and same_bits(np.asarray(got.variances)[oidx], np.asarray(want.variances))
            ctx.count('events_compared', len(idx))
            ctx.event('twin')
            if not ok:
                wv = np.asarray(want.values)
                det = {'unit': (str(got.unit), str(want.unit)), 'dtype': (str(got.dtype), str(want.dtype))}
                if gv.shape == wv.shape and gv.size:
                    with np.errstate(all='ignore'):
                        diff = np.abs(gv.astype(np.float64) - wv.astype(np.float64)) / np.abs(wv.astype(np.float64))
                    bad = np.flatnonzero(~((gv == wv) | (np.isnan(gv) & np.isnan(wv))))
                    det.update(n_differ=int(bad.size), max_rel=float(np.nanmax(diff)) if diff.size else 0.0,
                               first=[repr(gv[bad[0]]), repr(wv[bad[0]])] if bad.size else None)
                ctx.violation('event_value', f'event {target} differs from the dense formula for the same event '
                              'and pixel', dict(case, **det), part='event_coord')
            # ---- independent definitions (the twins evaluate the package's kernels and share whatever does not
            # depend on binning)
            if (origin, target) in ELASTIC_DEF:
                self.event_definition(d, in_tab, idx, got, gv, origin, target, scatter, case,
                                      gvar=None if got.variances is None else np.asarray(got.variances)[oidx])
            elif target in QVEC_DEF:
                self.qvec_definition(d, in_tab, idx, got, gv, origin, target, scatter, case)
            # ---- inelastic targets: NaN exactly for the unphysical events, decided by an independent t0
            # (both twins evaluate the same kernel and share any branch that depends only on how dims nest),
            # and the energy balance of C05 for the others
            if target == 'energy_transfer':
                self.inelastic_definition(d, in_tab, idx, got, gv, origin, scatter, case)
            # ---- second reference: the usual dense layout, one pixel at a time (event coordinate along its
            # own dimension, that pixel's geometry as scalars) -- a branch taken only when operand dims nest
            # behaves identically in the flat twin above, but not here
            if 1 <= d.data.ndim <= 2 and d.data.size <= 48:
                c = d.bins.constituents
                b_ = np.asarray(c['begin'].values).ravel()
                e_ = np.asarray(c['end'].values).ravel()
                oc = out.bins.constituents
                ob_ = np.asarray(oc['begin'].values).ravel()
                got_all = np.asarray(oc['data'].coords[target].values)
                shape = d.data.shape
                for flat_i in range(len(b_)):
                    if e_[flat_i] - b_[flat_i] == 0:
                        continue
                    idx_nd = np.unravel_index(flat_i, shape)
                    pc = {}
                    for k, v in d.coords.items():
                        if v.bins is not None or is_edges(v, d.data) or k == origin:
                            continue
                        vv = v
                        for dim, ii in zip(d.data.dims, idx_nd, strict=True):
                            if dim in vv.dims:
                                vv = vv[dim, int(ii)]
                        pc[k] = vv.copy()
                    for k, v in in_tab.coords.items():
                        if str(k) in ev_keep:
                            continue
                        pc[k] = flat_events(v, np.arange(b_[flat_i], e_[flat_i]), 'ev_of_pixel')
                    ptwin = sc.DataArray(sc.ones(dims=['ev_of_pixel'], shape=[int(e_[flat_i] - b_[flat_i])]), coords=pc)
                    pw = self.scn.convert(ptwin, origin, target, scatter=scatter).coords[target]
                    g_ = got_all[ob_[flat_i]:ob_[flat_i] + (e_[flat_i] - b_[flat_i])]
                    ctx.event('pixel_twin')
                    if pw.unit != got.unit or not same_bits(g_, np.asarray(pw.values)):
                        ctx.violation('event_value', f'event {target} of bin {flat_i} differs from the dense formula '
                                      "applied to that pixel's events with that pixel's geometry",
                                      dict(case, bin=int(flat_i), got=[repr(x) for x in g_[:3]],
                                           expected=[repr(x) for x in np.asarray(pw.values)[:3]]), part='pixel_twin')
                        break
            # ---- bin-edge (or per-bin) coordinate converted with the same function
            if origin in d.coords and d.coords[origin].bins is None:
                self.dense_origin(d, out, origin, target, scatter, case, where='next to the event coordinate')
        except Exception:  # noqa: BLE001
            ctx.oracle_error('C06 monitor')


    def dense_origin(self, d, out, origin, target, scatter, case, where):
        """The dense origin coordinate of binned data (bin edges or one value per bin) gets the value the dense formula
        gives: bit for bit what dense data with the same coordinates gets, and the long-double definition."""
        ctx = self.ctx
        edge = d.coords[origin]
        kind = 'edges' if is_edges(edge, d.data) else 'per-bin values'
        if target not in out.coords or out.coords[target].bins is not None:
            ctx.violation('edges_lost', f'dense coordinate {origin!r} ({kind}) not converted to {target!r}', case,
                          part='edges', where=where)
            return
        ecoords = {k: v for k, v in d.coords.items() if v.bins is None}
        shape = {dd: (edge.sizes[dd] if dd in edge.dims else d.sizes[dd]) for dd in d.dims}
        etwin = sc.DataArray(sc.ones(dims=list(shape), shape=list(shape.values())), coords=ecoords)
        edense = self.scn.convert(etwin, origin, target, scatter=scatter)
        w = edense.coords[target]
        g = out.coords[target]
        w = w.transpose(g.dims) if set(w.dims) == set(g.dims) and w.dims != g.dims else w
        ctx.event('edges')
        ctx.event(f'dense origin coordinate ({where})')
        if g.unit != w.unit or g.dtype != w.dtype or not same_bits(np.asarray(g.values), np.asarray(w.values)):
            ctx.violation('edge_value', f'dense coordinate {target} ({kind}) differs from the dense formula',
                          case, part='edges', where=where)
        if (origin, target) in ELASTIC_DEF:
            self.dense_definition(d, edge, g, origin, target, scatter, case, where)

    def dense_definition(self, d, edge, g, origin, target, scatter, case, where):
        ctx = self.ctx
        from rv.oracle import si
        try:
            back = {target: origin} if target in g.dims and origin not in g.dims else {}
            dims = [back.get(x, x) for x in g.dims]
            shape = list(g.shape)
            if not set(edge.dims) <= set(dims) or any(edge.sizes[x] != shape[dims.index(x)] for x in edge.dims):
                ctx.count('dense definition: result has other dims than the origin coordinate (not judged)')
                return
            gm = GeometryModel(d, scatter, pixel_fetch(d, dims, shape))
            x = _si_values(sc.broadcast(edge, dims=dims, shape=shape) if edge.ndim else edge)
            exp, si_unit = elastic_definition(origin, target, x, gm)
            if si.dim(g.unit) != si.dim(sc.Unit(si_unit)):
                ctx.violation('edge_definition', f'dense coordinate {target} has unit {g.unit}', case,
                              part='definition-unit', where=where)
                return
            exp = np.broadcast_to(exp / si.factor(g.unit), x.shape)
            tol, prec = self.tol_for(g.dtype, gm)
            if edge.dtype == sc.DType.float32:
                tol, prec = TOL32, 'float32'
            judged = np.ones(x.shape, dtype=bool)
            if gm.derived_angle:
                judged &= np.broadcast_to(gm.get('two_theta'), x.shape) >= SMALL_ANGLE
            gv = np.asarray(g.values)
            err = np.asarray(si.relerr(gv[judged], exp[judged]), dtype=np.float64)
            err = np.where(np.isfinite(np.asarray(gv[judged], dtype=np.float64)), err, np.inf)
        except Exception:  # noqa: BLE001
            ctx.oracle_error('C06 dense-coordinate definition')
            return
        ctx.event('dense origin coordinate: definition')
        if not err.size:
            return
        worst = float(np.max(err))
        ctx.dev(f'dense coordinate definition relerr {prec}: {target} from {origin}', worst)
        if not worst <= tol:
            i = int(np.argmax(err))
            ctx.violation('edge_definition', f'dense coordinate {target} differs from the definition evaluated for the '
                          f"coordinate value and the pixel's geometry: relative error {worst:.3g} > {tol:g}",
                          dict(case, got=repr(gv[judged][i]), expected=repr(float(exp[judged][i]))),
                          part='definition', where=where, precision=prec)

    # ---------------------------------------------------------------- definitions
    def tol_for(self, dtype, gm):
        single = dtype == sc.DType.float32 or gm.single
        return (TOL32 if single else TOL64), ('float32' if single else 'float64')

    def event_definition(self, d, in_tab, idx, got, gv, origin, target, scatter, case, gvar=None):
        ctx = self.ctx
        from rv.oracle import si
        try:
            gm = GeometryModel(d, scatter, event_fetch(d))
            xc = in_tab.coords[origin]
            x = np.asarray(xc.values)[idx].astype(si.LD) * si.factor(xc.unit)
            exp, si_unit = elastic_definition(origin, target, x, gm)
            if si.dim(got.unit) != si.dim(sc.Unit(si_unit)):
                ctx.violation('event_definition', f'event {target} has unit {got.unit}', case, part='definition-unit')
                return
            exp = np.broadcast_to(exp / si.factor(got.unit), x.shape)
            tol, prec = self.tol_for(got.dtype, gm)
            judged = np.ones(x.shape, dtype=bool)
            if gm.derived_angle:
                judged &= np.broadcast_to(gm.get('two_theta'), x.shape) >= SMALL_ANGLE
                ctx.count('definition: events at angles below 1e-3 rad (not judged)', int(judged.size - judged.sum()))
        except Exception:  # noqa: BLE001
            ctx.oracle_error('C06 event definition')
            return
        ctx.event('definition')
        ctx.count('definition events judged', int(judged.sum()))
        if not judged.any():
            return
        g_, e_ = gv[judged], exp[judged]
        err = np.asarray(si.relerr(g_, e_), dtype=np.float64)
        err = np.where(np.isfinite(np.asarray(g_, dtype=np.float64)), err, np.inf)
        worst = float(np.max(err))
        ctx.dev(f'definition relerr {prec}: {target} from {origin}', worst)
        if not worst <= tol:
            i = int(np.argmax(err))
            ctx.violation('event_definition', f'event {target} differs from the definition evaluated for that event and '
                          f"its pixel's geometry: relative error {worst:.3g} > {tol:g}",
                          dict(case, got=repr(g_[i]), expected=repr(float(e_[i])), n_differ=int(np.sum(err > tol))),
                          part='definition', precision=prec)
        # ---- an event coordinate with variances: every elastic target is a power law c x^p of the event coordinate x
        # (the geometry carries no variances), so first-order propagation is unambiguous:
        # var(y) = (p y / x)^2 var(x)
        if xc.variances is None:
            return
        try:
            pw = POWER[(origin, target)]
            vin = np.asarray(xc.variances)[idx].astype(si.LD)
            xn = np.asarray(xc.values)[idx].astype(si.LD)
            vexp = ((pw * exp / xn) ** 2 * vin)[judged]
        except Exception:  # noqa: BLE001
            ctx.oracle_error('C06 event definition (variances)')
            return
        ctx.event('definition variances')
        if gvar is None:
            ctx.violation('event_variance', f'event {target} lost the variances of the event coordinate', case,
                          part='definition-variance', precision=prec)
            return
        verr = np.asarray(si.relerr(gvar[judged], vexp), dtype=np.float64)
        finite = np.isfinite(np.asarray(gvar[judged], dtype=np.float64))
        if prec == 'float32':
            # the intermediate products of scipp's float32 propagation (x^(2p-2) var) leave the float32 range for tof
            # in ns / lengths in mm although the result is representable: out of range is not judged, only counted
            ctx.count('undecided: float32 variance not finite (intermediate out of range)', int(np.sum(~finite)))
            verr, vexp, finite = verr[finite], vexp[finite], finite[finite]
            if not verr.size:
                return
        verr = np.where(finite, verr, np.inf)
        vworst = float(np.max(verr))
        ctx.dev(f'definition relerr of the variance {prec}: {target} from {origin}', vworst)
        if not vworst <= 4 * tol:
            i = int(np.argmax(verr))
            ctx.violation('event_variance', f'variance of event {target} differs from first-order propagation '
                          f'(p y / x)^2 var(x), p = {pw}: relative error {vworst:.3g} > {4 * tol:g}',
                          dict(case, got_relerr=repr(verr[i]), expected=repr(float(vexp[i]))),
                          part='definition-variance', precision=prec)

    def qvec_definition(self, d, in_tab, idx, got, gv, origin, target, scatter, case):
        ctx = self.ctx
        from rv.oracle import geom, si
        from rv.props.c01 import expected_si
        try:
            gm = GeometryModel(d, scatter, event_fetch(d))
            xc = in_tab.coords[origin]
            x = np.asarray(xc.values)[idx].astype(si.LD) * si.factor(xc.unit)
            lam = (expected_si('wavelength_from_tof', {'tof': x, 'Ltotal': gm.get('Ltotal')})[0]
                   if origin == 'tof' else x)
            bi, bf = gm.get('incident_beam'), gm.get('scattered_beam')
            q = (2 * si.PI / np.broadcast_to(lam, x.shape))[:, None] * (
                bi / geom.norm(bi)[..., None] - bf / geom.norm(bf)[..., None])
            if si.dim(got.unit) != si.dim(sc.Unit('1/m')):
                ctx.violation('event_definition', f'event {target} has unit {got.unit}', case, part='definition-unit')
                return
            gq = gv.astype(si.LD) * si.factor(got.unit)
            qn = geom.norm(q)
            if target == 'Q_vec':
                err = geom.norm(gq - q) / qn
            else:
                err = np.abs(gq - q[:, 'xyz'.index(target[1])]) / qn
            single = xc.dtype == sc.DType.float32 or gm.single
            tol, prec = (TOL32, 'float32') if single else (TOL64, 'float64')
            judged = np.broadcast_to(geom.angle(bi, bf), x.shape) >= SMALL_ANGLE
            ctx.count('definition: events at angles below 1e-3 rad (not judged)', int(judged.size - judged.sum()))
            err = np.asarray(err, dtype=np.float64)
            err = np.where(np.isfinite(err), err, np.inf)[judged]
        except Exception:  # noqa: BLE001
            ctx.oracle_error('C06 Q-vector definition')
            return
        ctx.event('qvec_definition')
        ctx.count('definition events judged', int(judged.sum()))
        if not err.size:
            return
        worst = float(np.max(err))
        ctx.dev(f'definition error / |Q| {prec}: {target} from {origin}', worst)
        if not worst <= tol:
            i = int(np.argmax(err))
            ctx.violation('event_definition', f'event {target} differs from 2 pi / lambda (e_i - e_f) for that event and '
                          f"its pixel's beams: error / |Q| = {worst:.3g} > {tol:g}",
                          dict(case, got=repr(gv[judged][i]), expected=repr(np.asarray(q[judged][i] / si.factor(got.unit), dtype=np.float64))),
                          part='qvec-definition', precision=prec)

    def inelastic_definition(self, d, in_tab, idx, got, gv, origin, scatter, case):
        ctx = self.ctx
        from rv.oracle import si
        try:
            direct = 'incident_energy' in d.coords
            gm = GeometryModel(d, scatter, event_fetch(d))
            m_n = si.constants()['m_n']
            E = gm.get('incident_energy' if direct else 'final_energy')
            Lfix, Lfree = gm.get('L1' if direct else 'L2'), gm.get('L2' if direct else 'L1')
            tofc = in_tab.coords[origin]
            t = np.asarray(tofc.values)[idx].astype(si.LD) * si.factor(tofc.unit)
            t0 = np.broadcast_to(Lfix * np.sqrt(m_n / (2 * E)), t.shape)
            E, Lfree = np.broadcast_to(E, t.shape), np.broadcast_to(Lfree, t.shape)
            clear = np.abs(t - t0) > 1e-9 * t0
            unphysical = t <= t0
        except Exception:  # noqa: BLE001
            ctx.oracle_error('C06 inelastic definition')
            return
        wrong = clear & (np.isnan(gv) != unphysical)
        ctx.event('nan_rule')
        ctx.count('nan_rule events decided', int(np.count_nonzero(clear)))
        if np.any(wrong):
            i = int(np.argmax(wrong))
            ctx.violation('nan_rule', f'event energy_transfer is {gv[i]!r} for tof {float(t[i]):.6g} s with '
                          f't0 = {float(t0[i]):.6g} s (must be NaN exactly for tof <= t0)', case, part='nan_rule')
            return
        # energy balance: the free leg is flown in t - t0, so its energy is m L^2 / (2 (t - t0)^2); the result is
        # Ei - Ef.  Forward bound of this definition: each term to tol, the free-leg term amplified by the
        # cancellation in t - t0.
        sel = clear & ~unphysical
        if not np.any(sel):
            return
        try:
            if si.dim(got.unit) != si.dim(sc.Unit('J')):
                ctx.violation('event_definition', f'event energy_transfer has unit {got.unit}', case,
                              part='definition-unit')
                return
            t_, t0_, E_, L_ = t[sel], t0[sel], E[sel], Lfree[sel]
            Efree = m_n * L_ ** 2 / (2 * (t_ - t0_) ** 2)
            exp = (E_ - Efree) if direct else (Efree - E_)
            tol, prec = self.tol_for(got.dtype, gm)
            bound = tol * (np.abs(E_) + np.abs(Efree) * (1 + 2 * t_ / np.abs(t_ - t0_)))
            err = np.abs(gv[sel].astype(si.LD) * si.factor(got.unit) - exp)
            ratio = np.asarray(err / bound, dtype=np.float64)
            ratio = np.where(np.isfinite(gv[sel].astype(np.float64)), ratio, np.inf)
        except Exception:  # noqa: BLE001
            ctx.oracle_error('C06 inelastic definition')
            return
        ctx.event('inelastic_definition')
        ctx.count('definition events judged', int(sel.sum()))
        worst = float(np.max(ratio))
        ctx.dev(f'inelastic definition, error / bound ({prec})', worst)
        if not worst <= 1.0:
            i = int(np.argmax(ratio))
            ctx.violation('event_definition', 'event energy_transfer differs from the energy balance evaluated for that '
                          f"event and its pixel's geometry: {worst:.3g} x the forward bound",
                          dict(case, got=repr(gv[sel][i]), expected=repr(float(exp[i] / si.factor(got.unit))),
                               tof_s=float(t_[i]), t0_s=float(t0_[i])),
                          part='inelastic-definition', precision=prec)

    def geometry_definition(self, d, pg, target, scatter, case):
        ctx = self.ctx
        from rv.oracle import si
        if target not in GEOM_DEF or target in d.coords:
            return
        try:
            gm = GeometryModel(d, scatter, pixel_fetch(d, pg.dims, pg.shape))
            exp = gm.get(target)
            vector = pg.dtype == sc.DType.vector3
            want_dim = si.dim(sc.Unit('rad' if target == 'two_theta' else 'm'))
            if si.dim(pg.unit) != want_dim:
                ctx.violation('geometry_definition', f'coordinate {target} has unit {pg.unit}', case,
                              part='definition-unit')
                return
            gotv = np.asarray(pg.values).astype(si.LD) * si.factor(pg.unit)
            exp = np.broadcast_to(exp, gotv.shape)
            tol = TOL32 if gm.single else TOL64
            if vector:
                from rv.oracle import geom
                err = geom.norm(gotv - exp) / geom.norm(exp)
            elif target == 'two_theta':
                err = np.abs(gotv - exp)          # absolute, rad (C03: accurate to ~1e-15 rad absolute)
            else:
                err = np.abs(gotv - exp) / np.abs(exp)
            err = np.asarray(err, dtype=np.float64)
            err = np.where(np.isfinite(err), err, np.inf)
        except Exception:  # noqa: BLE001
            ctx.oracle_error('C06 geometry definition')
            return
        ctx.event('geometry_definition')
        worst = float(np.max(err)) if err.size else 0.0
        ctx.dev(f'geometry definition: {target}', worst)
        if not worst <= tol:
            at = np.unravel_index(int(np.argmax(err)), err.shape) if err.ndim else ()
            ctx.violation('geometry_definition', f'coordinate {target} of binned data differs from its Euclidean '
                          f'definition by {worst:.3g} > {tol:g}',
                          dict(case, got=repr(np.asarray(pg.values)[at]),
                               expected=repr(np.asarray(exp / si.factor(pg.unit), dtype=np.float64)[at])),
                          part='geometry-definition')


class GravityMonitor:
    """Event-mode use of the gravity kernels: binned wavelength, per-pixel scattered beam."""

    def __init__(self, ctx, KB):
        self.ctx, self.KB = ctx, KB
        self.meta = {}

    def on_start(self, ev):
        w = ev.args.get('wavelength')
        if not isinstance(w, sc.Variable) or w.bins is None:
            return None
        return {k: fp(v) for k, v in ev.args.items()}

    def make(self, name):
        def on_return(ev):
            ctx = self.ctx
            pre = ev.pre
            if pre is None or ev.depth != 0:
                return
            case = {**self.meta, 'function': name, 'args': {k: describe(v) for k, v in ev.args.items()}}
            for k, h in pre.items():
                if fp(ev.args[k]) != h:
                    ctx.violation('input_modified', f'{name} modified its binned input ({k})', case, part=k)
            if ev.exc is not None:
                ctx.violation('raised', f'{name} raised {type(ev.exc).__name__}: {ev.exc}', case)
                return
            try:
                a = ev.args
                w = a['wavelength']
                idx = event_index(w)
                buf = w.bins.constituents['data']
                flat = sc.array(dims=['event'], values=np.asarray(buf.values)[idx], unit=buf.unit, dtype=buf.dtype)
                kw = dict(a)
                kw['wavelength'] = flat
                for k in ('incident_beam', 'scattered_beam'):
                    if a[k].ndim:
                        kw[k] = gather(a[k], w)
                dense = getattr(self.KB, name)(**kw)
                outs = ev.result if isinstance(ev.result, dict) else {'gamma': ev.result}
                douts = dense if isinstance(dense, dict) else {'gamma': dense}
                ctx.event('gravity_twin')
                ctx.count('events_compared', len(idx))
                for key, res in outs.items():
                    got = np.asarray(res.bins.constituents['data'].values)[event_index(res)]
                    want = np.asarray(douts[key].values)
                    if fp(tuple(np.asarray(res.bins.constituents[c].values).ravel() - np.asarray(res.bins.constituents['begin'].values).ravel()
                                for c in ('end',))) != fp(tuple(np.asarray(w.bins.constituents[c].values).ravel() - np.asarray(w.bins.constituents['begin'].values).ravel()
                                                                for c in ('end',))):
                        ctx.violation('membership_changed', f'{name}[{key}]: number of events per bin changed', case)
                    # angles in [-pi, pi]: bit-identical except when the beams vary per pixel, where scipp's
                    # binned and dense evaluation orders differ by one rounding (measured 1 ulp); bound 4 eps
                    eps = np.finfo(got.dtype).eps if got.dtype.kind == 'f' else 0.0
                    with np.errstate(invalid='ignore'):
                        dev = np.abs(got.astype(np.float64) - want.astype(np.float64))
                    both_nan = np.isnan(got) & np.isnan(want)
                    worst = float(np.max(np.where(both_nan, 0.0, dev))) if got.size else 0.0
                    ctx.dev(f'gravity twin {key}: |binned - dense| / eps', worst / eps if eps else worst)
                    if got.dtype != want.dtype or got.shape != want.shape or not (worst <= 4 * eps):
                        ctx.violation('event_value', f'{name}[{key}]: event values differ from the dense formula for '
                                      f'the same event and pixel by {worst:.3g}', case, part='gravity')
            except Exception:  # noqa: BLE001
                ctx.oracle_error('C06 gravity monitor')
        return on_return


def gen_gravity(rng, ctx):
    npix = int(rng.integers(1, 8))
    sizes = rng.integers(0, 30, size=npix)
    if rng.random() < 0.3:
        sizes[rng.random(npix) < 0.5] = 0
    dt = ['float64', 'float32'][rng.integers(0, 2)]
    wunit = ['angstrom', 'nm', 'm'][rng.integers(0, 3)]
    bunit = ['m', 'mm'][rng.integers(0, 2)]
    bf = 1.0 if bunit == 'm' else 1000.0
    wf = {'angstrom': 1.0, 'nm': 0.1, 'm': 1e-10}[wunit]
    end = np.cumsum(sizes)
    w = sc.bins(begin=sc.array(dims=['pixel'], values=end - sizes, unit=None, dtype='int64'),
                end=sc.array(dims=['pixel'], values=end, unit=None, dtype='int64'), dim='event',
                data=sc.array(dims=['event'], values=rng.uniform(0.5, 20.0, size=int(end[-1]) if npix else 0) * wf,
                              unit=wunit, dtype=dt))
    tilt = [0.0, 0.0, 0.2][rng.integers(0, 3)]
    per_pixel_incident = npix > 1 and rng.random() < 0.35
    if per_pixel_incident:
        # e.g. a sample-height scan: some beams exactly perpendicular to gravity, others inclined
        tl = np.where(rng.random(npix) < 0.5, 0.0, rng.uniform(1e-3, 0.2))
        tl[0], tl[-1] = 0.0, float(rng.uniform(1e-3, 0.2))
        inc = sc.vectors(dims=['pixel'], values=np.stack([np.zeros(npix), 10 * np.sin(tl), 10 * np.cos(tl)], axis=1) * bf,
                         unit=bunit)
        tilt = float(np.max(tl))
        ctx.hit('binned gravity with per-pixel incident beams')
    kw = {
        'incident_beam': inc if per_pixel_incident else sc.vector(np.array([0.0, 10 * np.sin(tilt), 10 * np.cos(tilt)]) * bf, unit=bunit),
        'scattered_beam': sc.vectors(dims=['pixel'], values=(rng.normal(size=(npix, 3)) + [0.3, 0.2, 3]) * bf, unit=bunit),
        'wavelength': w,
        'gravity': sc.vector([0.0, -9.80665, 0.0], unit='m/s^2'),
    }
    return kw, tilt, ('gravity', dt, wunit, bunit, 'tilted' if tilt else 'perpendicular')


# ------------------------------------------------------------ generator ---
# Axis-aligned laboratory frames: the instrument is built with the incident beam along +z and the sample in the
# origin, then turned by a proper rotation of the cube that sends e_z to the named direction (exact: signed
# permutations of the components) and shifted so that the sample sits at the origin or elsewhere.
_D = {
    '+x': [[0, 0, 1], [0, 1, 0], [-1, 0, 0]], '-x': [[0, 0, -1], [0, 1, 0], [1, 0, 0]],
    '+y': [[1, 0, 0], [0, 0, 1], [0, -1, 0]], '-y': [[1, 0, 0], [0, 0, -1], [0, 1, 0]],
    '+z': [[1, 0, 0], [0, 1, 0], [0, 0, 1]], '-z': [[-1, 0, 0], [0, 1, 0], [0, 0, -1]],
}
_ROLL = [[[1, 0, 0], [0, 1, 0], [0, 0, 1]], [[0, -1, 0], [1, 0, 0], [0, 0, 1]],
         [[-1, 0, 0], [0, -1, 0], [0, 0, 1]], [[0, 1, 0], [-1, 0, 0], [0, 0, 1]]]
FRAMES = list(_D)
PLACEMENTS = ['at the origin', 'elsewhere']


def frame_matrix(direction, roll):
    return np.array(_D[direction], dtype=np.float64) @ np.array(_ROLL[roll], dtype=np.float64)


def frame_class(kind, direction, placement=None):
    return (f'frame:{kind}, incident beam along {direction}'
            + (f', sample {placement}' if placement is not None else ''))


def gen(rng, ctx, force=None):
    force = force or {}
    origin, tgt = force.get('target') or TARGETS[rng.integers(0, len(TARGETS))]
    mode = None
    hkl = False
    if tgt == 'hkl:':
        tgt, hkl = HKL_TARGETS[rng.integers(0, len(HKL_TARGETS))], True
        ctx.hit('hkl-family target')
    elif tgt.startswith('geom:'):
        tgt = tgt[5:] or GEOM_TARGETS[rng.integers(0, len(GEOM_TARGETS))]
        mode = 'geometry'
        if ':' in tgt:
            tgt, mode = tgt.split(':')[0], 'geometry-noscatter'
        ctx.hit('geometry target on binned data')
    elif ':' in tgt:
        tgt, mode = tgt.split(':')
    if mode and 'noscatter' in mode:
        ctx.hit('conversion without scattering on binned data')
    layout = force.get('layout') or LAYOUTS[rng.integers(0, len(LAYOUTS))]
    evdt = ['float64', 'float32', 'int64'][rng.integers(0, 3)] if origin == 'tof' else ['float64', 'float32'][rng.integers(0, 2)]
    if force.get('ev_variances') and evdt == 'int64':
        evdt = 'float64'      # scipp has no variances for integers
    edim = force.get('buffer_dim', 'event')
    npix = int(rng.integers(1, 9))
    if force.get('npix'):
        npix = int(force['npix'])
    if layout in ('slice_pixels', 'one_pixel'):
        npix = max(npix, 2)
    grid = layout in ('2d', 'transposed', 'slice_tof') or (layout in ('slice_pixels', 'one_pixel', 'permuted')
                                                           and (rng.random() < 0.5 or bool(force.get('grid'))))
    nt = int(rng.integers(1, 6)) if grid else None
    if force.get('nt') and grid:
        nt = int(force['nt'])
    if layout == 'slice_tof':
        nt = max(nt, 2)
    nbins = npix * (nt or 1)
    if layout == 'all_empty':
        sizes = np.zeros(nbins, dtype=np.int64)
    elif layout == 'one_huge':
        sizes = np.zeros(nbins, dtype=np.int64)
        sizes[rng.integers(0, nbins)] = int(rng.integers(500, 5000))
    else:
        sizes = rng.integers(0, 40, size=nbins)
        if layout == 'some_empty':
            sizes[rng.random(nbins) < 0.5] = 0
        if force and sizes.sum() == 0:
            sizes[rng.integers(0, nbins)] = 7      # a forced class is there to be judged: at least one event
        if force.get('bin_size'):
            sizes[:] = int(force['bin_size'])
    # unused events before / between / after the bins: always for 'gaps', sometimes in the parent of a view
    gapped = layout == 'gaps' or (layout in NONCOMPACT and rng.random() < 0.3)
    gaps = rng.integers(0, 4, size=nbins) if gapped else np.zeros(nbins, dtype=np.int64)
    if layout == 'permuted':
        # the bins lie in the buffer in another order than the logical one
        order = rng.permutation(nbins)
        begin = np.empty(nbins, dtype=np.int64)
        begin[order] = np.cumsum((sizes + gaps)[order]) - sizes[order]
    else:
        begin = np.cumsum(sizes + gaps) - sizes
    end = begin + sizes
    nbuf = int((sizes + gaps).sum()) + (int(rng.integers(0, 4)) if gapped else 0)
    if origin == 'tof':
        tunit = ['us', 'ns', 'ms'][rng.integers(0, 3)]
        scale = {'us': 1.0, 'ns': 1e3, 'ms': 1e-3}[tunit]
        vals = rng.uniform(500.0, 50000.0, size=nbuf) * scale
        if evdt == 'int64':
            tunit, vals = ['us', 'ns'][rng.integers(0, 2)], None
            vals = rng.integers(500, 50000, size=nbuf) * (1000 if tunit == 'ns' else 1)
        ounit = tunit
    else:
        ounit = ['angstrom', 'nm'][rng.integers(0, 2)]
        vals = rng.uniform(0.5, 10.0, size=nbuf) * (0.1 if ounit == 'nm' else 1.0)
    evcoord = sc.array(dims=[edim], values=vals, unit=ounit, dtype=evdt)
    if force.get('ev_variances'):
        # an event coordinate with its own uncertainty (1 % .. 5 % relative), e.g. a resolution-smeared tof
        evcoord.variances = (np.asarray(evcoord.values) * rng.uniform(0.01, 0.05, size=nbuf)) ** 2
        ctx.hit('event coordinate with variances')
    weights = sc.array(dims=[edim], values=rng.random(nbuf), variances=rng.random(nbuf), unit='counts',
                       dtype=['float64', 'float32'][rng.integers(0, 2)])
    # names of the items the conversion has nothing to do with (forced classes give them names outside NFC / NFKC)
    nm = {'ev': 'unrelated_ev', 'px': 'unrelated_px', 'evmask': 'evmask', 'pxmask': 'pxmask', **(force.get('names') or {})}
    tab = sc.DataArray(weights, coords={origin: evcoord, nm['ev']: sc.arange(edim, nbuf, unit=None)},
                       masks={nm['evmask']: sc.array(dims=[edim], values=rng.random(nbuf) < 0.2)})
    dims = ['pixel', origin] if nt else ['pixel']
    shape = (npix, nt) if nt else (npix,)
    # pixel of every entry of the event buffer (entries outside all bins: pixel 0, never looked at)
    pix_of_buf = np.zeros(nbuf, dtype=np.int64)
    for j in range(nbins):
        pix_of_buf[begin[j]:end[j]] = j // (nt or 1)
    coords = {nm['px']: sc.array(dims=['pixel'], values=rng.random(npix), unit='K')}
    noscatter = bool(mode) and 'noscatter' in mode
    geom_kind = force.get('geom')
    if geom_kind is None:
        if hkl or (mode and mode.startswith('geometry')):
            geom_kind = 'positions' if noscatter or tgt in ('incident_beam', 'scattered_beam') or rng.random() < 0.7 else 'beams'
        else:
            u = rng.random()
            geom_kind = 'reduced' if u < 0.5 else ('positions' if u < 0.85 or noscatter else 'beams')
    lunit = ['m', 'mm'][rng.integers(0, 2)]
    lf = 1.0 if lunit == 'm' else 1000.0
    if geom_kind == 'reduced':
        coords['L1'] = sc.scalar(rng.uniform(5, 50) * lf, unit=lunit)
        coords['L2'] = sc.array(dims=['pixel'], values=rng.uniform(0.5, 5, size=npix) * lf, unit=lunit)
        coords['Ltotal'] = coords['L1'] + coords['L2']
        coords['two_theta'] = sc.array(dims=['pixel'], values=rng.uniform(0.05, 3.0, size=npix), unit='rad')
    else:
        direction = force.get('frame') or FRAMES[rng.integers(0, len(FRAMES))]
        R = frame_matrix(direction, int(rng.integers(0, 4)))
        l1 = rng.uniform(5, 50) * lf
        pix = (rng.normal(size=(npix, 3)) * lf * 2 + [0, 0.3 * lf, lf]) @ R.T
        if geom_kind == 'positions':
            placement = force.get('placement') or PLACEMENTS[rng.integers(0, 2)]
            off = np.zeros(3) if placement == 'at the origin' else rng.uniform(-20.0, 20.0, size=3) * lf
            if placement == 'at the origin (negative zeros)':
                off = -np.zeros(3)
            elif placement == 'source at the origin':
                off = -(R @ np.array([0.0, 0.0, -l1]))      # x + (-x) is exactly +0.0
            coords['source_position'] = sc.vector(off + R @ np.array([0.0, 0.0, -l1]), unit=lunit)
            coords['sample_position'] = sc.vector(off, unit=lunit)
            coords['position'] = sc.vectors(dims=['pixel'], values=off + pix, unit=lunit)
            ctx.hit(frame_class('positions', direction, placement))
        else:
            coords['incident_beam'] = sc.vector(R @ np.array([0.0, 0.0, l1]), unit=lunit)
            coords['scattered_beam'] = sc.vectors(dims=['pixel'], values=pix, unit=lunit)
            ctx.hit(frame_class('beams', direction))
    if hkl:
        th = rng.uniform(0, np.pi)
        coords['sample_rotation'] = sc.spatial.rotation(value=[0.0, np.sin(th / 2), 0.0, np.cos(th / 2)])
        coords['ub_matrix'] = sc.spatial.linear_transform(value=np.triu(rng.uniform(0.5, 2.0, size=(3, 3))), unit='1/angstrom')
    if mode == 'direct':
        coords['incident_energy'] = sc.scalar(rng.uniform(5, 500), unit='meV', dtype='float32' if evdt == 'float32' and rng.random() < 0.5 else 'float64')
    elif mode == 'indirect':
        coords['final_energy'] = sc.array(dims=['pixel'], values=rng.uniform(1, 50, size=npix), unit='meV')
    if not mode and tgt != 'energy' and rng.random() < 0.2:
        # unrelated coordinates an elastic conversion must leave alone: the nominal incident energy and/or the
        # analyser energies of the instrument
        which = int(rng.integers(0, 3))
        if which in (0, 2):
            coords['incident_energy'] = sc.scalar(rng.uniform(5, 500), unit='meV')
        if which in (1, 2):
            coords['final_energy'] = sc.array(dims=['pixel'], values=rng.uniform(1, 50, size=npix), unit='meV')
        ctx.hit('elastic target with bystander energy coordinates' + (' (both)' if which == 2 else ''))
    edges = bool(nt) and rng.random() < 0.7
    if force.get('origin_at'):
        # where the origin lives is forced: 'events' (no dense coordinate), 'both', or 'dense' (run() takes the event
        # coordinate away afterwards: what da.bins.drop_coords(origin) leaves)
        edges = bool(nt) and force['origin_at'] != 'events'
    centres = edges and force.get('dense_kind') == 'per-bin values'
    if edges:
        lo, hi = (float(np.min(vals)), float(np.max(vals))) if nbuf else (1.0, 2.0)
        ev = np.sort(rng.uniform(lo * 0.9, hi * 1.1 + 1, size=nt + (0 if centres else 1)))
        coords[origin] = sc.array(dims=[origin], values=ev, unit=ounit)
    masks = {nm['pxmask']: sc.array(dims=['pixel'], values=rng.random(npix) < 0.3)}
    if nt and (force or rng.random() < 0.5):
        # masks in every shape a grid allows: along the origin dimension (which the conversion renames) and 2-d
        masks['binmask'] = sc.array(dims=[origin], values=rng.random(nt) < 0.3)
        masks['gridmask'] = sc.array(dims=dims, values=rng.random(shape) < 0.3)
        ctx.hit('masks along the origin dimension and on the 2-d grid')
    # ---- event coordinates next to the origin whose names mean something to the conversion graphs
    by = force.get('bystander')
    bystander = None
    if by:
        scatter_ = not noscatter
        bystander = pick_bystander(by['names'], by['kind'], coords, origin, tgt, scatter_)
        if bystander is not None:
            if by['kind'] == 'shadow':
                # every event carries its pixel's value: whichever level the conversion reads, the result is the same
                dv = coords[bystander]
                src = np.asarray(dv.values)
                bvals = src[pix_of_buf] if dv.ndim else np.broadcast_to(src, (nbuf, *src.shape)).copy()
                bunit = dv.unit
                ctx.hit('event coordinate shadowing the dense one')
                ctx.hit('event coordinate shadowing the dense one:' + bystander)
            else:
                bunit = RESERVED[bystander]
                bvals = (rng.normal(size=(nbuf, 3)) + [0.2, 0.1, 2.0]) if bystander in VECTOR_NAMES else rng.uniform(0.5, 3.0, size=nbuf)
                ctx.hit('bystander event coordinate with a reserved name')
                ctx.hit('bystander event coordinate:' + bystander)
            tab.coords[bystander] = (sc.vectors(dims=[edim], values=np.asarray(bvals).reshape(-1, 3), unit=bunit)
                                     if bystander in VECTOR_NAMES else
                                     sc.array(dims=[edim], values=bvals, unit=bunit))
    binned = sc.bins(begin=sc.array(dims=dims, values=begin.reshape(shape), unit=None, dtype='int64'),
                     end=sc.array(dims=dims, values=end.reshape(shape), unit=None, dtype='int64'),
                     dim=edim, data=tab)
    da = sc.DataArray(binned, coords=coords, masks=masks)
    # ---- views (no copy): what the user gets from transposing / slicing a larger object
    if layout == 'transposed':
        da = da.transpose()
    elif layout == 'slice_pixels':
        da = da['pixel', int(rng.integers(1, npix)):]
    elif layout == 'slice_tof':
        da = da[origin, int(rng.integers(1, nt)):]
    elif layout == 'one_pixel':
        da = da['pixel', int(rng.integers(1, npix))]
    pdim = force.get('pixel_dim')
    if pdim and 'pixel' in da.dims and pdim not in da.dims:
        da = da.rename_dims({'pixel': pdim})
        ctx.hit('pixel dimension named like an internal / coordinate name')
        ctx.hit('pixel dimension named:' + pdim)
    if edim != 'event':
        ctx.hit('event-buffer dimension named:' + edim)
    if nm.get('dim') and 'pixel' in da.dims:
        da = da.rename_dims({'pixel': nm['dim']})
    nevents = int(da.bins.size().data.sum().value) if layout in NONCOMPACT else int(sizes.sum())
    shape_class = f'{da.data.ndim}-d'
    sig = (origin, tgt, mode, layout, evdt, geom_kind, ('per-bin' if centres else 'edges') if edges else 'noedges', ounit, lunit,
           shape_class)
    return da, origin, tgt, sig, {'layout': layout, 'nevents': nevents, 'geometry': geom_kind,
                                  'mode': mode, 'edges': edges, **({'bystander': bystander} if by else {})}


# names the conversion graphs know (unit of a bystander with that name)
RESERVED = {'final_energy': 'meV', 'incident_energy': 'meV', 'wavelength': 'angstrom', 'energy': 'meV', 'dspacing': 'angstrom',
            'Q': '1/angstrom', 'energy_transfer': 'meV', 'L1': 'm', 'L2': 'm', 'Ltotal': 'm', 'two_theta': 'rad',
            'incident_beam': 'm', 'scattered_beam': 'm', 'position': 'm', 'sample_position': 'm', 'source_position': 'm'}
VECTOR_NAMES = ('incident_beam', 'scattered_beam', 'position', 'sample_position', 'source_position')


def pick_bystander(names, kind, coords, origin, tgt, scatter):
    """First of ``names`` that, as an event coordinate next to the dense ``coords``, is
    kind 'unrelated': not read and not produced by the conversion (derivation model, not the package);
    kind 'shadow':    read by the conversion and also present as a dense per-pixel / scalar coordinate."""
    from rv.oracle import convgraph as G
    dense = {k for k in coords if k != origin}
    for name in names:
        if name in (origin, tgt):
            continue
        try:
            mode = G.energy_mode(dense, origin, tgt)
            table = G.rules(origin, tgt, scatter, mode)
            present = dense | {origin, name}
            leaves = G.used_inputs(tgt, present, table)
            planned = G.plan(tgt, present, table)
        except (G.Refuse, KeyError):
            continue
        if G.node_of(name) in planned:
            continue
        if kind == 'unrelated' and name not in leaves:
            return name
        if kind == 'shadow' and name in leaves and name in dense and set(coords[name].dims) <= {'pixel'}:
            return name
    return None


# ------------------------------------------------- forced part of every shard ---
# (a) every axis-aligned frame x sample placement, geometry by positions and by beams, on the targets that depend on
#     the pixel geometry; the target rotates with the shard index so that every (frame, target) pair occurs in every run
FRAME_TARGETS = [('tof', 'dspacing'), ('tof', 'Q'), ('wavelength', 'dspacing'), ('wavelength', 'Q'),
                 ('tof', 'geom:two_theta'), ('tof', 'wavelength'), ('tof', 'energy_transfer:direct'),
                 ('tof', 'energy_transfer:indirect')]
# (b) every non-compact layout x inelastic targets (both geometries) and one elastic target
NONCOMPACT_TARGETS = [('tof', 'energy_transfer:direct'), ('tof', 'energy_transfer:indirect'), None]
ELASTIC_ROT = [('tof', 'dspacing'), ('tof', 'wavelength'), ('wavelength', 'Q'), ('tof', 'energy'),
               ('wavelength', 'energy'), ('tof', 'Q'), ('wavelength', 'dspacing'), ('tof', 'hkl:')]


def target_label(t):
    return t[1] if t[0] == 'tof' else f'{t[1]} from {t[0]}'


def forced_cases(index):
    out = []
    k = 0
    for direction in FRAMES:
        for kind, placement in (('positions', PLACEMENTS[0]), ('positions', PLACEMENTS[1]), ('beams', None)):
            t = FRAME_TARGETS[(k + index) % len(FRAME_TARGETS)]
            out.append({'target': t, 'geom': kind, 'frame': direction, 'placement': placement,
                        'layout': ['1d', 'some_empty', '2d'][(k + index) % 3]})
            k += 1
    for j, layout in enumerate(NONCOMPACT):
        for t in NONCOMPACT_TARGETS:
            tt = t or ELASTIC_ROT[(j + index) % len(ELASTIC_ROT)]
            out.append({'target': tt, 'layout': layout,
                        'hit': f'layout:{layout} x ' + (t[1] if t else 'elastic target')})
    return out


# ------------------------------------------------- programs (call sequences) ---
# (c) RE-CONVERSION: what a re-run notebook cell / a recalibration does -- the converted object goes into convert again:
#     same target, another target, the first target as origin (chained), a by-product of the first call as target.
#     Every call is judged by the monitor like any other; what is new is the INPUT of the later calls (event buffer
#     that already carries the target / by-products, renamed dimension, unaligned inputs).
RECONVERT_TARGETS = [('tof', 'wavelength'), ('tof', 'dspacing'), ('tof', 'energy'), ('tof', 'Q'),
                     ('tof', 'energy_transfer:direct'), ('tof', 'energy_transfer:indirect'),
                     ('wavelength', 'Q'), ('wavelength', 'dspacing')]
RECONVERT_LAYOUTS = ['2d', 'some_empty', 'slice_tof', '1d', 'transposed', 'permuted', 'gaps', 'slice_pixels']
# (d) BYSTANDERS: event coordinates next to the origin with names the graphs know
BYSTANDER_FIXED = [(('tof', 'energy_transfer:direct'), 'final_energy'), (('tof', 'energy_transfer:indirect'), 'incident_energy'),
                   (('tof', 'energy'), 'incident_energy'), (('tof', 'energy'), 'final_energy'),
                   (('wavelength', 'energy'), 'incident_energy'), (('wavelength', 'energy'), 'final_energy')]
BYSTANDER_CONVERSIONS = [('tof', 'wavelength'), ('tof', 'dspacing'), ('tof', 'Q'), ('wavelength', 'dspacing'), ('wavelength', 'Q'),
                         ('tof', 'energy_transfer:direct'), ('tof', 'energy_transfer:indirect'), ('tof', 'energy'),
                         ('wavelength', 'energy'), ('tof', 'hkl:'), ('tof', 'geom:two_theta')]
SHADOW_CASES = [(('tof', 'energy_transfer:direct'), 'reduced', ['incident_energy']),
                (('tof', 'energy_transfer:indirect'), 'reduced', ['final_energy']),
                (('tof', 'energy_transfer:direct'), 'reduced', ['L2', 'L1']),
                (('tof', 'wavelength'), 'reduced', ['Ltotal']), (('tof', 'dspacing'), 'reduced', ['two_theta', 'Ltotal']),
                (('wavelength', 'Q'), 'reduced', ['two_theta']), (('wavelength', 'dspacing'), 'reduced', ['two_theta']),
                (('tof', 'energy'), 'reduced', ['Ltotal'])]
# (event-level *vectors* shadowing the dense beams / positions are per-event geometry, outside "geometry per pixel"; the
# unchanged tree refuses some of them: two_theta() adds the incident to the scattered beam in place)
# (e) dimension names the implementation (scipp / scippneutron) uses itself, and names of coordinates of the graphs
PIXEL_DIMS = ['event', 'row', 'x', 'rotation', 'slit', 'vertex', 'cutout', 'range', 'spectrum', 'detector_number',
              'wavelength', 'dspacing', 'Ltotal', 'L2', 'position', 'two_theta', 'energy_transfer',
              'c0ffee00-dead-4bee-f00d-0123456789ab']
BUFFER_DIMS = ['row', 'x', 'pixel', 'tof', 'dspacing', 'Ltotal', 'wavelength', 'time']
DIM_TARGETS = [('tof', 'dspacing'), ('tof', 'wavelength'), ('tof', 'Q'), ('tof', 'energy'), ('tof', 'energy_transfer:direct')]
VARIANCE_TARGETS = sorted(POWER) + [('tof', 'energy_transfer:direct'), ('tof', 'energy_transfer:indirect')]
CONVENTIONS = ['positional', 'keyword', 'mixed']
ARGTYPES = ['str', 'np.str_', '(str, Enum) member', 'StrEnum member', 'str subclass']


class _Str(str):
    __slots__ = ()


def as_argtype(name, kind):
    import enum
    if kind == 'np.str_':
        return np.str_(name)
    if kind == '(str, Enum) member':
        return enum.Enum('Coordinate', [(name, name)], type=str)[name]
    if kind == 'StrEnum member':
        return enum.StrEnum('CoordinateName', [(name, name)])[name]
    if kind == 'str subclass':
        return _Str(name)
    return name


def call_convert(scn, ctx, k, da, origin, tgt, scatter):
    """scn.convert in every calling convention its signature allows, with every kind of str / bool it documents."""
    conv, kind = CONVENTIONS[k % 3], ARGTYPES[(k // 3) % 5]
    o, t = as_argtype(origin, kind), as_argtype(tgt, kind)
    sct = np.bool_(scatter) if (k // 15) % 2 else bool(scatter)
    ctx.hit('call:' + conv)
    ctx.hit('argument type:' + kind)
    ctx.hit('scatter given as ' + ('np.bool_' if isinstance(sct, np.bool_) else 'bool'))
    if conv == 'positional':
        return scn.convert(da, o, t, sct)
    if conv == 'keyword':
        return scn.convert(scatter=sct, target=t, origin=o, data=da)
    return scn.convert(da, o, target=t, scatter=sct)


def as_dataset(da, origin, rng, with_dense):
    """The data array and a second measurement on the same pixels (other events) as items of one dataset."""
    other = da.copy()
    tab = other.bins.constituents['data']
    ov = np.asarray(tab.coords[origin].values)
    if ov.size:
        tab.coords[origin].values = np.roll(ov, 1 + int(rng.integers(0, 5)))
        tab.data.values = np.asarray(tab.data.values)[::-1].copy()
    items = {'sample': da, 'vanadium': other}
    if with_dense:
        items['normalisation'] = sc.DataArray(sc.array(dims=list(da.dims), values=rng.random(da.shape), unit='counts'),
                                              coords=dict(da.coords.items()), masks=dict(da.masks.items()))
    return sc.Dataset(items)


def drop_event_origin(da, origin):
    """The same bins (same begin / end, same buffer, same view) whose events do not carry ``origin``: built from the
    constituents, so that non-compact layouts stay what they are."""
    c = da.bins.constituents
    tab = c['data'].drop_coords(origin)
    binned = sc.bins(begin=c['begin'], end=c['end'], dim=c['dim'], data=tab)
    return sc.DataArray(binned, coords=dict(da.coords.items()), masks=dict(da.masks.items()))


# (round 8) WHERE THE ORIGIN LIVES: binned data may carry the origin on the events only, as a dense coordinate of the bins
# only (bin edges, or one value per bin: what is left after da.bins.drop_coords(origin)), or both.  Every elastic
# origin / target pair (and, as siblings, both inelastic modes and a conversion without scattering) in each of the three.
ORIGIN_AT = {'dense': 'only as a dense coordinate', 'events': 'only on the events', 'both': 'on the events and dense'}
ORIGIN_TARGETS = sorted(POWER) + [('tof', 'energy_transfer:direct'), ('tof', 'energy_transfer:indirect'),
                                  ('tof', 'wavelength:noscatter')]
ORIGIN_LAYOUTS = ['2d', 'transposed', 'slice_tof', 'permuted', 'slice_pixels', 'one_pixel']
DENSE_KINDS = ['bin edges', 'per-bin values']


def origin_label(at, t):
    return f'origin {ORIGIN_AT[at]} x {target_label(t)}'


def other_target(da, origin, tgt, k):
    inel = any(n in da.coords for n in ('incident_energy', 'final_energy'))
    cands = {'tof': ['wavelength', 'dspacing', 'Q', 'energy'], 'wavelength': ['Q', 'dspacing', 'energy']}[origin]
    cands = [c for c in cands if c != tgt and not (c == 'energy' and inel)]
    return cands[k % len(cands)]


def look_at(obj):
    """What a user does with an object between two calls: display, copy, compare."""
    import copy
    repr(obj), str(obj)
    try:
        obj._repr_html_()
    except Exception:  # noqa: BLE001  display is not what is judged here
        pass
    c1, c2, c3 = copy.copy(obj), copy.deepcopy(obj), obj.copy(deep=False)
    sc.identical(obj, c2), sc.identical(c1, c3, equal_nan=True)
    for it in ([obj] if isinstance(obj, sc.DataArray) else list(obj.values())):
        if it.bins is not None:
            it.bins.size(), dict(it.bins.coords.items()), it.bins.constituents
    del c1, c2, c3


def reconversion_program(scn, mon, ctx, rng, k, index, da, origin, tgt, scatter, meta):
    """convert, then convert the converted object again (several ways); each call judged by the monitor."""
    def conv(obj, o, t, what, j=0):
        mon.meta = dict(meta, program='re-conversion', step=what)
        try:
            return call_convert(scn, ctx, k + j, obj, o, t, scatter)
        except Exception:  # noqa: BLE001  judged by the monitor
            return None

    first = conv(da, origin, tgt, 'first conversion')
    if first is None:
        return
    # the same input object a second time: same result
    again = conv(da, origin, tgt, 'same input converted a second time', 1)
    ctx.event('second use of the same input')
    if again is None or fp(again) != fp(first):
        ctx.violation('not_repeatable', 'converting the same (unmodified) object twice gave two different results',
                      {**meta, 'origin': origin, 'target': tgt, 'input': describe(da)})
    if (k + index) % 2:
        look_at(first)
        ctx.hit('display / copy / comparison of a result between two conversions')
    snapshot = fp(first)
    same = conv(first, origin, tgt, 'converted object converted again, same target', 2)
    ctx.hit('re-conversion: same target')
    if same is not None:
        # the target is there already (and is what the dense formula gives): nothing may change
        ctx.event('re-conversion result')
        if fp([it.bins.constituents['data'].coords[tgt].values[event_index(it.data)] for _, it in binned_items(same)]) != \
                fp([it.bins.constituents['data'].coords[tgt].values[event_index(it.data)] for _, it in binned_items(first)]):
            ctx.violation('not_repeatable', f'event {tgt} changed when the converted object was converted again',
                          {**meta, 'origin': origin, 'target': tgt, 'input': describe(first)})
    other = other_target(da if isinstance(da, sc.DataArray) else da['sample'], origin, tgt, k + index)
    conv(first, origin, other, 'converted object converted again, another target', 3)
    ctx.hit('re-conversion: another target')
    if tgt in ('wavelength',) and origin == 'tof':
        nxt = other_target(da if isinstance(da, sc.DataArray) else da['sample'], 'wavelength', 'wavelength', k + index)
        conv(first, tgt, nxt, 'chained: the first target is the origin of the next conversion', 4)
        ctx.hit('chained conversion: result fed back with its target as origin')
    if tgt in ('Q', 'dspacing') and origin == 'tof':
        # the first call left by-products in the event buffer (wavelength for Q) or could have: ask for one
        conv(first, origin, 'wavelength', 'converted object converted again, target = possible by-product', 5)
        ctx.hit('re-conversion: target that the first call may have left as a by-product')
    if fp(first) != snapshot:
        # (each call reports its own input_modified; this is the sum over the sequence)
        ctx.count('re-conversion: first result changed during the sequence')


# (f) ALIASING OF RESULT AND ARGUMENTS, IN-PLACE MODIFICATION BETWEEN TWO CALLS.  "The input object is not modified"
#     also after the call has returned: what the conversion COMPUTED (every coordinate of the result, dense or event
#     level, that the input does not have) is new memory.  transform_coords documents that EXISTING data and coordinates
#     are shallow-copied, so only the computed ones are judged: (1) a write into each of them leaves the input as it was
#     and converting the same input again gives the first result again; (2) a write into the argument leaves the
#     computed coordinates of a result obtained EARLIER as they were, and the next call on the very same object is the
#     conversion of its NEW contents (judged by the monitor like any call).  Geometry by positions with the sample /
#     the source exactly at the origin (+0.0 and -0.0) is where "subtract the sample position" is the identity on values.
ALIAS_PLACEMENTS = ['at the origin', 'at the origin (negative zeros)', 'source at the origin', 'elsewhere']
ALIAS_TARGETS = [('tof', 'dspacing'), ('tof', 'wavelength:noscatter'), ('tof', 'wavelength'), ('tof', 'Q'),
                 ('tof', 'energy_transfer:direct'), ('tof', 'energy_transfer:indirect'), ('tof', 'geom:scattered_beam'),
                 ('tof', 'geom:incident_beam'), ('tof', 'geom:two_theta'), ('tof', 'geom:L2'), ('tof', 'geom:L1'),
                 ('tof', 'geom:Ltotal'), ('tof', 'geom:Ltotal:noscatter'), ('tof', 'hkl:'), ('wavelength', 'Q'), ('tof', 'energy')]
ALIAS_LAYOUTS = ['1d', '2d', 'some_empty', 'gaps', 'transposed', 'one_pixel', 'permuted']
MODIFICATIONS = ['values of the event coordinate', 'one pixel (a slice) of a geometry coordinate',
                 'unit of the event coordinate', 'weights and a mask']
ALIAS_PER_SHARD = 8


def alias_label(placement, t):
    return f'aliasing: sample {placement} x {t[1]}' + ('' if t[0] == 'tof' else f' from {t[0]}')


def alias_pairs():
    return [(pl, t) for t in ALIAS_TARGETS for pl in ALIAS_PLACEMENTS]


def var_fp(v):
    return fp((str(v.unit), str(v.dtype), tuple(v.dims), tuple(v.shape), np.asarray(v.values),
               None if v.variances is None else np.asarray(v.variances)))


def computed_parts(out, inp):
    """[(item, level, name, variable)]: the coordinates of the result that the input does not have."""
    parts = []
    ins = dict(binned_items(inp))
    for name, item in binned_items(out):
        src = ins.get(name)
        if src is None:
            continue
        for k, v in item.coords.items():
            if v.bins is None and str(k) not in src.coords:
                parts.append((name, 'dense', str(k), v))
        tab, stab = item.bins.constituents['data'], src.bins.constituents['data']
        for k, v in tab.coords.items():
            if str(k) not in stab.coords:
                parts.append((name, 'event', str(k), v))
    return parts


def computed_fp(out, inp):
    return {(n, lv, k): var_fp(v) for n, lv, k, v in computed_parts(out, inp)}


def write_in_place(v, how):
    """Overwrite the memory of ``v`` (another value everywhere); False if scipp refuses (read-only variable)."""
    vals = np.asarray(v.values)
    try:
        if v.dtype in (sc.DType.float64, sc.DType.float32, sc.DType.vector3, sc.DType.int64, sc.DType.int32):
            if how % 2 and np.all(vals != 0):
                v += v
            else:
                v.values = vals * 2 + 1
            return True
    except (sc.VariableError, sc.DTypeError, RuntimeError):
        return False
    return False


def modify_argument(obj, origin, kind, elastic):
    """In-place change of the argument of a conversion; returns a description (None: nothing to change)."""
    items = binned_items(obj)
    if kind == 'unit of the event coordinate':
        c0 = items[0][1].bins.constituents['data'].coords[origin]
        new = [n for u, n in (('us', 'ns'), ('ns', 'us'), ('ms', 'us'), ('angstrom', 'nm'), ('nm', 'angstrom')) if c0.unit == sc.Unit(u)]
        try:
            if not elastic or not new:
                raise sc.VariableError('')   # relabelled times of flight are all unphysical for a given Ei / Ef
            if origin in obj.coords and obj.coords[origin].bins is None:
                obj.coords[origin].unit = new[0]      # the bin edges with their events (read-only in a slice of a parent)
        except sc.VariableError:
            kind = 'values of the event coordinate'
        else:
            for _, it in items:
                it.bins.constituents['data'].coords[origin].unit = new[0]
            return kind
    if kind == 'values of the event coordinate':
        for _, it in items:
            c = it.bins.constituents['data'].coords[origin]
            c.values = np.asarray(c.values) * (2 if c.dtype in (sc.DType.int64, sc.DType.int32) else 1.5)
        return kind
    if kind == 'one pixel (a slice) of a geometry coordinate':
        for name, f in (('position', None), ('scattered_beam', None), ('L2', 1.5), ('Ltotal', 1.5), ('two_theta', 0.5),
                        ('final_energy', 1.25), ('incident_energy', 1.25)):
            if name not in obj.coords or obj.coords[name].bins is not None:
                continue
            v = obj.coords[name]
            if v.ndim:
                v = v[v.dims[0], 0]
            if f is None:
                vals = np.asarray(v.values)
                v.values = vals + 0.125 * max(1.0, float(np.max(np.abs(vals))))
            else:
                v.values = np.asarray(v.values) * f
            return f'{kind}: {name}'
        return None
    for _, it in items:
        w = it.bins.constituents['data'].data
        w.values = np.asarray(w.values) * 2
    for k in obj.masks if isinstance(obj, sc.DataArray) else []:
        m = obj.masks[k]
        m.values = ~np.asarray(m.values)
        break
    return kind


def aliasing_program(scn, mon, ctx, k, obj, origin, tgt, scatter, meta, modification):
    def conv(what, j=0):
        mon.meta = dict(meta, program='aliasing', step=what)
        try:
            return call_convert(scn, ctx, k + j, obj, origin, tgt, scatter)
        except Exception:  # noqa: BLE001  judged by the monitor
            return None

    case = {**meta, 'origin': origin, 'target': tgt, 'program': 'aliasing', 'input': describe(obj)}
    try:
        fp0 = fp(obj)
    except Exception:  # noqa: BLE001
        ctx.oracle_error('C06 aliasing program (fingerprint)')
        return
    first = conv('first conversion')
    if first is None:
        return
    try:
        snapshot = computed_fp(first, obj)
        parts = computed_parts(first, obj)
    except Exception:  # noqa: BLE001
        ctx.oracle_error('C06 aliasing program (computed parts)')
        return
    # ---- (2) write into every computed coordinate of the result: the argument stays as it was
    for j, (item, level, name, v) in enumerate(parts):
        try:
            h = var_fp(v)
            wrote = write_in_place(v, k + j)
            if not wrote or (var_fp(v) == h):
                ctx.count('aliasing: computed coordinate not writable / without elements')
                continue
            changed = fp(obj) != fp0
        except Exception:  # noqa: BLE001
            ctx.oracle_error('C06 aliasing program (write into the result)')
            return
        ctx.event('write into a computed coordinate of the result')
        ctx.count(f'aliasing: writes into computed {level} coordinates')
        if changed:
            ctx.violation('input_modified', f'an in-place write into the computed {level} coordinate {name!r} of the '
                          'RESULT changed the INPUT of the conversion: the result shares memory with its argument',
                          dict(case, coordinate=name, **({'item': item} if item is not None else {})),
                          via='write into the result', level=level)
            try:
                fp0 = fp(obj)
            except Exception:  # noqa: BLE001
                ctx.oracle_error('C06 aliasing program (fingerprint)')
                return
    # ---- ... and the conversion of the same argument gives the first result again
    again = conv('same input converted again after in-place writes into the first result', 1)
    ctx.event('conversion repeated after writes into the result')
    try:
        same = again is not None and computed_fp(again, obj) == snapshot
    except Exception:  # noqa: BLE001
        ctx.oracle_error('C06 aliasing program (repeat)')
        return
    if not same:
        diff = [] if again is None else sorted(str(key[1:]) for key, h in snapshot.items() if computed_fp(again, obj).get(key) != h)
        ctx.violation('not_repeatable', 'after in-place writes into the computed coordinates of the first result, '
                      f'converting the same input again gives other values (differs: {", ".join(diff)})', case,
                      via='write into the result')
    if again is None:
        return
    # ---- (1) write into the argument: the computed coordinates of the earlier result stay; the next call on the very
    # same object converts the new contents
    try:
        before = computed_fp(again, obj)
        what = modify_argument(obj, origin, modification, (origin, tgt) in ELASTIC_DEF or tgt in GEOM_DEF or tgt in HKL_TARGETS)
        if what is None or fp(obj) == fp0:
            ctx.count('aliasing: argument not modifiable')
            return
        follows = [str(key[1:]) for key, h in computed_fp(again, obj).items() if before.get(key) != h]
    except Exception:  # noqa: BLE001
        ctx.oracle_error('C06 aliasing program (write into the argument)')
        return
    ctx.event('write into the argument after the call')
    ctx.hit('in-place modification between two calls: ' + what.split(':')[0])
    if follows:
        ctx.violation('result_follows_argument', f'an in-place change of the argument ({what}) after the call changed '
                      f'computed coordinates of the result obtained earlier: {", ".join(sorted(follows))}',
                      dict(case, modification=what), via='write into the argument')
    n0 = ctx.events.get('convert(binned)', 0)
    third = conv(f'the very same object converted again after an in-place change ({what})', 2)
    if third is not None and ctx.events.get('convert(binned)', 0) > n0:
        ctx.event('conversion of the same object after an in-place change')


# (g) FIRST CALL IN A FRESH INTERPRETER: a subprocess that imports numpy, scipp and ONLY the module of the entry point
#     (neither scipp.constants nor another scippneutron module nor this harness), rebuilds the same binned input from a
#     JSON document and converts it once.  What it computed must be bit for bit what the worker computed for the same
#     input (whose call the monitor judges against twins and definitions).
FRESH_MODULES = ['scippneutron', 'scippneutron.core.conversions', 'scippneutron.core']
REPORT_SRC = r'''
def _var_doc(v):
    import numpy as np
    a = np.ascontiguousarray(np.asarray(v.values))
    return [str(v.unit), str(v.dtype), list(v.dims), list(v.shape), a.tobytes().hex(),
            None if v.variances is None else np.ascontiguousarray(np.asarray(v.variances)).tobytes().hex()]


def report(out, inp):
    """Everything of the result, by name: dense coordinates, masks, bin indices, event buffer."""
    doc = {'dims': list(out.dims), 'shape': list(out.shape)}
    for k, v in out.coords.items():
        if v.bins is None:
            doc['coord:' + str(k)] = _var_doc(v)
    for k, v in out.masks.items():
        doc['mask:' + str(k)] = _var_doc(v)
    c = out.bins.constituents
    doc['begin'], doc['end'] = _var_doc(c['begin']), _var_doc(c['end'])
    doc['weights'] = _var_doc(c['data'].data)
    for k, v in c['data'].coords.items():
        doc['event coord:' + str(k)] = _var_doc(v)
    for k, v in c['data'].masks.items():
        doc['event mask:' + str(k)] = _var_doc(v)
    return doc
'''
FRESH_SCRIPT = r'''
import json, sys
stage = 'setup'
try:
    import numpy as np
    import scipp as sc
    spec = json.load(open(sys.argv[1]))

    def var(d):
        if d['dtype'] == 'vector3':
            vals = np.array(d['values'], dtype='float64').reshape([*d['shape'], 3])
            return sc.vectors(dims=d['dims'], values=vals, unit=d['unit']) if d['dims'] else sc.vector(vals, unit=d['unit'])
        vals = np.array(d['values'], dtype=d['dtype']).reshape(d['shape'])
        var_ = None if d['variances'] is None else np.array(d['variances'], dtype=d['dtype']).reshape(d['shape'])
        if d['dims']:
            return sc.array(dims=d['dims'], values=vals, variances=var_, unit=d['unit'], dtype=d['dtype'])
        return sc.scalar(vals[()], variance=None if var_ is None else var_[()], unit=d['unit'], dtype=d['dtype'])

    def build():
        t = spec['table']
        tab = sc.DataArray(var(t['data']), coords={k: var(v) for k, v in t['coords'].items()},
                           masks={k: var(v) for k, v in t['masks'].items()})
        b = sc.bins(begin=var(spec['begin']), end=var(spec['end']), dim=spec['dim'], data=tab)
        return sc.DataArray(b, coords={k: var(v) for k, v in spec['coords'].items()},
                            masks={k: var(v) for k, v in spec['masks'].items()})

    da = build()
    exec(spec['report_src'])
    before = report(da, da)
    loaded = sorted(m for m in sys.modules if m.split('.')[0] == 'scippneutron' or m == 'scipp.constants')
    stage = 'import'
    import importlib
    mod = importlib.import_module(spec['module'])
    stage = 'call'
    out = mod.convert(da, spec['origin'], spec['target'], spec['scatter'])
    stage = 'report'
    print(json.dumps({'stage': 'done', 'file': getattr(mod, '__file__', None), 'preloaded': loaded,
                      'result': report(out, da), 'input_unchanged': report(da, da) == before,
                      'input_as_built': before}))
except BaseException as e:  # noqa: BLE001
    import traceback
    print(json.dumps({'stage': stage, 'error': type(e).__name__ + ': ' + str(e), 'trace': traceback.format_exc()[-1500:]}))
'''


def _var_spec(v):
    vals = np.asarray(v.values)
    dt = str(v.dtype)
    if dt not in ('float64', 'float32', 'int64', 'int32', 'bool', 'vector3'):
        raise TypeError(dt)
    return {'dims': list(v.dims), 'shape': list(v.shape), 'unit': None if v.unit is None else str(v.unit), 'dtype': dt,
            'values': vals.ravel().tolist(), 'variances': None if v.variances is None else np.asarray(v.variances).ravel().tolist()}


def fresh_interpreter_program(scn, mon, ctx, k, da, origin, tgt, scatter, meta):
    import json
    import os
    import subprocess
    import sys
    import tempfile
    case = {**meta, 'origin': origin, 'target': tgt, 'program': 'fresh interpreter', 'input': describe(da)}
    mon.meta = dict(meta, program='fresh interpreter', step='the call in the worker process')
    try:
        mine = scn.convert(da, origin, tgt, scatter)
    except Exception:  # noqa: BLE001  judged by the monitor
        return
    module = FRESH_MODULES[k % len(FRESH_MODULES)]
    try:
        ns = {}
        exec(REPORT_SRC, ns)  # noqa: S102  the same few lines that the subprocess runs
        c = da.bins.constituents
        spec = {'module': module, 'origin': origin, 'target': tgt, 'scatter': bool(scatter), 'report_src': REPORT_SRC,
                'begin': _var_spec(c['begin']), 'end': _var_spec(c['end']), 'dim': c['dim'],
                'table': {'data': _var_spec(c['data'].data), 'coords': {str(n): _var_spec(v) for n, v in c['data'].coords.items()},
                          'masks': {str(n): _var_spec(v) for n, v in c['data'].masks.items()}},
                'coords': {str(n): _var_spec(v) for n, v in da.coords.items()},
                'masks': {str(n): _var_spec(v) for n, v in da.masks.items()}}
        want_input = ns['report'](da, da)
        want = ns['report'](mine, da)
        with tempfile.TemporaryDirectory(prefix='rv-c06-fresh-') as tmp:
            path = os.path.join(tmp, 'input.json')
            with open(path, 'w') as f:
                json.dump(spec, f)
            p = subprocess.run([sys.executable, '-c', FRESH_SCRIPT, path], capture_output=True, text=True, timeout=300,  # noqa: S603
                               env=dict(os.environ), cwd=tmp)
        doc = json.loads(p.stdout.strip().splitlines()[-1])
    except Exception:  # noqa: BLE001  (time-out, no JSON: the harness, not the package)
        ctx.oracle_error('C06 fresh interpreter (harness)')
        return
    src = os.path.realpath(os.environ.get('RV_REPO_SRC', '/repo/src'))
    if doc['stage'] == 'setup' or (doc['stage'] == 'done' and (
            doc['input_as_built'] != want_input or doc['preloaded']
            or not os.path.realpath(doc['file'] or '').startswith(src + os.sep))):
        # the input did not arrive as it was sent / not the tree under test / not a fresh state: nothing to judge
        ctx.oracle_error('C06 fresh interpreter (set-up of the subprocess)')
        return
    ctx.event('first call in a fresh interpreter')
    ctx.hit('fresh interpreter: import ' + module)
    if doc['stage'] != 'done':
        ctx.violation('fresh_interpreter', f'in a fresh interpreter that imports only {module}, the first convert() fails at '
                      f'stage {doc["stage"]!r}: {doc["error"]}', dict(case, module=module, trace=doc.get('trace')),
                      stage=doc['stage'])
        return
    if not doc['input_unchanged']:
        ctx.violation('input_modified', 'the first convert() of a fresh interpreter modified its binned input',
                      dict(case, module=module), via='fresh interpreter')
    if doc['result'] != want:
        diff = sorted(set(doc['result']) ^ set(want)) + sorted(n for n in want if n in doc['result'] and doc['result'][n] != want[n])
        ctx.violation('fresh_interpreter', f'the first convert() of a fresh interpreter that imports only {module} gives '
                      f'another result than the same call in the worker process (differs: {", ".join(diff)})',
                      dict(case, module=module), stage='result')


def graph_route(scn, mon, ctx, k, da, origin, tgt, scatter, meta):
    """The same conversion without convert(): transform_coords with the graphs / kernels the package documents."""
    from scippneutron.conversion import graph as GR
    from scippneutron.conversion import tof as KT
    route = k % 3
    if route == 0:
        how = 'transform_coords(deduce_conversion_graph(...))'
        fn = lambda: da.transform_coords(tgt, graph=scn.deduce_conversion_graph(da, origin, tgt, scatter))  # noqa: E731
    elif route == 1:
        mode = ('direct_inelastic' if 'incident_energy' in da.coords else 'indirect_inelastic') if tgt == 'energy_transfer' else 'elastic'
        how = 'transform_coords(conversion_graph(...))'
        fn = lambda: da.transform_coords(tgt, graph=scn.conversion_graph(origin, tgt, scatter, mode))  # noqa: E731
    else:
        # the kernels as nodes of a user's own graph: every parameter of a node is looked up as a coordinate
        kern = {('tof', 'wavelength'): KT.wavelength_from_tof, ('tof', 'energy'): KT.energy_from_tof,
                ('tof', 'dspacing'): KT.dspacing_from_tof, ('wavelength', 'energy'): KT.energy_from_wavelength,
                ('wavelength', 'dspacing'): KT.dspacing_from_wavelength, ('wavelength', 'Q'): KT.Q_from_wavelength,
                ('tof', 'Q'): KT.Q_from_wavelength,
                ('tof', 'energy_transfer'): (KT.energy_transfer_direct_from_tof if 'incident_energy' in da.coords
                                             else KT.energy_transfer_indirect_from_tof)}[(origin, tgt)]
        g = {**GR.beamline.beamline(scatter=True), tgt: kern}
        if (origin, tgt) == ('tof', 'Q'):
            g['wavelength'] = KT.wavelength_from_tof
        how = "transform_coords(user graph with the package's kernels as nodes)"
        fn = lambda: da.transform_coords(tgt, graph=g)  # noqa: E731
    ctx.hit('route:' + how)
    mon.meta = dict(meta, program='graph route')
    mon.observe(da, origin, tgt, scatter, fn, how)


def forced_programs(index):
    """Deterministic part of every shard beyond the single-call sweeps of forced_cases()."""
    out = []
    for j in range(4):
        # half of the targets per shard (all of them in any two neighbouring shards)
        t = RECONVERT_TARGETS[(4 * index + j) % len(RECONVERT_TARGETS)]
        out.append({'program': 'reconvert', 'target': t, 'layout': RECONVERT_LAYOUTS[(j + index) % len(RECONVERT_LAYOUTS)],
                    'dataset': (j + index // 2) % 2 == 0})
    names = list(RESERVED)
    for j, (t, name) in enumerate(BYSTANDER_FIXED):
        out.append({'program': 'bystander', 'target': t, 'layout': ['1d', 'some_empty', '2d'][(j + index) % 3],
                    'bystander': {'names': [name], 'kind': 'unrelated'}, 'dataset': (j + index) % 4 == 0})
    for j, name in enumerate(names):
        # every reserved name (half of them per shard), with the first conversion (rotating with the shard) that does
        # not read / produce it
        if (j + index) % 2:
            continue
        convs = [BYSTANDER_CONVERSIONS[(j + index + i) % len(BYSTANDER_CONVERSIONS)] for i in range(len(BYSTANDER_CONVERSIONS))]
        out.append({'program': 'bystander', 'targets': convs, 'layout': ['1d', 'some_empty', '2d', 'gaps'][(j + index) % 4],
                    'geom': ['positions', 'reduced', 'beams'][(j + index) % 3],
                    'bystander': {'names': [name], 'kind': 'unrelated'}})
    for j, (t, g, nm) in enumerate(SHADOW_CASES):
        out.append({'program': 'bystander', 'target': t, 'geom': g, 'layout': ['1d', '2d', 'some_empty'][(j + index) % 3],
                    'bystander': {'names': nm[(index % len(nm)):] + nm[:(index % len(nm))], 'kind': 'shadow'}})
    for j, t in enumerate(VARIANCE_TARGETS):
        out.append({'program': 'single', 'target': t, 'ev_variances': True,
                    'layout': ['1d', '2d', 'some_empty', 'permuted'][(j + index) % 4], 'hit': 'variances x ' + target_label(t)})
    for j in range(3):
        nm = PIXEL_DIMS[(3 * index + j) % len(PIXEL_DIMS)]
        out.append({'program': 'single', 'target': DIM_TARGETS[(j + index) % len(DIM_TARGETS)], 'pixel_dim': nm,
                    'layout': ['1d', '2d', 'some_empty'][(j + index) % 3]})
    out.append({'program': 'single', 'target': DIM_TARGETS[index % len(DIM_TARGETS)], 'buffer_dim': BUFFER_DIMS[index % len(BUFFER_DIMS)],
                'layout': ['2d', '1d'][(index // 2) % 2]})
    for j, t in enumerate([('tof', 'wavelength'), ('tof', 'dspacing'), ('tof', 'energy'), ('wavelength', 'Q'),
                           ('tof', 'energy_transfer:direct'), ('tof', 'energy_transfer:indirect')]):
        out.append({'program': 'graph', 'target': t, 'layout': ['2d', '1d', 'some_empty'][(j + index) % 3], 'route': j + index,
                    # the graph is deduced from the same data: bystanders with reserved names here too
                    **({'bystander': {'names': ['final_energy' if 'direct' in t[1] else 'incident_energy'], 'kind': 'unrelated'}}
                       if t[1].startswith('energy_transfer') else
                       {'bystander': {'names': ['L2', 'incident_energy', 'dspacing'][(j + index) % 3:] + ['energy_transfer'],
                                      'kind': 'unrelated'}})})
    for j in range(2):
        out.append({'program': 'after_exception', 'target': RECONVERT_TARGETS[(j + index) % len(RECONVERT_TARGETS)],
                    'layout': ['2d', '1d'][j]})
    # round 7: aliasing of result and argument / in-place modification between two calls; every (placement, target) pair
    # within any 8 neighbouring shards
    pairs = alias_pairs()
    for j in range(ALIAS_PER_SHARD):
        e = ALIAS_PER_SHARD * index + j
        pl, t = pairs[e % len(pairs)]
        out.append({'program': 'aliasing', 'target': t, 'geom': 'positions', 'placement': pl,
                    'layout': ALIAS_LAYOUTS[e % len(ALIAS_LAYOUTS)], 'modification': MODIFICATIONS[(e + e // 4) % len(MODIFICATIONS)],
                    'dataset': e % 5 == 4, 'hit': alias_label(pl, t)})
    for j, g in enumerate(('beams', 'reduced')):
        out.append({'program': 'aliasing', 'target': [('tof', 'dspacing'), ('tof', 'Q'), ('tof', 'energy_transfer:direct'),
                                                      ('wavelength', 'dspacing')][(index + j) % 4], 'geom': g,
                    'layout': ALIAS_LAYOUTS[(index + j + 1) % len(ALIAS_LAYOUTS)],
                    'modification': MODIFICATIONS[(index + j) % len(MODIFICATIONS)], 'hit': 'aliasing: geometry as ' + g})
    # names outside NFC / NFKC for everything the conversion has nothing to do with (event / pixel coordinate, event /
    # pixel mask, pixel dimension): they come through code point by code point
    for j in range(2):
        i0 = 2 * index + j
        nm = {key: ODD_NAMES[(i0 + d) % len(ODD_NAMES)] for d, key in enumerate(('ev', 'px', 'evmask', 'pxmask', 'dim'))}
        out.append({'program': 'single', 'target': ELASTIC_ROT[(index + j) % len(ELASTIC_ROT)], 'names': nm,
                    'layout': ['2d', '1d', 'gaps', 'transposed'][(index + j) % 4], 'odd_names': True})
    # dimension lengths next to the lengths scipp / the kernels use internally (3 components of a vector, 2 of a range)
    for j, n in enumerate((2, 3, 4)):
        out.append({'program': 'single', 'target': [('tof', 'hkl:'), ('tof', 'dspacing'), ('tof', 'geom:scattered_beam'),
                                                    ('tof', 'energy_transfer:indirect')][(index + j) % 4],
                    'geom': 'positions', 'layout': ['2d', '1d', 'transposed'][(index + j) % 3], 'npix': n,
                    'nt': (2, 3, 4)[(index + j + 1) % 3], 'bin_size': (2, 3, 4)[(index + 2 * j) % 3],
                    'hit': f'pixel dimension of length {n}'})
    # round 8: where the origin lives x every elastic pair (+ inelastic, without scattering); dense-only also inside a
    # Dataset next to an ordinary event item
    for j, t in enumerate(ORIGIN_TARGETS):
        for a, at in enumerate(ORIGIN_AT):
            if at != 'dense' and (j + index) % 2:
                continue      # 'events' / 'both' existed before as random draws: half of the pairs per shard
            out.append({'program': 'single', 'target': t, 'origin_at': at, 'grid': True,
                        'layout': ORIGIN_LAYOUTS[(j + a + index) % len(ORIGIN_LAYOUTS)],
                        'dense_kind': DENSE_KINDS[(j + index + a) % 2], 'hit': origin_label(at, t)})
    for j in range(3):
        out.append({'program': 'single', 'target': ORIGIN_TARGETS[(3 * index + j) % len(ORIGIN_TARGETS)], 'origin_at': 'dense',
                    'grid': True, 'layout': ORIGIN_LAYOUTS[(j + index + 1) % len(ORIGIN_LAYOUTS)], 'dataset': True,
                    'dense_kind': DENSE_KINDS[(j + index) % 2]})
    out.append({'program': 'fresh', 'target': FRESH_TARGETS[index % len(FRESH_TARGETS)], 'geom': 'positions',
                'placement': ALIAS_PLACEMENTS[index % 2 * 3], 'layout': ['2d', '1d'][index % 2], 'npix': 3, 'nt': 2})
    return out


# decomposed accent, ANGSTROM / KELVIN / OHM / MICRO SIGN, fullwidth letters (NFKC: 'tof'), ligature (NFKC: 'final_energy'),
# conjoining jamo, Greek question mark (NFC: ';')
ODD_NAMES = ['e\u0301nergie', '\u212bngstrom', '\u212a', '\u2126', '\u00b5s', '\uff54\uff4f\uff46', '\ufb01nal_energy',
             '\u1112\u1161\u11ab', 'tof\u037e']
FRESH_TARGETS = [('tof', 'dspacing'), ('tof', 'energy_transfer:direct'), ('tof', 'wavelength'), ('wavelength', 'Q'),
                 ('tof', 'energy_transfer:indirect'), ('tof', 'energy'), ('tof', 'Q'), ('tof', 'wavelength:noscatter')]


HEAVY = [(3, 2 ** 20 + 7), (3, 3 * 400001)]      # (pixels, events): one conversion each, on a shard of its own


def plan(tier, seed):
    n = 8 if tier == 'quick' else 16
    return [{'cases': 300 if tier == 'quick' else 6000} for _ in range(n)] + [{'kind': 'heavy', 'cases': len(HEAVY)}]


def requirements(tier):
    return {'events': {'convert(binned)': 200, 'twin': 200, 'edges': 10, 'gravity_twin': 50, 'pixel_twin': 500, 'nan_rule': 10,
                       'geometry_twin': 20, 'definition': 200, 'inelastic_definition': 50, 'geometry_definition': 20,
                       'qvec_definition': 20, 'dataset item': 20, 'bystander event coordinate judged': 50,
                       'event coordinate shadowing a dense one': 8, 'twin variances': 20, 'definition variances': 20,
                       'second use of the same input': 20, 're-conversion result': 20, 'refused request': 8,
                       'heavy conversion': len(HEAVY),
                       'write into a computed coordinate of the result': 200,
                       'conversion repeated after writes into the result': 60, 'write into the argument after the call': 40,
                       'conversion of the same object after an in-place change': 40,
                       'first call in a fresh interpreter': 6,
                       'origin only as a dense coordinate: events untouched': 60,
                       'dense origin coordinate (dense only)': 60, 'dense origin coordinate (next to the event coordinate)': 60,
                       'dense origin coordinate: definition': 60},
            'forced': ['layout:' + x for x in LAYOUTS] + ['evdtype:float32', 'evdtype:int64', 'mode:direct', 'mode:indirect']
            + ['gravity wavelength unit:' + u for u in ('angstrom', 'nm', 'm')]
            + ['binned gravity with per-pixel incident beams', 'hkl-family target',
               'elastic target with bystander energy coordinates', 'elastic target with bystander energy coordinates (both)',
               'geometry target on binned data', 'conversion without scattering on binned data']
            + [frame_class('positions', f, p) for f in FRAMES for p in PLACEMENTS]
            + [frame_class('beams', f) for f in FRAMES]
            + ['frame sweep target:' + target_label(t) for t in FRAME_TARGETS]
            + [f'layout:{x} x {t}' for x in NONCOMPACT
               for t in ('energy_transfer:direct', 'energy_transfer:indirect', 'elastic target')]
            # round 6
            + ['re-conversion: same target', 're-conversion: another target',
               'chained conversion: result fed back with its target as origin',
               're-conversion: target that the first call may have left as a by-product',
               'display / copy / comparison of a result between two conversions',
               'container:Dataset', 'container:Dataset with a dense item', 're-conversion of a Dataset',
               'bystander event coordinate with a reserved name', 'event coordinate shadowing the dense one',
               'bystander event coordinate in a Dataset',
               'masks along the origin dimension and on the 2-d grid', 'event coordinate with variances',
               'pixel dimension named like an internal / coordinate name', 'conversion repeated after a refused request',
               'heavy: 1048583 events', 'heavy: 1200003 events']
            + ['re-conversion x ' + target_label(t) for t in RECONVERT_TARGETS]
            # round 7
            + [alias_label(pl, t) for pl, t in alias_pairs()]
            + ['aliasing: geometry as beams', 'aliasing: geometry as reduced', 'aliasing: Dataset']
            + ['in-place modification between two calls: ' + m for m in MODIFICATIONS]
            + ['names outside NFC / NFKC for unrelated coordinates, masks and the pixel dimension']
            + ['name outside NFC / NFKC:' + ascii(n) for n in ODD_NAMES]
            + [f'pixel dimension of length {n}' for n in (2, 3, 4)] + [f'every bin with exactly {n} events' for n in (2, 3, 4)]
            + ['fresh interpreter: import ' + m for m in FRESH_MODULES]
            # round 8
            + [origin_label(at, t) for at in ORIGIN_AT for t in ORIGIN_TARGETS]
            + ['origin only as a dense coordinate: ' + k for k in DENSE_KINDS]
            + ['origin only as a dense coordinate x layout:' + x for x in ORIGIN_LAYOUTS]
            + ['Dataset mixing an item without event-level origin with an ordinary event item',
               'Dataset mixing: item without event-level origin first', 'Dataset mixing: item without event-level origin last']
            + ['bystander event coordinate:' + n for n in RESERVED]
            + [f'bystander {n} x {target_label(t)}' for t, n in BYSTANDER_FIXED]
            + ['variances x ' + target_label(t) for t in VARIANCE_TARGETS]
            + ['pixel dimension named:' + n for n in PIXEL_DIMS] + ['event-buffer dimension named:' + n for n in BUFFER_DIMS]
            + ['call:' + c for c in CONVENTIONS] + ['argument type:' + a for a in ARGTYPES]
            + ['scatter given as bool', 'scatter given as np.bool_']
            + ['route:transform_coords(deduce_conversion_graph(...))', 'route:transform_coords(conversion_graph(...))',
               "route:transform_coords(user graph with the package's kernels as nodes)"],
            'counters': {'events_compared': 10000, 'definition events judged': 10000}}


def run_heavy(shard, ctx, scn, mon, tr):
    """Sizes beyond any block / chunk size an implementation may have: one conversion each."""
    with tr:
        for k, (npix, nev) in enumerate(HEAVY):
            rng = np.random.Generator(np.random.PCG64([shard['seed'], 1000 + k, 6]))
            sizes = rng.multinomial(nev, rng.dirichlet(np.ones(npix)))
            end = np.cumsum(sizes)
            target = [('tof', 'dspacing', None), ('tof', 'energy_transfer', 'direct')][(k + shard['seed']) % 2]
            tab = sc.DataArray(sc.array(dims=['event'], values=rng.random(nev), variances=rng.random(nev), unit='counts'),
                               coords={'tof': sc.array(dims=['event'], values=rng.uniform(500.0, 50000.0, size=nev), unit='us'),
                                       'unrelated_ev': sc.arange('event', nev, unit=None)},
                               masks={'evmask': sc.array(dims=['event'], values=rng.random(nev) < 0.2)})
            coords = {'source_position': sc.vector([0.0, 0.0, -float(rng.uniform(5, 50))], unit='m'),
                      'sample_position': sc.vector([0.0, 0.0, 0.0], unit='m'),
                      'position': sc.vectors(dims=['pixel'], values=rng.normal(size=(npix, 3)) * 2 + [0, 0.3, 1.0], unit='m'),
                      'unrelated_px': sc.array(dims=['pixel'], values=rng.random(npix), unit='K')}
            if target[2]:
                coords['incident_energy'] = sc.scalar(float(rng.uniform(5, 500)), unit='meV')
            da = sc.DataArray(sc.bins(begin=sc.array(dims=['pixel'], values=end - sizes, unit=None, dtype='int64'),
                                      end=sc.array(dims=['pixel'], values=end, unit=None, dtype='int64'), dim='event', data=tab),
                              coords=coords, masks={'pxmask': sc.array(dims=['pixel'], values=rng.random(npix) < 0.3)})
            mon.meta = {'program': 'heavy', 'nevents': nev}
            ctx.hit(f'heavy: {nev} events')
            before = ctx.events.get('twin', 0)
            try:
                scn.convert(da, 'tof', target[1], scatter=True)
            except Exception:  # noqa: BLE001  judged by the monitor
                pass
            if ctx.events.get('twin', 0) > before:
                ctx.event('heavy conversion')
            ctx.case(('heavy', target[1], nev))


def run(shard, ctx):
    import scippneutron as scn
    from scippneutron.core import conversions as CV

    rng = np.random.Generator(np.random.PCG64([shard['seed'], shard['index'], 6]))
    mon = Monitor(ctx, scn)
    tr = Tracer()
    tr.watch(CV.convert, 'convert', on_start=mon.on_start, on_return=mon.on_return)
    if shard.get('kind') == 'heavy':
        run_heavy(shard, ctx, scn, mon, tr)
        return
    from scippneutron.conversion import beamline as KB
    gmon = GravityMonitor(ctx, KB)
    for nm in ('scattering_angles_with_gravity', 'scattering_angle_in_yz_plane'):
        tr.watch(getattr(KB, nm), nm, on_start=gmon.on_start, on_return=gmon.make(nm))
    with tr:
        for i in range(max(4, shard['cases'] // 4)):
            kw, tilt, sig = gen_gravity(rng, ctx)
            gmon.meta = {'family': 'gravity', 'tilt': tilt}
            ctx.hit('gravity wavelength unit:' + sig[2])
            for nm in (('scattering_angles_with_gravity',) if tilt else
                       ('scattering_angles_with_gravity', 'scattering_angle_in_yz_plane')):
                try:
                    getattr(KB, nm)(**kw)
                except Exception:  # noqa: BLE001  judged by the monitor
                    pass
                ctx.case((nm, *sig))
        forced = forced_cases(shard['index']) + forced_programs(shard['index'])
        for i in range(shard['cases']):
            force = forced[i] if i < len(forced) else None
            if force and 'targets' in force:
                # the first conversion of the list for which the named event coordinate is a bystander
                da = None
                for t in force['targets']:
                    probe = np.random.Generator(np.random.PCG64([shard['seed'], shard['index'], 6, i]))
                    if t[1] == 'hkl:' and force['geom'] == 'reduced':
                        continue      # Q vectors need beams
                    da, origin, tgt, sig, meta = gen(probe, _NoCtx(), dict(force, target=t))
                    if meta.get('bystander'):
                        force = dict(force, target=t)
                        break
            da, origin, tgt, sig, meta = gen(rng, ctx, force)
            program = force.get('program') if force else None
            if force and not program:
                ctx.hit(force['hit'] if 'hit' in force else 'frame sweep target:' + target_label(force['target']))
            elif force and 'hit' in force:
                ctx.hit(force['hit'])
            scatter = not (meta['mode'] and 'noscatter' in meta['mode'])
            obj = da
            container = 'DataArray'
            if (force and force.get('dataset')) or (not force and rng.random() < 0.06):
                dense_item = bool(meta['edges']) and (i + shard['index']) % 2 == 0
                obj = as_dataset(da, origin, rng, dense_item)
                container = 'Dataset'
                ctx.hit('container:Dataset' + (' with a dense item' if dense_item else ''))
            oat = force.get('origin_at') if force else None
            if oat:
                meta = dict(meta, origin=ORIGIN_AT[oat])
                sig = ('origin ' + ORIGIN_AT[oat], *sig)
                if oat == 'dense':
                    slim = drop_event_origin(da, origin)
                    ctx.hit('origin only as a dense coordinate: ' + force['dense_kind'])
                    ctx.hit('origin only as a dense coordinate x layout:' + meta['layout'])
                    if container == 'Dataset':
                        # next to a measurement that still has its event-level origin, in either order
                        first = (i + shard['index']) % 2 == 0
                        rest = {k_: obj[k_] for k_ in obj.keys() if k_ != 'sample'}
                        obj = sc.Dataset({'sample': slim, **rest} if first else {**rest, 'sample': slim})
                        ctx.hit('Dataset mixing an item without event-level origin with an ordinary event item')
                        ctx.hit('Dataset mixing: item without event-level origin ' + ('first' if first else 'last'))
                    else:
                        obj = slim
            sig = (*sig, container)
            meta = dict(meta, container=container)
            mon.meta = meta
            ctx.hit('layout:' + meta['layout'])
            ctx.hit('evdtype:' + sig[4])
            if meta['mode']:
                ctx.hit('mode:' + meta['mode'])
            before = ctx.n_violations
            if program == 'reconvert':
                ctx.hit('re-conversion x ' + target_label(force['target']))
                if container == 'Dataset':
                    ctx.hit('re-conversion of a Dataset')
                reconversion_program(scn, mon, ctx, rng, i, shard['index'], obj, origin, tgt, scatter, meta)
                sig = ('re-conversion', *sig)
            elif program == 'graph':
                graph_route(scn, mon, ctx, force['route'], da, origin, tgt, scatter, meta)
                sig = ('graph route', force['route'] % 3, *sig)
            elif program == 'aliasing':
                aliasing_program(scn, mon, ctx, i, obj, origin, tgt, scatter, meta, force['modification'])
                if container == 'Dataset':
                    ctx.hit('aliasing: Dataset')
                sig = ('aliasing', force.get('placement'), force['modification'], *sig)
            elif program == 'fresh':
                fresh_interpreter_program(scn, mon, ctx, i + shard['index'], da, origin, tgt, scatter, meta)
                sig = ('fresh interpreter', *sig)
            else:
                if program == 'bystander' and meta.get('bystander'):
                    if force['bystander']['kind'] == 'unrelated' and 'targets' not in force:
                        ctx.hit(f'bystander {meta["bystander"]} x {target_label(force["target"])}')
                    if container == 'Dataset':
                        ctx.hit('bystander event coordinate in a Dataset')
                    sig = ('bystander', force['bystander']['kind'], meta['bystander'], *sig)
                if force and force.get('odd_names'):
                    ctx.hit('names outside NFC / NFKC for unrelated coordinates, masks and the pixel dimension')
                    for nm_ in force['names'].values():
                        ctx.hit('name outside NFC / NFKC:' + ascii(nm_))
                    sig = ('odd names', *sig)
                if force and force.get('bin_size'):
                    ctx.hit(f'every bin with exactly {force["bin_size"]} events')
                    sig = ('sizes', force['npix'], force['bin_size'], *sig)
                if program == 'after_exception':
                    # a request the derivation model refuses (no rule makes this target), caught; then the real one
                    mon.expect_refusal = True
                    try:
                        call_convert(scn, ctx, i, obj, origin, ['no_such_coordinate', 'tof_', 'Wavelength'][(i + shard['index']) % 3], scatter)
                    except Exception:  # noqa: BLE001  counted by the monitor
                        pass
                    mon.expect_refusal = False
                    ctx.hit('conversion repeated after a refused request')
                    sig = ('after a refused request', *sig)
                try:
                    call_convert(scn, ctx, i, obj, origin, tgt, scatter)
                except Exception:  # noqa: BLE001  judged by the monitor
                    pass
            ctx.case(sig, trivial=(meta['nevents'] == 0 and meta['layout'] != 'all_empty'))
            if i < 2 or (ctx.n_violations > before and len(ctx.samples) < 5):
                ctx.sample({'signature': sig, **meta, 'input': describe(obj)})


class _NoCtx:
    def hit(self, *a, **k):
        pass


TECHNIQUE = ('runtime monitors (sys.monitoring) on convert() and on the gravity kernels for binned data: before/after '
             'fingerprints of the binned input and its parts; differential against the dense conversion of the flat '
             'per-event twin and of each pixel on its own, bit for bit; independent long-double definitions per event '
             '(elastic closed forms with L1/L2/two_theta from positions or beams, energy balance and NaN rule for '
             'inelastic targets, Q vector, geometry targets); which coordinates a conversion reads (everything else must '
             'come through unchanged and is left out of the twins) is decided by the derivation model rv.oracle.convgraph; '
             'call-sequence programs (re-conversion, chaining, second use, in-place change of the argument between two '
             'calls) judged call by call; memory-sharing test of every computed coordinate of the result against the '
             'argument (write, re-read, re-convert); bit-for-bit comparison with the first call of a fresh interpreter')
LEVEL_TEXT = ('exploration: for every observed convert() call on binned data the monitor rebuilds two dense twins '
              '(flat event buffer with pixel geometry gathered per event; each pixel alone with scalar geometry) and '
              'requires the event coordinate of the result to equal the dense result bit for bit, the bin-edge '
              'coordinate to equal the dense conversion of the edges, NaN exactly for tof <= an independently computed '
              't0 (inelastic targets), every event value (wavelength, energy, dspacing, Q, Q-vector components, energy '
              'transfer) and every geometry coordinate to equal its definition evaluated in long double from the event '
              "coordinate and the pixel's positions / beams / reduced geometry (1e-11, float32 1e-5; energy transfer "
              'within the forward bound of its definition; angles below 1e-3 rad not judged), and weights, variances, event order, bin membership, masks, unrelated coordinates '
              'and the input object to be unchanged (fingerprints). The gravity kernels with binned wavelength are '
              'judged the same way (4 eps when beams vary per pixel). Unrelated = every coordinate (event or dense, '
              'whatever its name) that the derivation model does not list as read or produced by the request. Variances of '
              'an event coordinate: bit-equal to the dense twin and equal to (p y / x)^2 var(x) for the elastic power '
              'laws (float32 results that are not finite are counted, not judged). Sampled layouts, not a proof.')
LEVEL_NOTE = ('trusted: the dense kernels for the bit-for-bit comparison (decided by C01/C03/C05), scipp binned '
              'containers, elementwise IEEE arithmetic being identical in binned and dense evaluation; numpy long double '
              'and rv.oracle.{si,geom} for the definitions; rv.oracle.convgraph (decided against the package by C02) '
              'for the set of coordinates a request reads')
DESIGN_REF = 'DESIGN.md section 4, C06'
