"""C07 Kernels are unit-equivariant and keep the documented dtype contract."""

from __future__ import annotations

import itertools
from fractions import Fraction

import numpy as np
import scipp as sc

from rv.oracle import si
from rv.snap import describe
from rv.trace import Tracer

ID = 'C07'
LEVEL = 'exploration'
RULE = (
    'per kernel: one physical point (exact rationals, partly integer-valued in coarse units so that integer '
    'cells are exact) re-expressed in every cell of the grid (unit per argument x dtype in {float64, float32, '
    'int64, int32} per argument); the canonical-unit float64 call of the same kernel is the baseline; quick = '
    'random sample of cells, thorough = the full Cartesian grid (capped per kernel, cap reported); distinct = '
    '(kernel, units, dtypes) cells; trivial = the canonical cell itself'
)
ASSUMPTIONS = [
    'the canonical-unit float64 result of each kernel is correct (decided by C01/C03/C04/C05/C08)',
    '"no more than rounding" is quantified as in C01: 1e-11 relative in double, 1e-5 when any operand is single '
    'precision, times the condition number of the definition',
    'integer cells are generated only where the value is an exact integer below 2^26 in that unit',
]
TOL64, TOL32 = 1e-11, 1e-5

# quantity kinds: list of (unit, exact factor to the canonical unit [first entry])
E_J = 1 / si.E_CHARGE  # J in eV
KINDS = {
    'time': [('us', Fraction(1)), ('ns', Fraction(1, 1000)), ('ms', Fraction(1000)), ('s', Fraction(10**6))],
    'length': [('m', Fraction(1)), ('mm', Fraction(1, 1000)), ('cm', Fraction(1, 100)), ('km', Fraction(1000)),
               ('angstrom', Fraction(1, 10**10))],
    'beam': [('m', Fraction(1)), ('mm', Fraction(1, 1000)), ('cm', Fraction(1, 100)), ('km', Fraction(1000))],
    'wavelength': [('angstrom', Fraction(1)), ('nm', Fraction(10)), ('pm', Fraction(1, 100)), ('m', Fraction(10**10))],
    'energy': [('meV', Fraction(1)), ('ueV', Fraction(1, 1000)), ('eV', Fraction(1000)), ('J', E_J * 1000)],
    'angle': [('rad', None), ('deg', None), ('arcmin', None), ('mrad', None)],
    'Q': [('1/angstrom', Fraction(1)), ('1/nm', Fraction(1, 10)), ('1/m', Fraction(1, 10**10))],
    'accel': [('m/s^2', Fraction(1)), ('mm/s^2', Fraction(1, 1000)), ('cm/s^2', Fraction(1, 100))],
}
DTYPES = ['float64', 'float32', 'int64', 'int32']
# Single precision has a narrow exponent range: a kernel's pre-multiplied constant expressed in extreme
# unit combinations (J, angstrom as a flight path, metres as a wavelength, seconds, 1/m) leaves it, which is
# overflow/underflow of float32 and not a defect.  Cells whose *data* operand is float32 are therefore only
# generated from these moderate units; everything else is counted as out of the float32 domain.
F32_DOMAIN = {
    'time': {'us', 'ms', 'ns'}, 'length': {'m', 'mm', 'cm', 'km'}, 'beam': {'m', 'mm', 'cm', 'km'},
    'wavelength': {'angstrom', 'nm', 'pm'}, 'energy': {'meV', 'ueV', 'eV'}, 'angle': {'rad', 'deg', 'arcmin', 'mrad'},
    'Q': {'1/angstrom', '1/nm'}, 'accel': {'m/s^2', 'mm/s^2', 'cm/s^2'},
}


class Arg:
    def __init__(self, name, kind, data=False, vector=False, lo=None, hi=None, dims=None):
        self.name, self.kind, self.data, self.vector = name, kind, data, vector
        self.lo, self.hi = lo, hi
        self.dims = dims  # None: 1-d 'x' array of points


class Spec:
    def __init__(self, name, mod, args, out, dtype_rule='data', cond=None, outputs=None, absolute=False):
        self.name, self.mod, self.args, self.out = name, mod, args, out
        self.dtype_rule, self.cond, self.outputs, self.absolute = dtype_rule, cond, outputs, absolute


def _u(x):
    return sc.Unit(x)


SPECS = [
    Spec('wavelength_from_tof', 'tof', [Arg('tof', 'time', data=True), Arg('Ltotal', 'length')], lambda u: _u('angstrom')),
    Spec('dspacing_from_tof', 'tof', [Arg('tof', 'time', data=True), Arg('Ltotal', 'length'), Arg('two_theta', 'angle')],
         lambda u: _u('angstrom')),
    Spec('energy_from_tof', 'tof', [Arg('tof', 'time', data=True), Arg('Ltotal', 'length')], lambda u: _u('meV')),
    Spec('energy_from_wavelength', 'tof', [Arg('wavelength', 'wavelength', data=True)], lambda u: _u('meV')),
    Spec('wavelength_from_energy', 'tof', [Arg('energy', 'energy', data=True)], lambda u: _u('angstrom')),
    Spec('Q_from_wavelength', 'tof', [Arg('wavelength', 'wavelength', data=True), Arg('two_theta', 'angle')],
         lambda u: _u('one') / _u(u['wavelength'])),
    Spec('wavelength_from_Q', 'tof', [Arg('Q', 'Q', data=True), Arg('two_theta', 'angle')], lambda u: _u('angstrom')),
    Spec('dspacing_from_wavelength', 'tof', [Arg('wavelength', 'wavelength', data=True), Arg('two_theta', 'angle')],
         lambda u: _u('angstrom')),
    Spec('dspacing_from_energy', 'tof', [Arg('energy', 'energy', data=True), Arg('two_theta', 'angle')],
         lambda u: _u('angstrom')),
    Spec('energy_transfer_direct_from_tof', 'tof',
         [Arg('tof', 'time', data=True), Arg('L1', 'length'), Arg('L2', 'length'), Arg('incident_energy', 'energy', data=True)],
         lambda u: _u(u['incident_energy']), cond='inelastic'),
    Spec('energy_transfer_indirect_from_tof', 'tof',
         [Arg('tof', 'time', data=True), Arg('L1', 'length'), Arg('L2', 'length'), Arg('final_energy', 'energy', data=True)],
         lambda u: _u(u['final_energy']), cond='inelastic'),
    Spec('Q_elements_from_wavelength', 'tof',
         [Arg('wavelength', 'wavelength', data=True), Arg('incident_beam', 'beam', vector=True), Arg('scattered_beam', 'beam', vector=True)],
         lambda u: _u('one') / _u(u['wavelength']), outputs=('Qx', 'Qy', 'Qz'), absolute='Q', dtype_rule=None),
    Spec('L1', 'beamline', [Arg('incident_beam', 'beam', vector=True)], lambda u: _u(u['incident_beam']), dtype_rule='f64'),
    Spec('L2', 'beamline', [Arg('scattered_beam', 'beam', vector=True)], lambda u: _u(u['scattered_beam']), dtype_rule='f64'),
    Spec('two_theta', 'beamline', [Arg('incident_beam', 'beam', vector=True), Arg('scattered_beam', 'beam', vector=True)],
         lambda u: _u('rad'), dtype_rule='f64', absolute='angle'),
    Spec('total_straight_beam_length_no_scatter', 'beamline',
         [Arg('source_position', 'beam', vector=True), Arg('position', 'beam', vector=True)],
         lambda u: _u(u['position']), dtype_rule='f64', cond='same_unit'),
    Spec('scattering_angles_with_gravity', 'beamline',
         [Arg('incident_beam', 'beam', vector=True), Arg('scattered_beam', 'beam', vector=True),
          Arg('wavelength', 'wavelength', data=True), Arg('gravity', 'accel', vector=True)],
         lambda u: _u('rad'), outputs=('two_theta', 'phi'), absolute='angle'),
    Spec('scattering_angle_in_yz_plane', 'beamline',
         [Arg('incident_beam', 'beam', vector=True), Arg('scattered_beam', 'beam', vector=True),
          Arg('wavelength', 'wavelength', data=True), Arg('gravity', 'accel', vector=True)],
         lambda u: _u('rad'), absolute='angle'),
    Spec('propagate_times', 'cascade',
         [Arg('time', 'time'), Arg('wavelength', 'wavelength'), Arg('distance', 'length')],
         lambda u: _u(u['time']), dtype_rule=None, absolute='time'),
    Spec('wavelength_to_inverse_velocity', 'cascade', [Arg('wavelength', 'wavelength')], lambda u: _u('s/m'),
         dtype_rule=None),
    # t_sample = t_pulse + tof - L2 lambda m_n / h: pulse time and time-of-flight are added as they are (scipp
    # refuses to add different units, that is its documented arithmetic), so they share one unit; the flight
    # path and the wavelength may come in any unit.  No dtype is documented for this kernel: values and units only.
    Spec('time_at_sample_from_tof', 'tof',
         [Arg('pulse_time', 'time'), Arg('tof', 'time', data=True), Arg('L2', 'length'), Arg('wavelength', 'wavelength')],
         lambda u: _u(u['tof']), dtype_rule=None, cond='same_time_unit', absolute='time_at_sample'),
]
SPEC_BY_NAME = {s.name: s for s in SPECS}


# --------------------------------------------------------- physical points ---
def draw_point(rng, spec, n=6):
    """Exact rational values per argument, in the canonical unit of its kind."""
    pt = {}
    for a in spec.args:
        if a.vector:
            continue
        # one scale class per argument and point: integers in the coarsest / the canonical / a fine unit
        # (so that integer cells are exact in several units), or dyadic fractions (float cells only)
        scales = {
            'time': [10**6, 1000, 1], 'length': [1000, 1, Fraction(1, 100)], 'wavelength': [10, 1, Fraction(1, 100)],
            'energy': [1000, 1, Fraction(1, 1000)], 'Q': [1, Fraction(1, 10), Fraction(1, 10)],
        }
        r = rng.random()
        vals = []
        for _ in range(n):
            if a.kind == 'angle':
                vals.append(Fraction(int(rng.integers(1, 180))))  # integer degrees
            elif r < 0.8:
                vals.append(Fraction(int(rng.integers(1, 60))) * scales[a.kind][int(r / 0.8 * 3)])
            else:
                vals.append(Fraction(int(rng.integers(1, 10**5)), 64) * scales[a.kind][1])
        pt[a.name] = vals
    return pt


def draw_vectors(rng, spec, n, point_index=0):
    """Beam geometry (float64, metres) for vector arguments; exactly perpendicular g for the yz variant."""
    out = {}
    names = [a.name for a in spec.args if a.vector]
    if not names:
        return out
    if 'gravity' in names:
        out['gravity'] = np.array([0.0, -9.8125, 0.0])
        # alternate between the two implementations (perpendicular / tilted incident beam) point by point
        tilt = 0.0 if spec.name == 'scattering_angle_in_yz_plane' or point_index % 2 == 0 else 0.25
        out['incident_beam'] = np.array([0.0, 8.0 * np.sin(tilt), 8.0 * np.cos(tilt)]) if tilt else np.array([0.0, 0.0, 8.0])
        d = rng.normal(size=(n, 3))
        d[:, 2] = np.abs(d[:, 2]) + 0.5
        d[:, 0] += 0.5
        out['scattered_beam'] = np.round(d * 4, 3)
        return out
    for nm in names:
        v = np.round(rng.normal(size=(n, 3)) * 5 + 1, 3)
        out[nm] = v
    return out


def express(value: Fraction, kind, unit, dtype):
    """Value of the physical quantity in (unit, dtype); None if the cell cannot hold it exactly enough."""
    if kind == 'angle':
        # the physical value is a whole number of degrees; deg and arcmin hold it exactly (also as integers)
        per_deg = {'deg': 1, 'arcmin': 60}.get(unit)
        if dtype.startswith('int'):
            if per_deg is None:
                return None
            return int(value * per_deg)
        if per_deg is not None:
            return float(value * per_deg)
        return float(si.ld(value) * si.PI / 180 / si.factor(sc.Unit(unit)))
    f = dict(KINDS[kind])[unit]
    q = value / f
    if dtype.startswith('int'):
        if q.denominator != 1 or not (0 < q.numerator < 2**26):
            return None
        return int(q)
    return float(si.ld(q))


def make_var(vals, unit, dtype, vector=False, scalar=False, dim='x'):
    if vector:
        arr = np.asarray(vals, dtype=np.float64)
        return sc.vector(arr, unit=unit) if arr.ndim == 1 else sc.vectors(dims=['x'], values=arr, unit=unit)
    return sc.array(dims=[dim], values=np.asarray(vals), unit=unit, dtype=dtype)


class Monitor:
    def __init__(self, ctx):
        self.ctx = ctx
        self.expect = None

    def handler(self, name):
        def h(ev):
            ex = self.expect
            if ex is None or ex['kernel'] != name or ev.depth != 0:
                return
            self.expect = None
            ex['judge'](ev)
        return h


def out_values(spec, res):
    if spec.outputs:
        return {k: res[k] for k in spec.outputs}
    return {'': res}


def phys(var):
    """Physical values of a result variable in SI (long double)."""
    return np.asarray(var.values).astype(si.LD) * si.factor(var.unit)


def inelastic_cond(kind, kw):
    """t/(t-t0) scale for the absolute bound of the energy-transfer kernels (from the canonical call)."""
    m = si.constants()['m_n']
    t = phys(kw['tof'])
    if kind == 'direct':
        E, Lf, Lo = phys(kw['incident_energy']), phys(kw['L1']), phys(kw['L2'])
    else:
        E, Lf, Lo = phys(kw['final_energy']), phys(kw['L2']), phys(kw['L1'])
    t0 = Lf * np.sqrt(m / (2 * E))
    other = m * Lo**2 / (2 * (t - t0) ** 2)
    return t, t0, E, other


def run_kernel_grid(rng, ctx, spec, fn, cells, tier, mon, point_index=0):
    n = 6
    pt = draw_point(rng, spec, n)
    vecs = draw_vectors(rng, spec, n, point_index)
    # inelastic: keep arrival well above t0 so that the definition is well conditioned (cond <= ~5)
    if spec.cond == 'inelastic':
        m = si.constants()['m_n']
        fixed = 'incident_energy' if 'incident_energy' in pt else 'final_energy'
        Lf = 'L1' if fixed == 'incident_energy' else 'L2'
        for i in range(n):
            E = si.ld(pt[fixed][i]) * si.ld(si.E_CHARGE) / 1000
            t0_us = float(si.ld(pt[Lf][i]) * np.sqrt(m / (2 * E)) * 1e6)
            k = int(np.ceil(t0_us * float(rng.uniform(1.5, 6.0)))) + 1
            pt['tof'][i] = Fraction(k)
    canon_units = {a.name: KINDS[a.kind][0][0] for a in spec.args}

    def build(units, dtypes):
        kw = {}
        for a in spec.args:
            u, dt = units[a.name], dtypes[a.name]
            if a.vector:
                f = dict(KINDS[a.kind])[u]
                kw[a.name] = make_var(vecs[a.name] / float(f), u, 'float64', vector=True)
                continue
            vals = [express(v, a.kind, u, dt) for v in pt[a.name]]
            if any(v is None for v in vals):
                return None
            # gravity kernels: every other pair of points gives the wavelength its own dimension, so that
            # the result is 2-d (detector x wavelength) and the out-of-place broadcasting branch runs
            own_dim = a.name == 'wavelength' and 'gravity' in vecs and (point_index // 2) % 2 == 1
            kw[a.name] = make_var(vals, u, dt, dim='w' if own_dim else 'x')
        return kw

    base_kw = build(canon_units, {a.name: 'float64' for a in spec.args})
    base = fn(**base_kw)
    base_out = {k: phys(v) for k, v in out_values(spec, base).items()}
    if spec.cond == 'inelastic':
        t, t0, E, other = inelastic_cond('direct' if 'incident_energy' in base_kw else 'indirect', base_kw)
        abs_scale = np.maximum(np.abs(E), np.abs(other)) * np.abs(t / (t - t0))
    elif spec.absolute == 'angle':
        abs_scale = si.LD(1)
    elif spec.absolute == 'Q':
        abs_scale = 2 * si.PI / phys(base_kw['wavelength'])
    elif spec.absolute == 'time':
        abs_scale = np.abs(phys(base_kw['time'])) + np.abs(base_out[''])
    elif spec.absolute == 'time_at_sample':
        abs_scale = np.abs(phys(base_kw['pulse_time'])) + np.abs(phys(base_kw['tof'])) + np.abs(base_out[''])
    else:
        abs_scale = None

    for units, dtypes in cells:
        if spec.cond == 'same_unit':
            units = dict(units)
            units['source_position'] = units['position']
        if spec.cond == 'same_time_unit':
            units = dict(units)
            units['pulse_time'] = units['tof']
        if any(dtypes[a.name] == 'float32' for a in spec.args if a.data) and any(
                units[a.name] not in F32_DOMAIN[a.kind] for a in spec.args):
            ctx.count('cells out of the float32 domain (extreme unit with single-precision data)')
            continue
        kw = build(units, dtypes)
        sig = (spec.name, tuple(units[a.name] for a in spec.args), tuple(dtypes[a.name] for a in spec.args))
        if kw is None:
            ctx.count('cells skipped: value not an exact small integer in that unit')
            continue
        if spec.name == 'time_at_sample_from_tof' and any(
                dtypes[n] == 'int32' and np.max(np.abs(np.asarray(kw[n].values, dtype=np.float64))) >= 46341
                for n in ('L2', 'wavelength', 'tof', 'pulse_time')):
            # the property quantifies over integer operands whose squares are representable: an int32
            # operand of 46341 or more is outside it (this kernel multiplies two operands as they are)
            ctx.count('cells outside the quantifier: int32 operand whose square is not representable')
            continue
        # re-expressing a float32 operand in another unit is itself only exact to single precision, so any
        # float32 operand sets the comparison to single precision here (C01/C05 judge mixed-precision
        # accuracy against the definition at the actual input values)
        any32 = any(dtypes[a.name] == 'float32' for a in spec.args if not a.vector)
        tol = TOL32 if any32 else TOL64
        data_args = [a for a in spec.args if a.data]
        if spec.dtype_rule == 'data':
            want_dtype = sc.DType.float32 if data_args and all(dtypes[a.name] == 'float32' for a in data_args) else sc.DType.float64
        elif spec.dtype_rule == 'f64':
            want_dtype = sc.DType.float64
        else:
            want_dtype = None
        want_unit = spec.out(units)
        case = {'kernel': spec.name, 'units': units, 'dtypes': dtypes}

        def judge(ev, case=case, tol=tol, want_dtype=want_dtype, want_unit=want_unit, sig=sig, kw=kw, any32=any32):
            if ev.exc is not None:
                if isinstance(ev.exc, sc.DTypeError) and any(d == 'int32' for d in case['dtypes'].values()):
                    ctx.count('cells unsupported by scipp (DTypeError with int32)')
                    return
                ctx.violation('raised', f'{spec.name} raised {type(ev.exc).__name__}: {ev.exc}',
                              dict(case, args={k: describe(v) for k, v in kw.items()}), kernel=spec.name,
                              exc=type(ev.exc).__name__, int_operand=any(d.startswith('int') for d in case['dtypes'].values()))
                return
            ctx.event(spec.name)
            try:
                outs = out_values(spec, ev.result)
                for key, var in outs.items():
                    label = spec.name + (f'[{key}]' if key else '')
                    if var.unit != want_unit:
                        ctx.violation('unit', f'{label}: output unit {var.unit}, documented {want_unit}', case,
                                      kernel=spec.name)
                        return
                    if want_dtype is not None and var.dtype != want_dtype:
                        ctx.violation('dtype', f'{label}: output dtype {var.dtype}, contract says {want_dtype}', case,
                                      kernel=spec.name, got=str(var.dtype))
                        return
                    got = phys(var)
                    want = base_out[key]
                    if abs_scale is not None:
                        f = np.abs(got - want) / (tol * abs_scale)
                    else:
                        f = si.relerr(got, want) / tol
                    worst = float(np.max(f))
                    ctx.dev(f'{spec.name}{"[" + key + "]" if key else ""}.{"f32" if any32 else "f64"} (fraction of bound)', worst)
                    if not np.all(np.isfinite(np.asarray(var.values, dtype=np.float64))) or worst > 1:
                        i = int(np.argmax(f))
                        ctx.violation('not_equivariant', f'{label}: physical result changes by {worst:.3g} x bound when '
                                      f'inputs are re-expressed as {case["units"]} / {case["dtypes"]}',
                                      dict(case, got=repr(np.ravel(got)[i]), baseline=repr(np.ravel(want)[i]),
                                           args={k: describe(v) for k, v in kw.items()}), kernel=spec.name,
                                      int_operand=any(d.startswith('int') for d in case['dtypes'].values()))
                        return
            except Exception:  # noqa: BLE001
                ctx.oracle_error('C07 ' + spec.name)

        mon.expect = {'kernel': spec.name, 'judge': judge}
        try:
            fn(**kw)
        except Exception:  # noqa: BLE001  judged through PY_UNWIND
            pass
        if mon.expect is not None:  # the monitor never saw the call
            mon.expect = None
            ctx.inconclusive_because(f'monitor on {spec.name} did not observe the call')
        canonical = all(units[a.name] == canon_units[a.name] for a in spec.args) and all(
            d == 'float64' for d in dtypes.values())
        ctx.case(sig, trivial=canonical)
        if len(ctx.samples) < 4:
            ctx.sample({'kernel': spec.name, 'units': units, 'dtypes': dtypes,
                        'args': {k: describe(v) for k, v in kw.items()}})


def all_cells(spec):
    per_arg = []
    for a in spec.args:
        us = [u for u, _ in KINDS[a.kind]]
        dts = ['float64'] if a.vector else DTYPES
        per_arg.append([(a.name, u, d) for u in us for d in dts])
    for combo in itertools.product(*per_arg):
        yield {n: u for n, u, _ in combo}, {n: d for n, _, d in combo}


def plan(tier, seed):
    shards = []
    per = 2 if tier == 'quick' else 2
    for i in range(0, len(SPECS), per):
        shards.append({'kernels': [s.name for s in SPECS[i:i + per]],
                       'cells': 3000 if tier == 'quick' else 140000, 'points': 2 if tier == 'quick' else 2})
    return shards


def requirements(tier):
    return {'events': {s.name: 20 for s in SPECS}}


def run(shard, ctx):
    from scippneutron.conversion import beamline as KB
    from scippneutron.conversion import tof as KT
    from scippneutron.tof import chopper_cascade as KC

    mods = {'tof': KT, 'beamline': KB, 'cascade': KC}
    bad = si.self_test()
    if bad:
        ctx.inconclusive_because('unit table cross-check failed: ' + '; '.join(bad))
        return
    rng = np.random.Generator(np.random.PCG64([shard['seed'], shard['index'], 7]))
    mon = Monitor(ctx)
    tr = Tracer()
    for s in SPECS:
        tr.watch(getattr(mods[s.mod], s.name), s.name, on_return=mon.handler(s.name))
    full = {}
    with tr:
        for name in shard['kernels']:
            spec = SPEC_BY_NAME[name]
            fn = getattr(mods[spec.mod], spec.name)
            cells = list(all_cells(spec))
            total = len(cells)
            budget = shard['cells']
            min_points = 4 if any(a.name == 'gravity' for a in spec.args) else shard['points']
            points = int(min(40, max(min_points, budget // max(total, 1))))
            k = min(total, max(1, budget // points))
            for ipt in range(points):
                if k < total:
                    idx = rng.choice(total, size=k, replace=False)
                    sub = [cells[i] for i in idx]
                else:
                    sub = cells
                run_kernel_grid(rng, ctx, spec, fn, sub, shard['tier'], mon, ipt)
            full[name] = {'grid_cells': total, 'cells_per_point': k, 'points': points,
                          'grid_complete_per_point': k == total}
    ctx.extra['grid_' + '_'.join(shard['kernels'])] = full


FINDING_PREDICATES = {}

TECHNIQUE = ('runtime monitors (sys.monitoring) on every conversion/geometry kernel while a unit x dtype grid is '
             'driven through it; reference = canonical-unit float64 call of the same kernel + documented unit/dtype table')
LEVEL_TEXT = ('exploration: for each of 20 kernels, physical points are re-expressed in the cells of the unit x '
              'dtype grid (sampled in quick, complete up to a reported cap in thorough); the observed result must carry '
              'the documented unit and dtype and the same physical value as the canonical-unit float64 call within '
              '1e-11 (1e-5 with single-precision operands) times the conditioning of the definition. A finite grid '
              'per physical point; points are sampled.')
LEVEL_NOTE = ('trusted: the canonical-unit float64 results (decided by C01/C03/C04/C05/C08), the independent SI table, '
              'scipp DTypeError as the sign of arithmetic scipp does not support')
DESIGN_REF = 'DESIGN.md section 4, C07'
