"""C07 Kernels are unit-equivariant and keep the documented dtype contract."""

from __future__ import annotations

import copy
import itertools
from fractions import Fraction

import numpy as np
import scipp as sc

from rv.oracle import si
from rv.snap import describe
from rv.trace import Tracer

ID = 'C07'
LEVEL = 'exploration'
RULE = (
    'per kernel: one physical point (exact rationals, partly integer-valued in coarse units so that integer '
    'cells are exact) re-expressed in every cell of the grid (unit per argument x dtype in {float64, float32, '
    'int64, int32} per argument); the canonical-unit float64 call of the same kernel is the baseline; quick = '
    'random sample of cells, thorough = the full Cartesian grid (capped per kernel, cap reported); distinct = '
    '(kernel, units, dtypes) cells; trivial = the canonical cell itself. Forced in every run: (a) each kernel with '
    'a data operand also with that operand (each alone / all together) as BINNED event data (6 events in 4 bins, one '
    'empty) next to per-bin or 0-D dense operands, and dense with 0-D operands, x the full dtype product of its '
    'non-vector operands (of its data operands when there are more than three; units drawn per cell), baseline = dense per-event canonical call; (b) the gravity kernels '
    'with incident beams tilted 1e-12..3e-3 rad out of the plane perpendicular to gravity (one per decade, both '
    'signs, axis-aligned and rotated frames, 1-d and 2-d layouts) x every (incident, scattered) beam-unit pair; (c) the '
    'energy-transfer kernels with arrival times at or before t0 (some points / all points / tof = 0 at the first point; '
    'dense and event data) x the dtype product of tof x energy: NaN exactly there (documented), values elsewhere; (d) '
    'classes of use, per kernel: an operand with variances (result variances = first-order propagation where one operand '
    'alone defines it), the kernel called positionally / mixed (where the documented signature has positional parameters) '
    'and as a node of a transform_coords graph (dense and binned data arrays, with masks, dim named like the input '
    'coordinate), caller dims named like dims the package uses internally, every layout of the vector operands, the same '
    'operands a second time after repr/deepcopy/== and a refused call, results fed back as operands through a chain of six '
    'kernels, operands of 2**20 + 7 elements (gravity kernels also 3 x 400001) against the periodically continued small call'
)
ASSUMPTIONS = [
    'the canonical-unit float64 result of each kernel is correct (decided by C01/C03/C04/C05/C08)',
    '"no more than rounding" is quantified as in C01: 1e-11 relative in double, 1e-5 when any operand is single '
    'precision, times the condition number of the definition',
    'integer cells are generated only where the value is an exact integer below 2^26 in that unit',
    'nearly perpendicular beams: the unchanged tree switches implementation (yz variant: refuses) at a component '
    "along gravity of 1e-10 in the beam's own unit; a geometry at or below that (to the rounding of the float64 dot "
    'product) in any compared unit gets an allowance of 2 x its tilt, and a refusal that differs between units there '
    'is undecided (DESIGN 9.2, C04 dispatch band)',
    'unphysical points are generated at tof <= 0.8 t0 (t0 itself is only located to rounding); NaN there is the '
    'documented result of the energy-transfer kernels',
    'variances: judged only where one operand alone carries them and the definition is a power law / a sum in it '
    "(scipp's first-order propagation is then unambiguous); single-precision variances that leave the float32 exponent "
    'range are undecided; the gravity kernels of the unchanged tree refuse a wavelength with variances (counted)',
    'an exception of the package in a decided cell is a violation wherever it surfaces: in the canonical-unit cell, '
    'before the kernel body runs (call could not be made), inside it, or after it returned (graph use)',
]
TOL64, TOL32 = 1e-11, 1e-5

# quantity kinds: list of (unit, exact factor to the canonical unit [first entry])
E_J = 1 / si.E_CHARGE  # J in eV
KINDS = {
    'time': [('us', Fraction(1)), ('ns', Fraction(1, 1000)), ('ms', Fraction(1000)), ('s', Fraction(10**6))],
    'length': [('m', Fraction(1)), ('mm', Fraction(1, 1000)), ('cm', Fraction(1, 100)), ('km', Fraction(1000)),
               ('angstrom', Fraction(1, 10**10))],
    'beam': [('m', Fraction(1)), ('mm', Fraction(1, 1000)), ('cm', Fraction(1, 100)), ('km', Fraction(1000))],
    'wavelength': [('angstrom', Fraction(1)), ('nm', Fraction(10)), ('pm', Fraction(1, 100)), ('m', Fraction(10**10))],
    'energy': [('meV', Fraction(1)), ('ueV', Fraction(1, 1000)), ('eV', Fraction(1000)), ('J', E_J * 1000)],
    'angle': [('rad', None), ('deg', None), ('arcmin', None), ('mrad', None)],
    'Q': [('1/angstrom', Fraction(1)), ('1/nm', Fraction(1, 10)), ('1/m', Fraction(1, 10**10))],
    'accel': [('m/s^2', Fraction(1)), ('mm/s^2', Fraction(1, 1000)), ('cm/s^2', Fraction(1, 100))],
}
DTYPES = ['float64', 'float32', 'int64', 'int32']
# Single precision has a narrow exponent range: a kernel's pre-multiplied constant expressed in extreme
# unit combinations (J, angstrom as a flight path, metres as a wavelength, seconds, 1/m) leaves it, which is
# overflow/underflow of float32 and not a defect.  Cells whose *data* operand is float32 are therefore only
# generated from these moderate units; everything else is counted as out of the float32 domain.
F32_DOMAIN = {
    'time': {'us', 'ms', 'ns'}, 'length': {'m', 'mm', 'cm', 'km'}, 'beam': {'m', 'mm', 'cm', 'km'},
    'wavelength': {'angstrom', 'nm', 'pm'}, 'energy': {'meV', 'ueV', 'eV'}, 'angle': {'rad', 'deg', 'arcmin', 'mrad'},
    'Q': {'1/angstrom', '1/nm'}, 'accel': {'m/s^2', 'mm/s^2', 'cm/s^2'},
}


class Arg:
    def __init__(self, name, kind, data=False, vector=False, lo=None, hi=None, dims=None):
        self.name, self.kind, self.data, self.vector = name, kind, data, vector
        self.lo, self.hi = lo, hi
        self.dims = dims  # None: 1-d 'x' array of points


class Spec:
    def __init__(self, name, mod, args, out, dtype_rule='data', cond=None, outputs=None, absolute=False):
        self.name, self.mod, self.args, self.out = name, mod, args, out
        self.dtype_rule, self.cond, self.outputs, self.absolute = dtype_rule, cond, outputs, absolute


def _u(x):
    return sc.Unit(x)


SPECS = [
    Spec('wavelength_from_tof', 'tof', [Arg('tof', 'time', data=True), Arg('Ltotal', 'length')], lambda u: _u('angstrom')),
    Spec('dspacing_from_tof', 'tof', [Arg('tof', 'time', data=True), Arg('Ltotal', 'length'), Arg('two_theta', 'angle')],
         lambda u: _u('angstrom')),
    Spec('energy_from_tof', 'tof', [Arg('tof', 'time', data=True), Arg('Ltotal', 'length')], lambda u: _u('meV')),
    Spec('energy_from_wavelength', 'tof', [Arg('wavelength', 'wavelength', data=True)], lambda u: _u('meV')),
    Spec('wavelength_from_energy', 'tof', [Arg('energy', 'energy', data=True)], lambda u: _u('angstrom')),
    Spec('Q_from_wavelength', 'tof', [Arg('wavelength', 'wavelength', data=True), Arg('two_theta', 'angle')],
         lambda u: _u('one') / _u(u['wavelength'])),
    Spec('wavelength_from_Q', 'tof', [Arg('Q', 'Q', data=True), Arg('two_theta', 'angle')], lambda u: _u('angstrom')),
    Spec('dspacing_from_wavelength', 'tof', [Arg('wavelength', 'wavelength', data=True), Arg('two_theta', 'angle')],
         lambda u: _u('angstrom')),
    Spec('dspacing_from_energy', 'tof', [Arg('energy', 'energy', data=True), Arg('two_theta', 'angle')],
         lambda u: _u('angstrom')),
    Spec('energy_transfer_direct_from_tof', 'tof',
         [Arg('tof', 'time', data=True), Arg('L1', 'length'), Arg('L2', 'length'), Arg('incident_energy', 'energy', data=True)],
         lambda u: _u(u['incident_energy']), cond='inelastic'),
    Spec('energy_transfer_indirect_from_tof', 'tof',
         [Arg('tof', 'time', data=True), Arg('L1', 'length'), Arg('L2', 'length'), Arg('final_energy', 'energy', data=True)],
         lambda u: _u(u['final_energy']), cond='inelastic'),
    Spec('Q_elements_from_wavelength', 'tof',
         [Arg('wavelength', 'wavelength', data=True), Arg('incident_beam', 'beam', vector=True), Arg('scattered_beam', 'beam', vector=True)],
         lambda u: _u('one') / _u(u['wavelength']), outputs=('Qx', 'Qy', 'Qz'), absolute='Q', dtype_rule=None),
    Spec('L1', 'beamline', [Arg('incident_beam', 'beam', vector=True)], lambda u: _u(u['incident_beam']), dtype_rule='f64'),
    Spec('L2', 'beamline', [Arg('scattered_beam', 'beam', vector=True)], lambda u: _u(u['scattered_beam']), dtype_rule='f64'),
    Spec('two_theta', 'beamline', [Arg('incident_beam', 'beam', vector=True), Arg('scattered_beam', 'beam', vector=True)],
         lambda u: _u('rad'), dtype_rule='f64', absolute='angle'),
    Spec('total_straight_beam_length_no_scatter', 'beamline',
         [Arg('source_position', 'beam', vector=True), Arg('position', 'beam', vector=True)],
         lambda u: _u(u['position']), dtype_rule='f64', cond='same_unit'),
    Spec('scattering_angles_with_gravity', 'beamline',
         [Arg('incident_beam', 'beam', vector=True), Arg('scattered_beam', 'beam', vector=True),
          Arg('wavelength', 'wavelength', data=True), Arg('gravity', 'accel', vector=True)],
         lambda u: _u('rad'), outputs=('two_theta', 'phi'), absolute='angle'),
    Spec('scattering_angle_in_yz_plane', 'beamline',
         [Arg('incident_beam', 'beam', vector=True), Arg('scattered_beam', 'beam', vector=True),
          Arg('wavelength', 'wavelength', data=True), Arg('gravity', 'accel', vector=True)],
         lambda u: _u('rad'), absolute='angle'),
    Spec('propagate_times', 'cascade',
         [Arg('time', 'time'), Arg('wavelength', 'wavelength'), Arg('distance', 'length')],
         lambda u: _u(u['time']), dtype_rule=None, absolute='time'),
    Spec('wavelength_to_inverse_velocity', 'cascade', [Arg('wavelength', 'wavelength')], lambda u: _u('s/m'),
         dtype_rule=None),
    # t_sample = t_pulse + tof - L2 lambda m_n / h: pulse time and time-of-flight are added as they are (scipp
    # refuses to add different units, that is its documented arithmetic), so they share one unit; the flight
    # path and the wavelength may come in any unit.  No dtype is documented for this kernel: values and units only.
    Spec('time_at_sample_from_tof', 'tof',
         [Arg('pulse_time', 'time'), Arg('tof', 'time', data=True), Arg('L2', 'length'), Arg('wavelength', 'wavelength')],
         lambda u: _u(u['tof']), dtype_rule=None, cond='same_time_unit', absolute='time_at_sample'),
]
SPEC_BY_NAME = {s.name: s for s in SPECS}


# --------------------------------------------------------- physical points ---
def draw_point(rng, spec, n=6, force_integer=False, moderate=False):
    """Exact rational values per argument, in the canonical unit of its kind (moderate: small integers there)."""
    pt = {}
    for a in spec.args:
        if a.vector:
            continue
        # one scale class per argument and point: integers in the coarsest / the canonical / a fine unit
        # (so that integer cells are exact in several units), or dyadic fractions (float cells only)
        scales = {
            'time': [10**6, 1000, 1], 'length': [1000, 1, Fraction(1, 100)], 'wavelength': [10, 1, Fraction(1, 100)],
            'energy': [1000, 1, Fraction(1, 1000)], 'Q': [1, Fraction(1, 10), Fraction(1, 10)],
        }
        r = rng.random() * (0.8 if force_integer else 1.0)
        if moderate:
            r = 0.3 + 0.2 * r
        vals = []
        for _ in range(n):
            if a.kind == 'angle':
                vals.append(Fraction(int(rng.integers(1, 180))))  # integer degrees
            elif r < 0.8:
                vals.append(Fraction(int(rng.integers(1, 60))) * scales[a.kind][int(r / 0.8 * 3)])
            else:
                vals.append(Fraction(int(rng.integers(1, 10**5)), 64) * scales[a.kind][1])
        pt[a.name] = vals
    return pt


def draw_vectors(rng, spec, n, point_index=0):
    """Beam geometry (float64, metres) for vector arguments; exactly perpendicular g for the yz variant."""
    out = {}
    names = [a.name for a in spec.args if a.vector]
    if not names:
        return out
    if 'gravity' in names:
        out['gravity'] = np.array([0.0, -9.8125, 0.0])
        # alternate between the two implementations (perpendicular / tilted incident beam) point by point
        tilt = 0.0 if spec.name == 'scattering_angle_in_yz_plane' or point_index % 2 == 0 else 0.25
        out['incident_beam'] = np.array([0.0, 8.0 * np.sin(tilt), 8.0 * np.cos(tilt)]) if tilt else np.array([0.0, 0.0, 8.0])
        d = rng.normal(size=(n, 3))
        d[:, 2] = np.abs(d[:, 2]) + 0.5
        d[:, 0] += 0.5
        out['scattered_beam'] = np.round(d * 4, 3)
        return out
    for nm in names:
        v = np.round(rng.normal(size=(n, 3)) * 5 + 1, 3)
        out[nm] = v
    return out


def express(value: Fraction, kind, unit, dtype):
    """Value of the physical quantity in (unit, dtype); None if the cell cannot hold it exactly enough."""
    if kind == 'angle':
        # the physical value is a whole number of degrees; deg and arcmin hold it exactly (also as integers)
        per_deg = {'deg': 1, 'arcmin': 60}.get(unit)
        if dtype.startswith('int'):
            if per_deg is None:
                return None
            return int(value * per_deg)
        if per_deg is not None:
            return float(value * per_deg)
        return float(si.ld(value) * si.PI / 180 / si.factor(sc.Unit(unit)))
    f = dict(KINDS[kind])[unit]
    q = value / f
    if dtype.startswith('int'):
        if q.denominator != 1 or not (0 < q.numerator < 2**26 or value == 0):
            return None
        return int(q)
    return float(si.ld(q))


def make_var(vals, unit, dtype, vector=False, scalar=False, dim='x'):
    if vector:
        arr = np.asarray(vals, dtype=np.float64)
        return sc.vector(arr, unit=unit) if arr.ndim == 1 else sc.vectors(dims=[dim], values=arr, unit=unit)
    return sc.array(dims=[dim], values=np.asarray(vals), unit=unit, dtype=dtype)


REL_SIGMA = 1.0 / 16  # operands with variances: sigma = value / 16 (a dyadic fraction: exact in every dtype)


def with_variances(var):
    """The same dense variable carrying variances (value / 16)^2."""
    out = var.copy()
    out.variances = (np.asarray(var.values) * var.values.dtype.type(REL_SIGMA)) ** 2
    return out


# ---------------------------------------------------------------- layouts ---
# The kernels take dense variables and binned (event) variables alike (`_utils.elem_unit/elem_dtype`).  The
# same physical point is therefore also presented with the data operand(s) as event data: 6 events in 4
# bins over 'x' (one bin empty), the remaining operands dense with one value per bin or 0-D.  For such a
# point every event sees the value of its bin's representative event in the non-event operands, so that the
# dense per-event call in canonical units stays the baseline.
EV_BEGIN = np.array([0, 3, 3, 5])
EV_END = np.array([3, 3, 5, 6])
EV_REP_BIN = [0, 0, 3, 5]  # per bin: the event whose values the dense operands take (empty bin: unobserved)
EV_REP_EVENT = [0, 0, 0, 3, 3, 5]  # per event: that representative


class Layout:
    def __init__(self, binned=(), others='x', arrays=()):
        # binned: operands given as event data; arrays: operands kept as dense 1-d arrays next to 0-D operands
        self.binned, self.others, self.arrays = frozenset(binned), others, frozenset(arrays)
        self.per_event = self.binned | self.arrays
        assert others in ('x', 'per_bin', 'scalar') and (not self.binned or others != 'x')

    @property
    def default(self):
        return not self.binned and self.others == 'x'

    @property
    def tag(self):
        return ('events(' + ','.join(sorted(self.binned)) + ')' if self.binned else 'dense') + '/' + {
            'x': 'arrays', 'per_bin': 'per-bin operands', 'scalar': '0-D operands'}[self.others]

    def rep(self, n):
        return {'x': list(range(n)), 'per_bin': EV_REP_EVENT, 'scalar': [0] * n}[self.others]


DENSE = Layout()


def layouts_of(spec):
    """Every way the data operands of a kernel can be event data (each alone, all together) x dense operands
    per bin / 0-D, plus dense data with 0-D operands."""
    data = [a.name for a in spec.args if a.data]
    if not data:
        return []
    sets = [(d,) for d in data] + ([tuple(data)] if len(data) > 1 else [])
    return [Layout(s, o) for s in sets for o in ('per_bin', 'scalar')] + [Layout((), 'scalar', arrays=data)]


def make_events(vals, unit, dtype, dim='x', evdim='event', variances=False):
    data = sc.array(dims=[evdim], values=np.asarray(vals), unit=unit, dtype=dtype)
    if variances:
        data = with_variances(data)
    return sc.bins(dim=evdim, data=data, begin=sc.array(dims=[dim], values=EV_BEGIN, unit=None, dtype='int64'),
                   end=sc.array(dims=[dim], values=EV_END, unit=None, dtype='int64'))


def desc(v):
    d = describe(v)
    if isinstance(v, sc.Variable) and v.bins is not None:
        c = v.bins.constituents
        d.update(events=describe(c['data']), begin=np.asarray(c['begin'].values).tolist(),
                 end=np.asarray(c['end'].values).tolist())
    return d


def flat(var):
    """(element unit, element dtype, element values in bin order) of a dense or binned result."""
    if var.bins is None:
        return var.unit, var.dtype, np.asarray(var.values)
    c = var.bins.constituents
    b, e = np.asarray(c['begin'].values).ravel(), np.asarray(c['end'].values).ravel()
    idx = np.concatenate([np.arange(i, j) for i, j in zip(b, e, strict=True)]) if len(b) else np.zeros(0, dtype=int)
    data = c['data']
    return data.unit, data.dtype, np.asarray(data.values)[idx.astype(int)]


def flat_variances(var):
    """Element variances in the order of `flat` (None when the result carries none)."""
    if var.bins is None:
        return None if var.variances is None else np.asarray(var.variances)
    c = var.bins.constituents
    if c['data'].variances is None:
        return None
    b, e = np.asarray(c['begin'].values).ravel(), np.asarray(c['end'].values).ravel()
    idx = np.concatenate([np.arange(i, j) for i, j in zip(b, e, strict=True)]) if len(b) else np.zeros(0, dtype=int)
    return np.asarray(c['data'].variances)[idx.astype(int)]


def note_layout_classes(ctx, spec, layout, dtypes):
    """Forced classes of the event-data / 0-D layouts (recorded when a monitor judged such a call)."""
    data = [a.name for a in spec.args if a.data]
    dense_scalars = [a.name for a in spec.args if not a.vector and a.name not in layout.binned]
    if not layout.binned:
        ctx.hit('dense data operand with 0-D other operands')
        return
    ctx.hit('event data with ' + ('per-bin' if layout.others == 'per_bin' else '0-D') + ' dense operands')
    ev_dt = {dtypes[b] for b in layout.binned}
    for dt in ev_dt:
        ctx.hit('event data: ' + dt + ' events')
    if ev_dt == {'float32'}:
        others = {dtypes[nm] for nm in dense_scalars}
        if others - {'float32'}:
            ctx.hit('event data: float32 events with a float64/integer dense operand')
        dense_data = {dtypes[nm] for nm in data if nm not in layout.binned}
        if dense_data - {'float32'}:
            ctx.hit('event data: float32 events with a dense DATA operand that is not float32 (contract: float64)')
        if dense_data == {'float32'}:
            ctx.hit('event data: float32 events with a float32 dense data operand (contract: float32)')
    if len(layout.binned) > 1:
        ctx.hit('event data: all data operands of a two-data-operand kernel are events')


def layout_cells(rng, spec):
    """For an event-data / 0-D layout: the full dtype product of the non-vector operands (of the data operands for
    kernels with more than three, the others' dtypes drawn per cell), repeated to about 100 cells, each cell with
    units drawn from those in which the point is exactly representable in that dtype (moderate units when a data
    operand is float32, see F32_DOMAIN); the complete unit x dtype grid for small kernels."""
    def cells(feasible):
        size = int(np.prod([len(KINDS[a.kind]) * (1 if a.vector else len(DTYPES)) for a in spec.args]))
        if size <= 300:  # small kernels: the complete unit x dtype grid
            return list(all_cells(spec))
        out = []
        scal = [a for a in spec.args if not a.vector]
        if len(scal) > 3:  # the dtype product of the data operands, the other operands' dtypes drawn per cell
            scal = [a for a in scal if a.data]
        free = [a for a in spec.args if not a.vector and a not in scal]
        for combo in list(itertools.product(DTYPES, repeat=len(scal))) * max(1, 96 // 4 ** len(scal)):
            dtypes = {a.name: 'float64' for a in spec.args}
            dtypes.update({a.name: d for a, d in zip(scal, combo, strict=True)})
            dtypes.update({a.name: DTYPES[int(rng.integers(len(DTYPES)))] for a in free})
            f32 = any(dtypes[a.name] == 'float32' for a in spec.args if a.data)
            units = {}
            for a in spec.args:
                us = [u for u, _ in KINDS[a.kind] if not f32 or u in F32_DOMAIN[a.kind]]
                if not a.vector:
                    us = [u for u in us if feasible(a, u, dtypes[a.name])] or us
                units[a.name] = us[int(rng.integers(len(us)))]
            out.append((units, dtypes))
        return out
    return cells


class Monitor:
    def __init__(self, ctx):
        self.ctx = ctx
        self.expect = None

    def handler(self, name):
        def h(ev):
            ex = self.expect
            if ex is None or ex['kernel'] != name or ev.depth != 0:
                return
            self.expect = None
            ex['judge'](ev)
        return h


def out_values(spec, res):
    if spec.outputs:
        return {k: res[k] for k in spec.outputs}
    return {'': res}


def phys(var):
    """Physical values of a result variable in SI (long double)."""
    return np.asarray(var.values).astype(si.LD) * si.factor(var.unit)


def inelastic_cond(kind, kw):
    """t/(t-t0) scale for the absolute bound of the energy-transfer kernels (from the canonical call)."""
    m = si.constants()['m_n']
    t = phys(kw['tof'])
    if kind == 'direct':
        E, Lf, Lo = phys(kw['incident_energy']), phys(kw['L1']), phys(kw['L2'])
    else:
        E, Lf, Lo = phys(kw['final_energy']), phys(kw['L2']), phys(kw['L1'])
    t0 = Lf * np.sqrt(m / (2 * E))
    other = m * Lo**2 / (2 * (t - t0) ** 2)
    return t, t0, E, other


# ------------------------------------------------------------ classes of use ---
# Besides unit, dtype and layout the property quantifies over every use the documented signatures allow: how
# the kernel is called (keywords, positionally where the signature has positional parameters, as a node of a
# `transform_coords` graph, where every parameter is looked up as a coordinate), what the operands carry
# (variances; for the energy-transfer kernels arrival times at or before t0, documented to give NaN), how the
# caller named the dims, how large the operands are, and whether the call is the first one with these operands.
CALLS = {'kw': 'with keywords', 'positional': 'positionally', 'mixed': 'with the first operand positional and the rest as keywords',
         'graph': 'as a node of a transform_coords graph'}
# kernels whose documented signature has positional-or-keyword parameters (all others are keyword-only)
POSITIONAL = {'scattering_angles_with_gravity', 'scattering_angle_in_yz_plane', 'propagate_times',
              'wavelength_to_inverse_velocity'}
# result = const x (operand)^p in the operand that carries variances: var(result) = (p result / operand)^2 var(operand)
VAR_POWER = {
    'wavelength_from_tof': 1, 'dspacing_from_tof': 1, 'energy_from_tof': -2, 'energy_from_wavelength': -2,
    'wavelength_from_energy': Fraction(-1, 2), 'Q_from_wavelength': -1, 'wavelength_from_Q': -1,
    'dspacing_from_wavelength': 1, 'dspacing_from_energy': Fraction(-1, 2), 'Q_elements_from_wavelength': -1,
    'wavelength_to_inverse_velocity': 1,
}
# result = operand + (terms without variances): the variance passes through unchanged
VAR_ADDITIVE = {'propagate_times': 'time', 'time_at_sample_from_tof': 'tof'}
# names the implementation of the package uses for dims of its own, and names of the kernels' parameters
DIM_NAMES = ['event', 'row', 'rotation', 'slit', 'vertex', 'cutout', 'range', 'subframe', 'wavelength', 'tof',
             'two_theta', 'L2', 'time', 'distance', 'spectrum', 'detector_number', 'dim_0', 'x y', 'ångström']
UNPHYSICAL = {'some': 'some of the points', 'all': 'all points', 'zero': 'tof = 0 (first bin edge) at the first point'}
VEC_TEXT = {'0d': '0-D', 'x': 'one per point', 'y': 'one per point over a dim of its own'}
BIG = 2**20 + 7
BIG_2D = (3, 400001)


class Opt:
    def __init__(self, call='kw', unphysical=None, variances=False, dim='x', second=False, size=None, masks=False,
                 vec=None):
        self.call, self.unphysical, self.variances, self.dim = call, unphysical, variances, dim
        self.second, self.size, self.masks = second, size, masks
        self.vec = vec  # per vector operand: '0d' (one vector), 'x' (one per point), 'y' (one per point over a dim of its own)

    @property
    def plain(self):
        return (self.call == 'kw' and self.unphysical is None and not self.variances and self.dim == 'x'
                and not self.second and self.size is None and self.vec is None)

    @property
    def kind(self):
        """Few-valued name of the class of use (violation key, event suffix)."""
        if self.unphysical:
            return 'unphysical points'
        if self.variances:
            return 'variances'
        if self.size is not None:
            return 'large operands'
        if self.second:
            return 'second use'
        if self.vec is not None:
            return 'operand layouts'
        if self.call != 'kw':
            return 'call ' + CALLS[self.call]
        return 'caller dim names' if self.dim != 'x' else 'plain'

    @property
    def tag(self):
        parts = []
        if self.call != 'kw':
            parts.append('called ' + CALLS[self.call] + (' (data array with masks)' if self.masks else ''))
        if self.unphysical:
            parts.append('tof <= t0 at ' + UNPHYSICAL[self.unphysical])
        if self.variances:
            parts.append('operand with variances')
        if self.dim != 'x':
            parts.append(f'dim {self.dim!r}')
        if self.second:
            parts.append('second use')
        if self.size is not None:
            parts.append(f'size {self.size}')
        if self.vec is not None:
            parts.append('operands: ' + ', '.join(f'{k} {VEC_TEXT[v]}' for k, v in self.vec.items()))
        return '; '.join(parts)


PLAIN = Opt()


def vector_layouts(spec):
    """Every way the vector operands of a kernel without the gravity dispatch can be laid out: each 0-D or one
    per point; two pure vector operands also over different dims (2-d result).  The all-per-point layout is the grid's."""
    if spec.name == 'propagate_times':
        # documented: the distance "can be a range of distances" (a dim of its own); the package itself passes one distance
        return [{'distance': '0d'}, {'distance': 'y'}, {'time': '0d', 'wavelength': '0d'}]
    names = [a.name for a in spec.args if a.vector]
    if not names or any(a.name == 'gravity' for a in spec.args):
        return []
    out = [dict(zip(names, c, strict=True)) for c in itertools.product(('0d', 'x'), repeat=len(names))]
    out = [c for c in out if set(c.values()) != {'x'}]
    if len(names) == 2 and all(a.vector for a in spec.args):
        out += [{names[0]: 'y', names[1]: 'x'}, {names[0]: 'x', names[1]: 'y'}]
    return out


def var_arg(spec):
    """The operand that carries the variances in the variances class (None: the kernel has no such class)."""
    if spec.name in VAR_ADDITIVE:
        return VAR_ADDITIVE[spec.name]
    if spec.name == 'wavelength_to_inverse_velocity':
        return 'wavelength'
    data = [a.name for a in spec.args if a.data]
    if spec.cond == 'inelastic':
        return 'tof'
    return data[0] if data else None


def tile_to(arr, dims, sizes):
    """Periodic continuation of a small array over `dims` to the sizes of a large result."""
    arr = np.asarray(arr)
    for ax, d in enumerate(dims):
        if arr.shape[ax] != sizes[d]:
            arr = np.take(arr, np.arange(sizes[d]) % arr.shape[ax], axis=ax)
    return arr


def as_data_array(kw, masks):
    """The operands as coordinates of a data array (event operands as event coordinates of binned data)."""
    binned = {k: v for k, v in kw.items() if v.bins is not None}
    dense = {k: v for k, v in kw.items() if v.bins is None}
    if binned:
        c = next(iter(binned.values())).bins.constituents
        buf = {k: v.bins.constituents['data'] for k, v in binned.items()}
        nev = next(iter(buf.values())).sizes[c['dim']]
        table = sc.DataArray(sc.ones(dims=[c['dim']], shape=[nev]), coords=buf)
        if masks:
            table.masks['rv event mask'] = sc.array(dims=[c['dim']], values=np.arange(nev) % 3 == 1)
        data = sc.bins(begin=c['begin'], end=c['end'], dim=c['dim'], data=table)
    else:
        sizes = {}
        for v in dense.values():
            sizes.update(v.sizes)
        data = sc.ones(dims=list(sizes), shape=list(sizes.values()))
    da = sc.DataArray(data, coords=dense)
    if masks and da.ndim:
        d = da.dims[0]
        da.masks['rv mask'] = sc.array(dims=[d], values=np.arange(da.sizes[d]) % 2 == 0)
    return da


def masks_of(da):
    out = {k: np.asarray(v.values).copy() for k, v in da.masks.items()}
    if da.bins is not None:
        out.update({'event:' + k: np.asarray(v.bins.constituents['data'].values).copy() for k, v in da.bins.masks.items()})
    return out


def invoke(fn, spec, kw, opt):
    """Call the kernel the way the class of use says; returns (masks before, masks after) for graph calls."""
    names = [a.name for a in spec.args]
    if opt.call == 'kw':
        fn(**kw)
    elif opt.call == 'positional':
        fn(*[kw[n] for n in names])
    elif opt.call == 'mixed':
        fn(kw[names[0]], **{n: kw[n] for n in names[1:]})
    else:
        da = as_data_array(kw, opt.masks)
        before = masks_of(da)
        outs = tuple(spec.outputs) if spec.outputs else ('rv_result',)
        res = da.transform_coords(list(outs), graph={outs if len(outs) > 1 else outs[0]: fn})
        return before, masks_of(res)
    return None


def other_unit(v, unit='kg'):
    out = v.copy()
    if out.bins is not None:
        out.bins.unit = unit
    else:
        out.unit = unit
    return out


def note_opt_classes(ctx, spec, opt, layout, dtypes, nan_mask):
    if opt.unphysical:
        ctx.hit('unphysical points (tof <= t0): ' + UNPHYSICAL[opt.unphysical])
        en = 'incident_energy' if 'incident_energy' in dtypes else 'final_energy'
        ctx.hit(f'unphysical points: tof {dtypes["tof"]} x energy {dtypes[en]}')
        ctx.hit('unphysical points: ' + ('event data' if layout.binned else 'dense operands'))
    if opt.variances:
        va = var_arg(spec)
        ctx.hit('operand with variances: ' + ('power law' if spec.name in VAR_POWER else 'additive term'
                                              if spec.name in VAR_ADDITIVE else 'energy transfer (tof)'))
        ctx.hit('operand with variances: ' + ('event data' if va in layout.binned else 'dense'))
    if opt.call != 'kw':
        ctx.hit('called ' + CALLS[opt.call])
        if opt.call == 'graph':
            ctx.hit('graph node: ' + ('event data' if layout.binned else 'dense data array'))
            if opt.masks:
                ctx.hit('graph node: masks on the data array' + (' and on the events' if layout.binned else ''))
            if opt.dim != 'x':
                ctx.hit('graph node: dim named like the input coordinate')
    elif opt.dim != 'x':
        ctx.hit(f'caller dim named {opt.dim!r}')
    if opt.vec is not None:
        hows = set(opt.vec.values())
        every = len(opt.vec) == (sum(a.vector for a in spec.args) or len(spec.args))
        ctx.hit('operand layouts: ' + ('all 0-D' if hows == {'0d'} and every else 'over different dims (2-d result)' if 'y' in hows
                                       else '0-D next to one per point'))
    if opt.second:
        ctx.hit('second use: same operands again after repr / deepcopy / == and a refused call')
    if opt.size is not None:
        ctx.hit('size 3 x 400001 (gravity kernels, 2-d)' if isinstance(opt.size, tuple) else 'size 2**20 + 7')


def run_kernel_grid(rng, ctx, spec, fn, cells, tier, mon, point_index=0, layout=DENSE, opt=PLAIN):
    n = 6
    pt = draw_point(rng, spec, n, force_integer=layout.others == 'per_bin', moderate=opt.variances)
    vecs = draw_vectors(rng, spec, n, point_index)
    # operands that are not event data are constant over the events of a bin (per-bin operands) or over all
    # events (0-D operands); rep[i] is the event whose values event i sees in them
    rep = layout.rep(n)
    for a in spec.args:
        if a.name in layout.per_event:
            continue
        if a.vector:
            if vecs[a.name].ndim == 2:
                vecs[a.name] = vecs[a.name][rep]
        else:
            pt[a.name] = [pt[a.name][r] for r in rep]
    # inelastic: keep arrival well above t0 so that the definition is well conditioned (cond <= ~5); the
    # points of the 'unphysical' class arrive at or before 0.8 t0 (decided: t0 is only located to rounding)
    nan_mask = np.zeros(n, dtype=bool)
    if spec.cond == 'inelastic':
        m = si.constants()['m_n']
        fixed = 'incident_energy' if 'incident_energy' in pt else 'final_energy'
        Lf = 'L1' if fixed == 'incident_energy' else 'L2'
        t0_us, fac = [], []
        for i in range(n):
            E = si.ld(pt[fixed][i]) * si.ld(si.E_CHARGE) / 1000
            t0_us.append(float(si.ld(pt[Lf][i]) * np.sqrt(m / (2 * E)) * 1e6))
            fac.append(float(rng.uniform(1.5, 6.0)))
        low = [float(rng.uniform(0.05, 0.8)) for _ in range(n)]

        def group(i):
            # a dense tof next to event energies is shared by the events of a bin
            return [i] if 'tof' in layout.per_event or layout.default else [j for j in range(n) if rep[j] == rep[i]]

        early = set()
        for i in {'some': (1, 4), 'all': range(n), 'zero': (0,)}.get(opt.unphysical, ()):
            early.update(group(i))
        for i in range(n):
            grp = group(i)
            if i in early:
                k = 0 if opt.unphysical == 'zero' else int(np.floor(min(t0_us[j] for j in grp) * low[rep[i] if len(grp) > 1 else i]))
                nan_mask[i] = True
            else:
                # above the largest t0 of the events that share the tof
                k = int(np.ceil(max(t0_us[j] for j in grp) * fac[rep[i] if len(grp) > 1 else i])) + 1
            pt['tof'][i] = Fraction(k)
    canon_units = {a.name: KINDS[a.kind][0][0] for a in spec.args}

    def feasible(a, u, dt):
        return all(express(v, a.kind, u, dt) is not None for v in pt[a.name])

    if callable(cells):
        cells = cells(feasible)
    point_layout = layout
    va = var_arg(spec) if opt.variances else None
    two_d = isinstance(opt.size, tuple)

    def build(units, dtypes, layout=layout, variances=None, size=None, dim=opt.dim):
        def big(arr, axis_len):
            arr = np.asarray(arr)
            return arr if axis_len is None else arr[np.arange(axis_len) % len(arr)]

        kw = {}
        for a in spec.args:
            u, dt = units[a.name], dtypes[a.name]
            # gravity kernels: every other pair of points gives the wavelength its own dimension, so that
            # the result is 2-d (detector x wavelength) and the out-of-place broadcasting branch runs
            own_dim = (a.name == 'wavelength' and 'gravity' in vecs and point_layout.default
                       and ((point_index // 2) % 2 == 1 or two_d) and opt.dim == 'x')
            length = None if size is None else size[1 if own_dim else 0] if two_d else size
            if a.vector:
                f = dict(KINDS[a.kind])[u]
                v = vecs[a.name] / float(f)
                if v.ndim == 2 and layout.others != 'x':
                    v = v[EV_REP_BIN] if layout.others == 'per_bin' else v[0]
                if v.ndim == 2:
                    v = big(v, length)
                how = (opt.vec or {}).get(a.name, 'x')
                if v.ndim == 2 and how == '0d':
                    v = v[0]
                kw[a.name] = make_var(v, u, 'float64', vector=True, dim='y' if how == 'y' else dim)
                continue
            vals = [express(v, a.kind, u, dt) for v in pt[a.name]]
            if any(v is None for v in vals):
                return None
            carries = variances == a.name
            if a.name in layout.binned:
                kw[a.name] = make_events(vals, u, dt, dim=dim, variances=carries)
                continue
            if a.name in layout.arrays:
                kw[a.name] = make_var(vals, u, dt, dim=dim)
            elif layout.others == 'per_bin':
                kw[a.name] = make_var([vals[r] for r in EV_REP_BIN], u, dt, dim=dim)
            elif layout.others == 'scalar':
                kw[a.name] = sc.scalar(vals[0], unit=u, dtype=dt)
            elif (opt.vec or {}).get(a.name) == '0d':
                kw[a.name] = sc.scalar(vals[0], unit=u, dtype=dt)
            else:
                kw[a.name] = make_var(big(vals, length), u, dt,
                                      dim='w' if own_dim else 'y' if (opt.vec or {}).get(a.name) == 'y' else dim)
            if carries:
                kw[a.name] = with_variances(kw[a.name])
        return kw

    # the reference cell: canonical units, float64, dense, dims named 'x' whatever the caller's dims are called
    base_kw = build(canon_units, {a.name: 'float64' for a in spec.args}, DENSE, dim='x')
    try:
        base = fn(**base_kw)
    except Exception as e:  # noqa: BLE001  the package refused the reference cell of the grid: that is an observation
        ctx.violation('raised', f'{spec.name} raised {type(e).__name__}: {e} in the canonical-unit float64 cell',
                      {'kernel': spec.name, 'units': canon_units, 'args': {k: desc(v) for k, v in base_kw.items()}},
                      kernel=spec.name, exc=type(e).__name__, int_operand=False, cell='canonical')
        ctx.case((spec.name, 'canonical cell refused', layout.tag, opt.tag))
        return
    base_out = {k: phys(v) for k, v in out_values(spec, base).items()}
    base_dims = {k: tuple(opt.dim if d == 'x' else d for d in v.dims) for k, v in out_values(spec, base).items()}
    if not layout.default and any(np.ndim(v) != 1 for v in base_out.values()):
        ctx.inconclusive_because(f'{spec.name}: baseline of an event-data point is not one value per event')
        return
    if spec.cond == 'inelastic':
        t, t0, E, other = inelastic_cond('direct' if 'incident_energy' in base_kw else 'indirect', base_kw)
        abs_scale = np.maximum(np.abs(E), np.abs(other)) * np.abs(t / (t - t0))
        # the documented NaN at unphysical points holds for the reference cell as for every other cell
        base_nan = np.isnan(np.asarray(out_values(spec, base)[''].values, dtype=np.float64))
        if not np.array_equal(base_nan, nan_mask):
            ctx.event(spec.name)
            ctx.violation('nan_pattern', f'{spec.name}: NaN at points {np.flatnonzero(base_nan).tolist()} of the canonical-unit '
                          f'float64 cell, documented: NaN exactly where tof <= t0, points {np.flatnonzero(nan_mask).tolist()}',
                          {'kernel': spec.name, 'units': canon_units, 'args': {k: desc(v) for k, v in base_kw.items()},
                           't0_us': [repr(x) for x in t0_us]}, kernel=spec.name, cell='canonical')
            ctx.case((spec.name, 'canonical cell', layout.tag, opt.tag))
            return
    elif spec.absolute == 'angle':
        abs_scale = si.LD(1)
    elif spec.absolute == 'Q':
        abs_scale = 2 * si.PI / phys(base_kw['wavelength'])
    elif spec.absolute == 'time':
        t_in = np.abs(phys(base_kw['time']))
        abs_scale = (t_in if np.shape(t_in) == np.shape(base_out['']) else np.max(t_in)) + np.abs(base_out[''])
    elif spec.absolute == 'time_at_sample':
        abs_scale = np.abs(phys(base_kw['pulse_time'])) + np.abs(phys(base_kw['tof'])) + np.abs(base_out[''])
    else:
        abs_scale = None

    for units, dtypes in cells:
        if spec.cond == 'same_unit':
            units = dict(units)
            units['source_position'] = units['position']
        if spec.cond == 'same_time_unit':
            units = dict(units)
            units['pulse_time'] = units['tof']
        if va is not None and dtypes[va].startswith('int'):
            dtypes = dict(dtypes)
            dtypes[va] = 'float64'  # scipp: variances need a floating-point dtype
        if any(dtypes[a.name] == 'float32' for a in spec.args if a.data) and any(
                units[a.name] not in F32_DOMAIN[a.kind] for a in spec.args):
            ctx.count('cells out of the float32 domain (extreme unit with single-precision data)')
            continue
        kw = build(units, dtypes, variances=va, size=opt.size)
        sig = (spec.name, tuple(units[a.name] for a in spec.args), tuple(dtypes[a.name] for a in spec.args))
        if not layout.default:
            sig = (*sig, layout.tag)
        if not opt.plain:
            sig = (*sig, opt.tag)
        if kw is None:
            ctx.count('cells skipped: value not an exact small integer in that unit')
            continue
        if spec.name == 'time_at_sample_from_tof' and any(
                dtypes[n] == 'int32' and np.max(np.abs(np.asarray(flat(kw[n])[2], dtype=np.float64))) >= 46341
                for n in ('L2', 'wavelength', 'tof', 'pulse_time')):
            # the property quantifies over integer operands whose squares are representable: an int32
            # operand of 46341 or more is outside it (this kernel multiplies two operands as they are)
            ctx.count('cells outside the quantifier: int32 operand whose square is not representable')
            continue
        # re-expressing a float32 operand in another unit is itself only exact to single precision, so any
        # float32 operand sets the comparison to single precision here (C01/C05 judge mixed-precision
        # accuracy against the definition at the actual input values)
        any32 = any(dtypes[a.name] == 'float32' for a in spec.args if not a.vector)
        tol = TOL32 if any32 else TOL64
        data_args = [a for a in spec.args if a.data]
        if spec.dtype_rule == 'data':
            want_dtype = sc.DType.float32 if data_args and all(dtypes[a.name] == 'float32' for a in data_args) else sc.DType.float64
        elif spec.dtype_rule == 'f64':
            want_dtype = sc.DType.float64
        else:
            want_dtype = None
        want_unit = spec.out(units)
        case = {'kernel': spec.name, 'units': units, 'dtypes': dtypes}
        if not layout.default:
            case['layout'] = layout.tag
        lkeys = {} if layout.default else {'layout': 'events' if layout.binned else 'dense, 0-D operands'}
        if not opt.plain:
            case['use'] = opt.tag
            lkeys['use'] = opt.kind
        holder = {}

        def judge(ev, case=case, tol=tol, want_dtype=want_dtype, want_unit=want_unit, sig=sig, kw=kw, any32=any32,
                  lkeys=lkeys, holder=holder, dtypes=dtypes, first=None):
            if ev.exc is not None:
                holder['kernel_raised'] = True
                if isinstance(ev.exc, sc.DTypeError) and any(d == 'int32' for d in case['dtypes'].values()):
                    ctx.count('cells unsupported by scipp (DTypeError with int32)')
                    return
                if va is not None and isinstance(ev.exc, sc.VariancesError) and spec.name in GRAVITY_KERNELS:
                    # the gravity kernels of the unchanged tree refuse a wavelength with variances (scipp does
                    # not broadcast variances): a refusal, not a result
                    ctx.count('refused: wavelength with variances in a gravity kernel (VariancesError)')
                    return
                ctx.violation('raised', f'{spec.name} raised {type(ev.exc).__name__}: {ev.exc}',
                              dict(case, args={k: desc(v) for k, v in kw.items()}), kernel=spec.name,
                              exc=type(ev.exc).__name__, int_operand=any(d.startswith('int') for d in case['dtypes'].values()),
                              **lkeys)
                return
            ctx.event(spec.name)
            if not layout.default:
                ctx.event(spec.name + (' [event data]' if layout.binned else ' [0-D operands]'))
                note_layout_classes(ctx, spec, layout, case['dtypes'])
            if not opt.plain:
                ctx.event(spec.name + ' [' + opt.kind + ']')
                ctx.event('[' + opt.kind + ']')
                note_opt_classes(ctx, spec, opt, layout, dtypes, nan_mask)
            try:
                outs = out_values(spec, ev.result)
                for key, var in outs.items():
                    label = spec.name + (f'[{key}]' if key else '')
                    if var.bins is None and var.dims != base_dims[key] and set(var.dims) == set(base_dims[key]):
                        var = var.transpose(base_dims[key])
                    got_unit, got_dtype, got_vals = flat(var)
                    if got_unit != want_unit:
                        ctx.violation('unit', f'{label}: output unit {got_unit}, documented {want_unit}', case,
                                      kernel=spec.name, **lkeys)
                        return
                    if want_dtype is not None and got_dtype != want_dtype:
                        ctx.violation('dtype', f'{label}: output dtype {got_dtype}, contract says {want_dtype}', case,
                                      kernel=spec.name, got=str(got_dtype), **lkeys)
                        return
                    got = got_vals.astype(si.LD) * si.factor(got_unit)
                    want, scale = base_out[key], abs_scale
                    if opt.size is not None:
                        if var.ndim != want.ndim or set(var.dims) != set(base_dims[key]):
                            ctx.violation('shape', f'{label}: result dims {var.dims}, canonical small call {base_dims[key]}',
                                          case, kernel=spec.name, **lkeys)
                            return
                        want = tile_to(want, base_dims[key], var.sizes)
                        if np.ndim(scale):
                            scale = tile_to(scale, base_dims[key], var.sizes)
                    if (not layout.default or opt.size is not None or opt.vec is not None) and (
                            got.shape != want.shape or (var.bins is None) != (not layout.binned)):
                        ctx.violation('shape', f'{label}: result holds {got.shape} {"dense" if var.bins is None else "event"} '
                                      f'values for {want.shape} {"event" if layout.binned else "dense"} values put in', case,
                                      kernel=spec.name, **lkeys)
                        return
                    ok = np.ones(got.shape, dtype=bool)
                    if spec.cond == 'inelastic':
                        got_nan = np.isnan(np.asarray(got_vals, dtype=np.float64))
                        early = nan_mask if opt.size is None else tile_to(nan_mask, base_dims[key], var.sizes)
                        ok = ~early
                        if got_nan.shape != early.shape or not np.array_equal(got_nan, early):
                            ctx.violation('nan_pattern', f'{label}: NaN at points {np.flatnonzero(got_nan)[:12].tolist()}, documented: '
                                          f'NaN exactly where tof <= t0, points {np.flatnonzero(early)[:12].tolist()}',
                                          dict(case, args={k: desc(v) for k, v in kw.items()}, t0_us=[repr(x) for x in t0_us]),
                                          kernel=spec.name, **lkeys)
                            return
                        if not ok.any():
                            continue
                    if scale is not None:
                        f = np.abs(got - want) / (tol * scale)
                    else:
                        f = si.relerr(got, want) / tol
                    f = np.where(ok, f, 0)
                    worst = float(np.max(f))
                    ctx.dev(f'{spec.name}{"[" + key + "]" if key else ""}.{"f32" if any32 else "f64"} (fraction of bound)', worst)
                    if not np.all(np.isfinite(np.asarray(got_vals, dtype=np.float64)[ok])) or not worst <= 1:
                        i = int(np.argmax(np.where(np.isfinite(f), f, np.inf)))
                        ctx.violation('not_equivariant', f'{label}: physical result changes by {worst:.3g} x bound when '
                                      f'inputs are re-expressed as {case["units"]} / {case["dtypes"]}',
                                      dict(case, index=i, got=repr(np.ravel(got)[i]), baseline=repr(np.ravel(want)[i]),
                                           args={k: desc(v) for k, v in kw.items()}), kernel=spec.name,
                                      int_operand=any(d.startswith('int') for d in case['dtypes'].values()), **lkeys)
                        return
                    if va is not None:
                        if not judge_variances(label, key, var, got_vals, got_unit, kw, case, tol, lkeys):
                            return
                    if first is not None:
                        u1, d1, v1 = flat(out_values(spec, first)[key])
                        s1, s2 = flat_variances(out_values(spec, first)[key]), flat_variances(var)
                        same = (u1 == got_unit and d1 == got_dtype and np.array_equal(v1, got_vals, equal_nan=True)
                                and (s1 is None) == (s2 is None) and (s1 is None or np.array_equal(s1, s2, equal_nan=True)))
                        ctx.event('second call compared with the first')
                        if not same:
                            ctx.violation('history', f'{label}: the same operands give a different result the second time '
                                          '(after repr / deepcopy / == of the operands and a refused call)',
                                          dict(case, first=desc(out_values(spec, first)[key]), second=desc(var),
                                               args={k: desc(v) for k, v in kw.items()}), kernel=spec.name, **lkeys)
                            return
                holder['result'] = ev.result
            except Exception:  # noqa: BLE001
                ctx.oracle_error('C07 ' + spec.name)

        def judge_variances(label, key, var, got_vals, got_unit, kw, case, tol, lkeys, dtypes=dtypes):
            got_var = flat_variances(var)
            if got_var is None:
                ctx.violation('variances', f'{label}: the result carries no variances although {va} does', case,
                              kernel=spec.name, **lkeys)
                return False
            xu, _, x = flat(kw[va])
            x, vx, y = x.astype(si.LD), flat_variances(kw[va]).astype(si.LD), got_vals.astype(si.LD)
            cond = si.LD(1)
            if spec.name in VAR_POWER:
                p = si.ld(VAR_POWER[spec.name])
                exp = p * p * vx / x**2 * y**2
            elif spec.name in VAR_ADDITIVE:
                exp = vx * (si.factor(xu) / si.factor(got_unit)) ** 2
            elif spec.cond == 'inelastic' and not layout.binned:
                plain_kw = {k: v if v.variances is None else sc.values(v) for k, v in kw.items()}
                t, t0, E, other = inelastic_cond('direct' if 'incident_energy' in kw else 'indirect', plain_kw)
                exp = (2 * other / (t - t0)) ** 2 * vx * (si.factor(xu) / si.factor(got_unit)) ** 2
                cond = 4 * np.abs(t / (t - t0))
            else:
                ctx.count('variances not judged (no unambiguous first-order rule)')
                return True
            if dtypes[va] == 'float32':
                # variances square the dynamic range: intermediate t^4 ... t^8 of an arrival time in ns or of many
                # seconds leave the exponent range of single precision in either direction (the values themselves
                # have been judged); judged only for operands and results of moderate magnitude
                mags = np.abs(np.concatenate([np.ravel(x), np.ravel(y)[np.ravel(y) != 0]]))
                if not np.all(np.isfinite(got_var)) or np.any(mags < 1e-4) or np.any(mags > 1e4):
                    ctx.count('undecided: single-precision variances, operand or result outside 1e-4..1e4 (exponent range)')
                    return True
            ctx.event('variances compared with first-order propagation')
            ctx.hit('operand with variances: ' + dtypes[va])
            f = np.abs(got_var.astype(si.LD) - exp) / (8 * tol * cond * np.abs(exp) + np.finfo(np.float64).tiny)
            f = np.where((exp == 0) & (got_var == 0), 0, f)
            worst = float(np.max(f))
            ctx.dev(f'{spec.name}{"[" + key + "]" if key else ""} variances (fraction of bound)', worst)
            if not worst <= 1:
                i = int(np.argmax(np.where(np.isfinite(f), f, np.inf)))
                ctx.violation('variances', f'{label}: variance of the result is {worst:.3g} x bound away from first-order '
                              f'propagation of the variance of {va}',
                              dict(case, index=i, got=repr(np.ravel(got_var)[i]), expected=repr(np.ravel(exp)[i]),
                                   args={k: desc(v) for k, v in kw.items()}), kernel=spec.name, **lkeys)
                return False
            return True

        def call(judge_fn, stage):
            """One observed call; an exception of the package that the monitor did not see is judged here."""
            mon.expect = {'kernel': spec.name, 'judge': judge_fn}
            exc = masks = None
            holder.pop('kernel_raised', None)
            try:
                masks = invoke(fn, spec, kw, opt)
            except Exception as e:  # noqa: BLE001  inside the kernel: judged through PY_UNWIND
                exc = e
            if mon.expect is not None:  # the monitor never saw the call
                mon.expect = None
                if exc is None:
                    ctx.inconclusive_because(f'monitor on {spec.name} did not observe the call')
                else:
                    ctx.violation('raised', f'{spec.name} called {CALLS[opt.call]}: {type(exc).__name__}: {exc} '
                                  '(before the kernel body ran)', dict(case, args={k: desc(v) for k, v in kw.items()}),
                                  kernel=spec.name, exc=type(exc).__name__, stage='call',
                                  int_operand=any(d.startswith('int') for d in case['dtypes'].values()), **lkeys)
            elif exc is not None and not holder.get('kernel_raised'):
                ctx.violation('raised', f'{spec.name} called {CALLS[opt.call]}: {type(exc).__name__}: {exc} '
                              '(after the kernel returned)', dict(case, args={k: desc(v) for k, v in kw.items()}),
                              kernel=spec.name, exc=type(exc).__name__, stage='after the kernel',
                              int_operand=any(d.startswith('int') for d in case['dtypes'].values()), **lkeys)
            elif masks is not None and opt.masks:
                before, after = masks
                ctx.event('masks of the data array compared after the graph call')
                if before.keys() != after.keys() or any(not np.array_equal(before[k], after[k]) for k in before):
                    ctx.violation('masks', f'{spec.name} as a graph node: masks of the data array changed', case,
                                  kernel=spec.name, **lkeys)

        call(judge, 'first')
        if opt.second and 'result' in holder:
            first = holder.pop('result')
            bad = dict(kw)
            bad[spec.args[0].name] = other_unit(kw[spec.args[0].name])
            try:
                fn(**bad)
                ctx.count('second use: an operand in kg was accepted (no refusal to recover from)')
            except Exception:  # noqa: BLE001  the refusal is the point: the next call must not be affected by it
                ctx.count('second use: an operand in kg was refused, exception caught')
            for v in kw.values():
                repr(v), str(v), copy.copy(v), copy.deepcopy(v), v == v, sc.identical(v, v)  # noqa: B015
            call(lambda ev: judge(ev, first=first), 'second')
        canonical = all(units[a.name] == canon_units[a.name] for a in spec.args) and all(
            d == 'float64' for d in dtypes.values())
        ctx.case(sig, trivial=canonical and layout.default and opt.plain)
        if len(ctx.samples) < 4:
            ctx.sample({'kernel': spec.name, 'units': units, 'dtypes': dtypes,
                        'args': {k: desc(v) for k, v in kw.items()}})


# ------------------------------------ nearly perpendicular incident beams ---
# The gravity kernels choose their implementation (scattering_angle_in_yz_plane: refuse or compute) by the
# component of the incident beam along gravity.  Unit equivariance quantifies over every geometry, so the
# same nearly perpendicular beam (component 1e-12 ... 1e-3 of its length) is given in every beam unit.
# Soundness (DESIGN 9.2, "C04 dispatch band"): the unchanged tree dispatches on an absolute 1e-10 in the
# beam's own unit, located only to the rounding of a float64 dot product; at or below it the beam is
# treated as exactly perpendicular, which differs from the general construction by the actual tilt.
TILT_LADDER = [10.0 ** k for k in range(-12, -2)]
DISPATCH = 1e-10
NEARLY = 'nearly perpendicular incident beam: '


def along_gravity(kw):
    """(component of the incident beam along gravity in the beam's own unit, tilt in rad, |b1|)."""
    b = np.asarray(kw['incident_beam'].values, dtype=si.LD)
    g = np.asarray(kw['gravity'].values, dtype=si.LD)
    c = np.abs(np.dot(b, g)) / np.sqrt(np.dot(g, g))
    nb = np.sqrt(np.dot(b, b))
    return c, c / nb, nb


def run_gravity_tilt(rng, ctx, spec, fn, mon):
    n = 4
    yz = spec.name == 'scattering_angle_in_yz_plane'
    beam_units = [u for u, _ in KINDS['beam']]
    canon_units = {a.name: KINDS[a.kind][0][0] for a in spec.args}
    wl = next(a for a in spec.args if a.name == 'wavelength')
    for it, decade in enumerate(TILT_LADDER):
        tau = decade * float(rng.uniform(1.0, 3.0))
        sign = 1.0 if it % 2 == 0 else -1.0
        rotated = (it // 2) % 2 == 1  # the whole geometry (beams and gravity) in a rotated frame
        R = np.eye(3)
        if rotated:
            q, r = np.linalg.qr(rng.normal(size=(3, 3)))
            R = q * np.sign(np.diag(r))
            if np.linalg.det(R) < 0:
                R[:, 0] = -R[:, 0]
        ey, ez = R[:, 1], R[:, 2]
        L = round(float(rng.uniform(2.0, 60.0)), 2)
        d = rng.normal(size=(n, 3))
        d[:, 2] = np.abs(d[:, 2]) + 0.5
        d[:, 0] += 0.5
        d = np.round(d * 4, 3)
        vecs = {'gravity': -9.8125 * ey, 'incident_beam': L * (np.cos(tau) * ez + sign * np.sin(tau) * ey),
                'scattered_beam': d @ R.T}
        pt = draw_point(rng, spec, n, force_integer=it % 3 != 2)
        own_dim = it % 2 == 1

        def build(units, dtypes, vecs=vecs, pt=pt, own_dim=own_dim):
            kw = {}
            for a in spec.args:
                u, dt = units[a.name], dtypes[a.name]
                if a.vector:
                    kw[a.name] = make_var(vecs[a.name] / float(dict(KINDS[a.kind])[u]), u, 'float64', vector=True)
                    continue
                vals = [express(v, a.kind, u, dt) for v in pt[a.name]]
                if any(v is None for v in vals):
                    return None
                kw[a.name] = make_var(vals, u, dt, dim='w' if own_dim else 'x')
            return kw

        base_kw = build(canon_units, {a.name: 'float64' for a in spec.args})
        c0, tilt0, nb0 = along_gravity(base_kw)
        try:
            base = fn(**base_kw)
            base_dims = {k: v.dims for k, v in out_values(spec, base).items()}
            base_out = {k: phys(v) for k, v in out_values(spec, base).items()}
        except Exception as e:  # noqa: BLE001  the package refused the reference cell: an observation, not a harness error
            if not (yz and isinstance(e, ValueError)):
                ctx.violation('raised', f'{spec.name} raised {type(e).__name__}: {e} in the canonical-unit float64 cell',
                              {'kernel': spec.name, 'tilt_rad': tau, 'args': {k: desc(v) for k, v in base_kw.items()}},
                              kernel=spec.name, exc=type(e).__name__, int_operand=False, geometry='nearly perpendicular')
                continue
            base_out = base_dims = None  # refused
        for ui in beam_units:
            for us in beam_units:
                dt = DTYPES[int(rng.choice(4, p=[0.5, 0.2, 0.2, 0.1]))]
                wus = [u for u, _ in KINDS[wl.kind] if dt != 'float32' or u in F32_DOMAIN[wl.kind]]
                wus = [u for u in wus if all(express(v, wl.kind, u, dt) is not None for v in pt['wavelength'])]
                if not wus:
                    dt, wus = 'float64', [u for u, _ in KINDS[wl.kind]]
                units = {'incident_beam': ui, 'scattered_beam': us, 'wavelength': wus[int(rng.integers(len(wus)))],
                         'gravity': KINDS['accel'][int(rng.integers(len(KINDS['accel'])))][0]}
                dtypes = {a.name: 'float64' for a in spec.args}
                dtypes['wavelength'] = dt
                kw = build(units, dtypes)
                c1, tilt1, nb1 = along_gravity(kw)
                # threshold located to the rounding of the float64 dot product |g.b1| (8 eps |b1|) and of its scaling
                in_band = bool(c0 <= DISPATCH * (1 + 1e-6) + 8 * si.EPS64 * nb0
                               or c1 <= DISPATCH * (1 + 1e-6) + 8 * si.EPS64 * nb1)
                tilt = float(max(tilt0, tilt1))
                tol = (TOL32 if dt == 'float32' else TOL64) + (2 * tilt if in_band else 0.0)
                want_dtype = sc.DType.float32 if dt == 'float32' else sc.DType.float64
                case = {'kernel': spec.name, 'units': units, 'dtypes': dtypes, 'tilt_rad': tilt,
                        'component_along_gravity': {'m (baseline)': float(c0), ui: float(c1)},
                        'rotated_frame': rotated, 'wavelength_dim': 'w' if own_dim else 'x'}
                keys = {'kernel': spec.name, 'geometry': 'nearly perpendicular'}

                def judge(ev, case=case, tol=tol, want_dtype=want_dtype, kw=kw, in_band=in_band, ui=ui, dt=dt,
                          base_out=base_out, base_dims=base_dims, keys=keys):
                    refused = yz and isinstance(ev.exc, ValueError)
                    if ev.exc is not None and not refused:
                        if isinstance(ev.exc, sc.DTypeError) and dt == 'int32':
                            ctx.count('cells unsupported by scipp (DTypeError with int32)')
                            return
                        ctx.violation('raised', f'{spec.name} raised {type(ev.exc).__name__}: {ev.exc}',
                                      dict(case, args={k: desc(v) for k, v in kw.items()}),
                                      exc=type(ev.exc).__name__, int_operand=dt.startswith('int'), **keys)
                        return
                    if refused != (base_out is None):
                        if in_band:
                            ctx.count('undecided: refusal differs between units inside the dispatch band (1e-10 in the '
                                      "beam's own unit)")
                            return
                        ctx.event(spec.name + ' [nearly perpendicular]')
                        ctx.violation('unit_dependent_refusal',
                                      f'{spec.name}: the same geometry (tilt {case["tilt_rad"]:.3g} rad) is '
                                      f'{"refused" if refused else "accepted"} with the incident beam in {ui} and '
                                      f'{"refused" if base_out is None else "accepted"} in m',
                                      dict(case, args={k: desc(v) for k, v in kw.items()}), **keys)
                        return
                    ctx.event(spec.name + ' [nearly perpendicular]')
                    ctx.hit(NEARLY + ('dispatch band (allowance 2 x tilt)' if in_band else
                                      'component above 1e-10 in every compared unit (rounding only)'))
                    ctx.hit(NEARLY + 'beams in ' + ui)
                    if refused:
                        ctx.hit(NEARLY + 'refused in every compared unit')
                        return
                    try:
                        for key, var in out_values(spec, ev.result).items():
                            label = spec.name + (f'[{key}]' if key else '')
                            if var.unit != sc.Unit('rad'):
                                ctx.violation('unit', f'{label}: output unit {var.unit}, documented rad', case, **keys)
                                return
                            if var.dtype != want_dtype:
                                ctx.violation('dtype', f'{label}: output dtype {var.dtype}, contract says {want_dtype}',
                                              case, got=str(var.dtype), **keys)
                                return
                            if set(var.dims) == set(base_dims[key]):
                                var = var.transpose(base_dims[key])
                            got, want = phys(var), base_out[key]
                            if got.shape != want.shape:
                                ctx.violation('shape', f'{label}: result shape {got.shape}, baseline {want.shape}', case,
                                              **keys)
                                return
                            f = np.abs(got - want) / tol
                            worst = float(np.max(f))
                            ctx.dev(f'{label} nearly perpendicular{" (dispatch band)" if in_band else ""}.'
                                    f'{"f32" if dt == "float32" else "f64"} (fraction of bound)', worst)
                            if not np.all(np.isfinite(np.asarray(var.values, dtype=np.float64))) or worst > 1:
                                i = int(np.argmax(f))
                                ctx.violation('not_equivariant',
                                              f'{label}: result changes by {worst:.3g} x bound ({tol:.3g} rad) when a beam '
                                              f'tilted by {case["tilt_rad"]:.3g} rad against the perpendicular is '
                                              f're-expressed as {case["units"]}',
                                              dict(case, got=repr(np.ravel(got)[i]), baseline=repr(np.ravel(want)[i]),
                                                   args={k: desc(v) for k, v in kw.items()}),
                                              int_operand=dt.startswith('int'), **keys)
                                return
                    except Exception:  # noqa: BLE001
                        ctx.oracle_error('C07 nearly perpendicular ' + spec.name)

                mon.expect = {'kernel': spec.name, 'judge': judge}
                exc = None
                try:
                    fn(**kw)
                except Exception as e:  # noqa: BLE001  judged through PY_UNWIND
                    exc = e
                if mon.expect is not None:
                    mon.expect = None
                    if exc is None:
                        ctx.inconclusive_because(f'monitor on {spec.name} did not observe the call')
                    else:
                        ctx.violation('raised', f'{spec.name}: {type(exc).__name__}: {exc} (before the kernel body ran)',
                                      dict(case, args={k: desc(v) for k, v in kw.items()}), exc=type(exc).__name__,
                                      int_operand=dt.startswith('int'), stage='call', **keys)
                ctx.case((spec.name, 'nearly perpendicular', f'1e{int(np.floor(np.log10(tau)))}', ui, us,
                          units['wavelength'], dt, units['gravity']))


# ------------------------------------------------- results fed back as operands ---
# A result of one kernel is a legitimate operand of the next (that is how conversion graphs use them): the
# chain tof -> wavelength -> energy -> wavelength -> Q -> wavelength -> d-spacing is driven with each result
# handed on as it came out (dense or event data, whatever dtype and unit the package gave it) and compared,
# step by step, with the same chain started from the canonical-unit float64 dense operands.
CHAIN = [('wavelength_from_tof', 'tof', ('Ltotal',), 'angstrom'), ('energy_from_wavelength', 'wavelength', (), 'meV'),
         ('wavelength_from_energy', 'energy', (), 'angstrom'), ('Q_from_wavelength', 'wavelength', ('two_theta',), '1/angstrom'),
         ('wavelength_from_Q', 'Q', ('two_theta',), 'angstrom'),
         ('dspacing_from_wavelength', 'wavelength', ('two_theta',), 'angstrom')]
CHAIN_TOL = 8  # the steps are power laws with exponents of magnitude <= 2: rounding of a step is amplified at most twice


def run_chain(rng, ctx, fns, mon):
    spec = SPEC_BY_NAME['dspacing_from_tof']  # the operands of the whole chain: tof, Ltotal, two_theta
    n = 6
    for layout in (DENSE, Layout(('tof',), 'per_bin')):
        pt = draw_point(rng, spec, n, force_integer=bool(layout.binned))
        rep = layout.rep(n)
        for a in spec.args:
            if a.name not in layout.per_event:
                pt[a.name] = [pt[a.name][r] for r in rep]

        def feasible(a, u, dt, pt=pt):
            return all(express(v, a.kind, u, dt) is not None for v in pt[a.name])

        def build(units, dtypes, layout, pt=pt):
            kw = {}
            for a in spec.args:
                vals = [express(v, a.kind, units[a.name], dtypes[a.name]) for v in pt[a.name]]
                if any(v is None for v in vals):
                    return None
                if a.name in layout.binned:
                    kw[a.name] = make_events(vals, units[a.name], dtypes[a.name])
                elif layout.binned:
                    kw[a.name] = make_var([vals[r] for r in EV_REP_BIN], units[a.name], dtypes[a.name])
                else:
                    kw[a.name] = make_var(vals, units[a.name], dtypes[a.name])
            return kw

        def chain(kw, judge_step):
            cur = kw['tof']
            for k, (name, operand, others, _) in enumerate(CHAIN):
                args = {operand: cur, **{o: kw[o] for o in others}}
                cur = judge_step(k, name, args)
                if cur is None:
                    return

        base = []
        base_kw = build({a.name: KINDS[a.kind][0][0] for a in spec.args}, {a.name: 'float64' for a in spec.args}, DENSE)
        try:
            def plain_step(k, name, args):
                res = fns[name](**args)
                base.append(phys(res))
                return res
            chain(base_kw, plain_step)
        except Exception as e:  # noqa: BLE001
            ctx.violation('raised', f'chain of kernels: {type(e).__name__}: {e} in the canonical-unit float64 cell',
                          {'chain': [c[0] for c in CHAIN], 'args': {k: desc(v) for k, v in base_kw.items()}},
                          kernel='chain', exc=type(e).__name__, int_operand=False, cell='canonical')
            continue
        for units, dtypes in layout_cells(rng, spec)(feasible):
            kw = build(units, dtypes, layout)
            if kw is None:
                ctx.count('cells skipped: value not an exact small integer in that unit')
                continue
            any32 = 'float32' in dtypes.values()
            tol = CHAIN_TOL * (TOL32 if any32 else TOL64)
            want_dtype = sc.DType.float32 if dtypes['tof'] == 'float32' else sc.DType.float64
            case = {'chain': [c[0] for c in CHAIN], 'units': units, 'dtypes': dtypes, 'layout': layout.tag}
            keys = {'use': 'results fed back', 'layout': 'events' if layout.binned else 'dense'}

            def observed_step(k, name, args, case=case, tol=tol, want_dtype=want_dtype, kw=kw, keys=keys, dtypes=dtypes):
                out = {}

                def judge(ev):
                    c = dict(case, step=k, kernel=name, args={a: desc(v) for a, v in args.items()})
                    if ev.exc is not None:
                        if isinstance(ev.exc, sc.DTypeError) and 'int32' in dtypes.values():
                            ctx.count('cells unsupported by scipp (DTypeError with int32)')
                            return
                        ctx.violation('raised', f'{name} raised {type(ev.exc).__name__}: {ev.exc} on the result of '
                                      f'{CHAIN[k - 1][0] if k else "the caller"}', c, kernel=name, exc=type(ev.exc).__name__,
                                      int_operand=any(d.startswith('int') for d in dtypes.values()), **keys)
                        return
                    try:
                        ctx.event('[results fed back]')
                        ctx.hit('results fed back as operands: ' + ('event data' if layout.binned else 'dense'))
                        if k:
                            ctx.hit('results fed back as operands: ' + str(flat(args[CHAIN[k][1]])[1]) + ' result handed on')
                        got_unit, got_dtype, got_vals = flat(ev.result)
                        if got_unit != sc.Unit(CHAIN[k][3]):
                            ctx.violation('unit', f'{name}: output unit {got_unit}, documented {CHAIN[k][3]}', c, kernel=name, **keys)
                            return
                        if got_dtype != want_dtype:
                            ctx.violation('dtype', f'{name}: output dtype {got_dtype}, contract says {want_dtype} (step {k} of '
                                          'the chain)', c, kernel=name, got=str(got_dtype), **keys)
                            return
                        got = got_vals.astype(si.LD) * si.factor(got_unit)
                        if got.shape != base[k].shape or (ev.result.bins is None) != (not layout.binned):
                            ctx.violation('shape', f'{name}: result holds {got.shape} values, chain started with {base[k].shape}',
                                          c, kernel=name, **keys)
                            return
                        worst = float(np.max(si.relerr(got, base[k]) / tol))
                        ctx.dev(f'chain step {k} {name}.{"f32" if "float32" in dtypes.values() else "f64"} (fraction of bound)', worst)
                        if not worst <= 1:
                            ctx.violation('not_equivariant', f'{name} (step {k} of the chain): physical result changes by '
                                          f'{worst:.3g} x bound when the chain starts from {case["units"]} / {case["dtypes"]}',
                                          c, kernel=name, int_operand=any(d.startswith('int') for d in dtypes.values()), **keys)
                            return
                        out['res'] = ev.result
                    except Exception:  # noqa: BLE001
                        ctx.oracle_error('C07 chain ' + name)

                mon.expect = {'kernel': name, 'judge': judge}
                exc = None
                try:
                    fns[name](**args)
                except Exception as e:  # noqa: BLE001  judged through PY_UNWIND
                    exc = e
                if mon.expect is not None:
                    mon.expect = None
                    if exc is None:
                        ctx.inconclusive_because(f'monitor on {name} did not observe the call')
                    else:
                        ctx.violation('raised', f'{name}: {type(exc).__name__}: {exc} (before the kernel body ran)',
                                      dict(case, step=k), kernel=name, exc=type(exc).__name__, stage='call',
                                      int_operand=False, **keys)
                return out.get('res')

            chain(kw, observed_step)
            ctx.case(('chain', tuple(units.values()), tuple(dtypes.values()), layout.tag))


GRAVITY_KERNELS = [s.name for s in SPECS if any(a.name == 'gravity' for a in s.args)]


def all_cells(spec):
    per_arg = []
    for a in spec.args:
        us = [u for u, _ in KINDS[a.kind]]
        dts = ['float64'] if a.vector else DTYPES
        per_arg.append([(a.name, u, d) for u in us for d in dts])
    for combo in itertools.product(*per_arg):
        yield {n: u for n, u, _ in combo}, {n: d for n, _, d in combo}


def plan(tier, seed):
    shards = []
    # quick: 14 planned shards, so that they run in one wave together with the two environment variants of shard 0
    names = [s.name for s in SPECS]
    if tier == 'quick':
        light = [n for n in names if n in ('L1', 'L2', 'two_theta', 'total_straight_beam_length_no_scatter',
                                           'time_at_sample_from_tof')]
        other = [n for n in names if n not in light]
        groups = [other[i:i + 4] for i in range(0, len(other), 4)] + [light]
    else:
        groups = [names[i:i + 2] for i in range(0, len(names), 2)]
    for group in groups:
        shards.append({'kernels': group, 'cells': 3000 if tier == 'quick' else 140000, 'points': 2})
    # the forced classes (event-data / 0-D layouts, nearly perpendicular beams, unphysical arrival times) in shards
    # of their own
    with_layouts = [s.name for s in SPECS if layouts_of(s)]
    heavy = [[n] for n in with_layouts if n.startswith('energy_transfer')] + [list(GRAVITY_KERNELS)]
    rest = [n for n in with_layouts if not any(n in h for h in heavy)]
    for group in [*heavy, rest[:len(rest) // 2], rest[len(rest) // 2:]]:
        shards.append({'part': 'classes', 'kernels': group, 'rounds': 1 if tier == 'quick' else 6})
    # classes of use (variances, calling conventions / graph nodes, caller dim names, second use, fed-back results)
    for k, group in enumerate([names[0::2], names[1::2]]):
        shards.append({'part': 'uses', 'kernels': group, 'chain': k == 1, 'rounds': 1 if tier == 'quick' else 4})
    # operands beyond every size threshold: heavy cases in shards of their own
    for group in (names[0::2], names[1::2]):
        shards.append({'part': 'sizes', 'kernels': group})
    return shards


FORCED = [
    'dense data operand with 0-D other operands',
    'event data with per-bin dense operands', 'event data with 0-D dense operands',
    'event data: float32 events', 'event data: float64 events', 'event data: int64 events',
    'event data: float32 events with a float64/integer dense operand',
    'event data: float32 events with a dense DATA operand that is not float32 (contract: float64)',
    'event data: float32 events with a float32 dense data operand (contract: float32)',
    'event data: all data operands of a two-data-operand kernel are events',
    NEARLY + 'dispatch band (allowance 2 x tilt)',
    NEARLY + 'component above 1e-10 in every compared unit (rounding only)',
    NEARLY + 'refused in every compared unit',
] + [NEARLY + 'beams in ' + u for u, _ in KINDS['beam']] + [
    'unphysical points (tof <= t0): ' + v for v in UNPHYSICAL.values()
] + [
    f'unphysical points: tof {a} x energy {b}' for a in ('float64', 'float32', 'int64') for b in ('float64', 'float32', 'int64')
] + [
    'unphysical points: event data', 'unphysical points: dense operands',
    'operand with variances: power law', 'operand with variances: additive term',
    'operand with variances: energy transfer (tof)', 'operand with variances: float64', 'operand with variances: float32',
    'operand with variances: event data', 'operand with variances: dense',
] + ['called ' + CALLS[c] for c in ('positional', 'mixed', 'graph')] + [
    'graph node: event data', 'graph node: dense data array', 'graph node: masks on the data array',
    'graph node: masks on the data array and on the events', 'graph node: dim named like the input coordinate',
    'second use: same operands again after repr / deepcopy / == and a refused call',
    'results fed back as operands: event data', 'results fed back as operands: dense',
    'results fed back as operands: float32 result handed on', 'results fed back as operands: float64 result handed on',
    'size 2**20 + 7', 'size 3 x 400001 (gravity kernels, 2-d)',
    'operand layouts: all 0-D', 'operand layouts: over different dims (2-d result)', 'operand layouts: 0-D next to one per point',
] + [f'caller dim named {d!r}' for d in DIM_NAMES]


def requirements(tier):
    ev = {s.name: 20 for s in SPECS}
    for s in SPECS:
        if layouts_of(s):
            ev[s.name + ' [event data]'] = 8
            ev[s.name + ' [0-D operands]'] = 4
        ev[s.name + ' [large operands]'] = 1
        ev[s.name + ' [second use]'] = 8
        ev[s.name + ' [caller dim names]'] = 8
        ev[s.name + ' [call ' + CALLS['graph'] + ']'] = 8
        if s.name in POSITIONAL:
            ev[s.name + ' [call ' + CALLS['positional'] + ']'] = 8
            ev[s.name + ' [call ' + CALLS['mixed'] + ']'] = 8
        if var_arg(s) and s.name not in GRAVITY_KERNELS:
            ev[s.name + ' [variances]'] = 8
        if vector_layouts(s):
            ev[s.name + ' [operand layouts]'] = 4
        if s.cond == 'inelastic':
            ev[s.name + ' [unphysical points]'] = 100
    for k in GRAVITY_KERNELS:
        ev[k + ' [nearly perpendicular]'] = 40
    ev['variances compared with first-order propagation'] = 200
    ev['second call compared with the first'] = 200
    ev['masks of the data array compared after the graph call'] = 100
    ev['[results fed back]'] = 200
    ev['[large operands]'] = 40
    return {'events': ev, 'forced': list(FORCED),
            'counters': {'second use: an operand in kg was refused, exception caught': 50}}


def some_cells(rng, spec, k):
    """About k cells of the kernel's grid: the dtype product first (units drawn among the feasible ones)."""
    gen = layout_cells(rng, spec)

    def cells(feasible):
        out = gen(feasible)
        if len(out) > k:
            out = [out[i] for i in sorted(rng.choice(len(out), size=k, replace=False))]
        return out
    return cells


def size_cells(rng, spec):
    """The canonical cell and one cell per other dtype of the (first) data operand - float32, int64 - the rest drawn."""
    gen = layout_cells(rng, spec)
    lead = next((a.name for a in spec.args if a.data), next((a.name for a in spec.args if not a.vector), None))

    def cells(feasible):
        out = gen(feasible)
        order = rng.permutation(len(out))
        picked = []
        scal = [a for a in spec.args if not a.vector]
        # the canonical-unit float64 cell is always representable: at least one large case per kernel in every run
        picked.append(({a.name: KINDS[a.kind][0][0] for a in spec.args}, {a.name: 'float64' for a in spec.args}))
        for dt in ('float32', 'int64'):
            for i in order:
                units, dtypes = out[i]
                if (lead is None or dtypes[lead] == dt) and all(feasible(a, units[a.name], dtypes[a.name]) for a in scal):
                    picked.append(out[i])
                    break
            if lead is None:
                break
        return picked
    return cells


def run_uses(rng, ctx, spec, fn, mon, tier, k_index, seed, rounds):
    """The classes of use of one kernel (see `Opt`)."""
    lays = layouts_of(spec)
    ev_lay = None
    va = var_arg(spec)
    if lays:
        data = [a.name for a in spec.args if a.data]
        ev_lay = Layout(tuple(data), 'per_bin')
    for rnd in range(rounds):
        pi = k_index + rnd  # alternates the gravity implementations / the 2-d layout
        # (a) variances on the operand that has a first-order rule of its own
        if va is not None:
            run_kernel_grid(rng, ctx, spec, fn, some_cells(rng, spec, 48), tier, mon, pi, opt=Opt(variances=True))
            if ev_lay is not None and spec.cond != 'inelastic' and spec.name not in GRAVITY_KERNELS:
                run_kernel_grid(rng, ctx, spec, fn, some_cells(rng, spec, 32), tier, mon, pi, layout=ev_lay,
                                opt=Opt(variances=True))
        # (d) calling conventions; (b) masks on the data array whose coordinates the graph node reads
        first = next((a.name for a in spec.args if a.data), spec.args[0].name)
        run_kernel_grid(rng, ctx, spec, fn, some_cells(rng, spec, 32), tier, mon, pi, opt=Opt(call='graph', masks=True))
        run_kernel_grid(rng, ctx, spec, fn, some_cells(rng, spec, 16), tier, mon, pi, opt=Opt(call='graph', dim=first))
        if ev_lay is not None:
            run_kernel_grid(rng, ctx, spec, fn, some_cells(rng, spec, 32), tier, mon, pi, layout=ev_lay,
                            opt=Opt(call='graph', masks=True))
        if spec.name in POSITIONAL:
            for c in ('positional', 'mixed'):
                run_kernel_grid(rng, ctx, spec, fn, some_cells(rng, spec, 32), tier, mon, pi + (c == 'mixed'), opt=Opt(call=c))
        # (c) dims named like names the implementation uses for its own dims / like the parameters
        # (every name x every kernel; dense and event data alternate with the run)
        for j, d in enumerate(DIM_NAMES):
            run_kernel_grid(rng, ctx, spec, fn, some_cells(rng, spec, 3), tier, mon, pi + j, opt=Opt(dim=d),
                            layout=ev_lay if (j + k_index + seed + rnd) % 2 and ev_lay is not None else DENSE)
        # every layout of the vector operands (0-D, one per point, dims of their own); propagate_times: of the distance
        for vec in vector_layouts(spec):
            run_kernel_grid(rng, ctx, spec, fn, some_cells(rng, spec, 24), tier, mon, pi, opt=Opt(vec=vec))
        # (g, j) second use of the same operands
        run_kernel_grid(rng, ctx, spec, fn, some_cells(rng, spec, 32), tier, mon, pi, opt=Opt(second=True))
        if ev_lay is not None:
            run_kernel_grid(rng, ctx, spec, fn, some_cells(rng, spec, 16), tier, mon, pi, layout=ev_lay, opt=Opt(second=True))


def run(shard, ctx):
    from scippneutron.conversion import beamline as KB
    from scippneutron.conversion import tof as KT
    from scippneutron.tof import chopper_cascade as KC

    mods = {'tof': KT, 'beamline': KB, 'cascade': KC}
    bad = si.self_test()
    if bad:
        ctx.inconclusive_because('unit table cross-check failed: ' + '; '.join(bad))
        return
    rng = np.random.Generator(np.random.PCG64([shard['seed'], shard['index'], 7]))
    rng2 = np.random.Generator(np.random.PCG64([shard['seed'], shard['index'], 11]))  # layout / geometry classes
    mon = Monitor(ctx)
    tr = Tracer()
    fns = {}
    for s in SPECS:
        fns[s.name] = getattr(mods[s.mod], s.name)
        tr.watch(fns[s.name], s.name, on_return=mon.handler(s.name))
    full = {}
    if shard.get('part') == 'classes':
        # forced classes, the same in every run
        with tr:
            for name in shard['kernels']:
                spec = SPEC_BY_NAME[name]
                fn = fns[name]
                lays = layouts_of(spec)
                for rnd in range(shard['rounds']):
                    # event-data / 0-D layouts x the dtype product ...
                    for il, lay in enumerate(lays):
                        run_kernel_grid(rng2, ctx, spec, fn, layout_cells(rng2, spec), shard['tier'], mon,
                                        il + rnd * len(lays), layout=lay)
                    # ... arrival times at or before t0 (documented: NaN there) x the dtype product of tof x energy ...
                    if spec.cond == 'inelastic':
                        data = tuple(a.name for a in spec.args if a.data)
                        for pattern, lay in (('some', DENSE), ('zero', DENSE), ('all', Layout((), 'scalar', arrays=data)),
                                             ('some', Layout(data, 'per_bin')), ('zero', Layout(('tof',), 'per_bin')),
                                             ('some', Layout((data[1],), 'per_bin'))):
                            run_kernel_grid(rng2, ctx, spec, fn, layout_cells(rng2, spec), shard['tier'], mon, rnd,
                                            layout=lay, opt=Opt(unphysical=pattern))
                    # ... and nearly perpendicular incident beams x every beam unit for the gravity kernels
                    if name in GRAVITY_KERNELS:
                        run_gravity_tilt(rng2, ctx, spec, fn, mon)
                full[name] = {'layouts': [lay.tag for lay in lays], 'rounds': shard['rounds']}
                if name in GRAVITY_KERNELS:
                    full[name]['nearly_perpendicular_tilts'] = len(TILT_LADDER) * shard['rounds']
                if spec.cond == 'inelastic':
                    full[name]['unphysical_point_patterns'] = list(UNPHYSICAL.values())
        ctx.extra['classes_' + '_'.join(shard['kernels'])] = full
        return
    if shard.get('part') == 'uses':
        with tr:
            for name in shard['kernels']:
                run_uses(rng2, ctx, SPEC_BY_NAME[name], fns[name], mon, shard['tier'],
                         [s.name for s in SPECS].index(name), shard['seed'], shard['rounds'])
            if shard.get('chain'):
                for _ in range(shard['rounds']):
                    run_chain(rng2, ctx, fns, mon)
        ctx.extra['uses_' + str(shard['index'])] = {'kernels': shard['kernels'], 'rounds': shard['rounds'],
                                                   'chain': [c[0] for c in CHAIN] if shard.get('chain') else None}
        return
    if shard.get('part') == 'sizes':
        with tr:
            for k, name in enumerate(shard['kernels']):
                spec = SPEC_BY_NAME[name]
                run_kernel_grid(rng2, ctx, spec, fns[name], size_cells(rng2, spec), shard['tier'], mon, k % 2,
                                opt=Opt(size=BIG))
                if name in GRAVITY_KERNELS:
                    run_kernel_grid(rng2, ctx, spec, fns[name], size_cells(rng2, spec), shard['tier'], mon, 2,
                                    opt=Opt(size=BIG_2D))
        ctx.extra['sizes_' + str(shard['index'])] = {'kernels': shard['kernels'], 'elements': BIG, 'two_d': list(BIG_2D)}
        return
    with tr:
        for name in shard['kernels']:
            spec = SPEC_BY_NAME[name]
            fn = fns[name]
            cells = list(all_cells(spec))
            total = len(cells)
            budget = shard['cells']
            min_points = 4 if any(a.name == 'gravity' for a in spec.args) else shard['points']
            points = int(min(40, max(min_points, budget // max(total, 1))))
            k = min(total, max(1, budget // points))
            for ipt in range(points):
                if k < total:
                    idx = rng.choice(total, size=k, replace=False)
                    sub = [cells[i] for i in idx]
                else:
                    sub = cells
                run_kernel_grid(rng, ctx, spec, fn, sub, shard['tier'], mon, ipt)
            full[name] = {'grid_cells': total, 'cells_per_point': k, 'points': points,
                          'grid_complete_per_point': k == total}
    ctx.extra['grid_' + '_'.join(shard['kernels'])] = full


FINDING_PREDICATES = {}

TECHNIQUE = ('runtime monitors (sys.monitoring) on every conversion/geometry kernel while a unit x dtype grid is '
             'driven through it; reference = canonical-unit float64 call of the same kernel + documented unit/dtype table')
LEVEL_TEXT = ('exploration: for each of 20 kernels, physical points are re-expressed in the cells of the unit x '
              'dtype grid (sampled in quick, complete up to a reported cap in thorough); the observed result must carry '
              'the documented unit and dtype and the same physical value as the canonical-unit float64 call within '
              '1e-11 (1e-5 with single-precision operands) times the conditioning of the definition. A finite grid '
              'per physical point; points are sampled. Every run also drives each data operand as binned event data '
              '(and with 0-D operands) through the full dtype product, and the gravity kernels with nearly '
              'perpendicular incident beams through every beam-unit pair (same result to rounding, same '
              'refuse/accept decision of the yz variant, outside the documented dispatch band), the energy-transfer '
              'kernels with arrival times at or before t0 through the dtype product of tof x energy, and per kernel the '
              'classes of use the signatures allow (variances, positional / graph-node calls, masks, caller dim names, '
              'vector layouts, second use, fed-back results, 2**20 + 7 elements).')
LEVEL_NOTE = ('trusted: the canonical-unit float64 results (decided by C01/C03/C04/C05/C08), the independent SI table, '
              'scipp DTypeError as the sign of arithmetic scipp does not support')
DESIGN_REF = 'DESIGN.md section 4, C07'
