"""C07 Kernels are unit-equivariant and keep the documented dtype contract."""

from __future__ import annotations

import itertools
from fractions import Fraction

import numpy as np
import scipp as sc

from rv.oracle import si
from rv.snap import describe
from rv.trace import Tracer

ID = 'C07'
LEVEL = 'exploration'
RULE = (
    'per kernel: one physical point (exact rationals, partly integer-valued in coarse units so that integer '
    'cells are exact) re-expressed in every cell of the grid (unit per argument x dtype in {float64, float32, '
    'int64, int32} per argument); the canonical-unit float64 call of the same kernel is the baseline; quick = '
    'random sample of cells, thorough = the full Cartesian grid (capped per kernel, cap reported); distinct = '
    '(kernel, units, dtypes) cells; trivial = the canonical cell itself. Forced in every run: (a) each kernel with '
    'a data operand also with that operand (each alone / all together) as BINNED event data (6 events in 4 bins, one '
    'empty) next to per-bin or 0-D dense operands, and dense with 0-D operands, x the full dtype product of its '
    'non-vector operands (of its data operands when there are more than three; units drawn per cell), baseline = dense per-event canonical call; (b) the gravity kernels '
    'with incident beams tilted 1e-12..3e-3 rad out of the plane perpendicular to gravity (one per decade, both '
    'signs, axis-aligned and rotated frames, 1-d and 2-d layouts) x every (incident, scattered) beam-unit pair'
)
ASSUMPTIONS = [
    'the canonical-unit float64 result of each kernel is correct (decided by C01/C03/C04/C05/C08)',
    '"no more than rounding" is quantified as in C01: 1e-11 relative in double, 1e-5 when any operand is single '
    'precision, times the condition number of the definition',
    'integer cells are generated only where the value is an exact integer below 2^26 in that unit',
    'nearly perpendicular beams: the unchanged tree switches implementation (yz variant: refuses) at a component '
    "along gravity of 1e-10 in the beam's own unit; a geometry at or below that (to the rounding of the float64 dot "
    'product) in any compared unit gets an allowance of 2 x its tilt, and a refusal that differs between units there '
    'is undecided (DESIGN 9.2, C04 dispatch band)',
]
TOL64, TOL32 = 1e-11, 1e-5

# quantity kinds: list of (unit, exact factor to the canonical unit [first entry])
E_J = 1 / si.E_CHARGE  # J in eV
KINDS = {
    'time': [('us', Fraction(1)), ('ns', Fraction(1, 1000)), ('ms', Fraction(1000)), ('s', Fraction(10**6))],
    'length': [('m', Fraction(1)), ('mm', Fraction(1, 1000)), ('cm', Fraction(1, 100)), ('km', Fraction(1000)),
               ('angstrom', Fraction(1, 10**10))],
    'beam': [('m', Fraction(1)), ('mm', Fraction(1, 1000)), ('cm', Fraction(1, 100)), ('km', Fraction(1000))],
    'wavelength': [('angstrom', Fraction(1)), ('nm', Fraction(10)), ('pm', Fraction(1, 100)), ('m', Fraction(10**10))],
    'energy': [('meV', Fraction(1)), ('ueV', Fraction(1, 1000)), ('eV', Fraction(1000)), ('J', E_J * 1000)],
    'angle': [('rad', None), ('deg', None), ('arcmin', None), ('mrad', None)],
    'Q': [('1/angstrom', Fraction(1)), ('1/nm', Fraction(1, 10)), ('1/m', Fraction(1, 10**10))],
    'accel': [('m/s^2', Fraction(1)), ('mm/s^2', Fraction(1, 1000)), ('cm/s^2', Fraction(1, 100))],
}
DTYPES = ['float64', 'float32', 'int64', 'int32']
# Single precision has a narrow exponent range: a kernel's pre-multiplied constant expressed in extreme
# unit combinations (J, angstrom as a flight path, metres as a wavelength, seconds, 1/m) leaves it, which is
# overflow/underflow of float32 and not a defect.  Cells whose *data* operand is float32 are therefore only
# generated from these moderate units; everything else is counted as out of the float32 domain.
F32_DOMAIN = {
    'time': {'us', 'ms', 'ns'}, 'length': {'m', 'mm', 'cm', 'km'}, 'beam': {'m', 'mm', 'cm', 'km'},
    'wavelength': {'angstrom', 'nm', 'pm'}, 'energy': {'meV', 'ueV', 'eV'}, 'angle': {'rad', 'deg', 'arcmin', 'mrad'},
    'Q': {'1/angstrom', '1/nm'}, 'accel': {'m/s^2', 'mm/s^2', 'cm/s^2'},
}


class Arg:
    def __init__(self, name, kind, data=False, vector=False, lo=None, hi=None, dims=None):
        self.name, self.kind, self.data, self.vector = name, kind, data, vector
        self.lo, self.hi = lo, hi
        self.dims = dims  # None: 1-d 'x' array of points


class Spec:
    def __init__(self, name, mod, args, out, dtype_rule='data', cond=None, outputs=None, absolute=False):
        self.name, self.mod, self.args, self.out = name, mod, args, out
        self.dtype_rule, self.cond, self.outputs, self.absolute = dtype_rule, cond, outputs, absolute


def _u(x):
    return sc.Unit(x)


SPECS = [
    Spec('wavelength_from_tof', 'tof', [Arg('tof', 'time', data=True), Arg('Ltotal', 'length')], lambda u: _u('angstrom')),
    Spec('dspacing_from_tof', 'tof', [Arg('tof', 'time', data=True), Arg('Ltotal', 'length'), Arg('two_theta', 'angle')],
         lambda u: _u('angstrom')),
    Spec('energy_from_tof', 'tof', [Arg('tof', 'time', data=True), Arg('Ltotal', 'length')], lambda u: _u('meV')),
    Spec('energy_from_wavelength', 'tof', [Arg('wavelength', 'wavelength', data=True)], lambda u: _u('meV')),
    Spec('wavelength_from_energy', 'tof', [Arg('energy', 'energy', data=True)], lambda u: _u('angstrom')),
    Spec('Q_from_wavelength', 'tof', [Arg('wavelength', 'wavelength', data=True), Arg('two_theta', 'angle')],
         lambda u: _u('one') / _u(u['wavelength'])),
    Spec('wavelength_from_Q', 'tof', [Arg('Q', 'Q', data=True), Arg('two_theta', 'angle')], lambda u: _u('angstrom')),
    Spec('dspacing_from_wavelength', 'tof', [Arg('wavelength', 'wavelength', data=True), Arg('two_theta', 'angle')],
         lambda u: _u('angstrom')),
    Spec('dspacing_from_energy', 'tof', [Arg('energy', 'energy', data=True), Arg('two_theta', 'angle')],
         lambda u: _u('angstrom')),
    Spec('energy_transfer_direct_from_tof', 'tof',
         [Arg('tof', 'time', data=True), Arg('L1', 'length'), Arg('L2', 'length'), Arg('incident_energy', 'energy', data=True)],
         lambda u: _u(u['incident_energy']), cond='inelastic'),
    Spec('energy_transfer_indirect_from_tof', 'tof',
         [Arg('tof', 'time', data=True), Arg('L1', 'length'), Arg('L2', 'length'), Arg('final_energy', 'energy', data=True)],
         lambda u: _u(u['final_energy']), cond='inelastic'),
    Spec('Q_elements_from_wavelength', 'tof',
         [Arg('wavelength', 'wavelength', data=True), Arg('incident_beam', 'beam', vector=True), Arg('scattered_beam', 'beam', vector=True)],
         lambda u: _u('one') / _u(u['wavelength']), outputs=('Qx', 'Qy', 'Qz'), absolute='Q', dtype_rule=None),
    Spec('L1', 'beamline', [Arg('incident_beam', 'beam', vector=True)], lambda u: _u(u['incident_beam']), dtype_rule='f64'),
    Spec('L2', 'beamline', [Arg('scattered_beam', 'beam', vector=True)], lambda u: _u(u['scattered_beam']), dtype_rule='f64'),
    Spec('two_theta', 'beamline', [Arg('incident_beam', 'beam', vector=True), Arg('scattered_beam', 'beam', vector=True)],
         lambda u: _u('rad'), dtype_rule='f64', absolute='angle'),
    Spec('total_straight_beam_length_no_scatter', 'beamline',
         [Arg('source_position', 'beam', vector=True), Arg('position', 'beam', vector=True)],
         lambda u: _u(u['position']), dtype_rule='f64', cond='same_unit'),
    Spec('scattering_angles_with_gravity', 'beamline',
         [Arg('incident_beam', 'beam', vector=True), Arg('scattered_beam', 'beam', vector=True),
          Arg('wavelength', 'wavelength', data=True), Arg('gravity', 'accel', vector=True)],
         lambda u: _u('rad'), outputs=('two_theta', 'phi'), absolute='angle'),
    Spec('scattering_angle_in_yz_plane', 'beamline',
         [Arg('incident_beam', 'beam', vector=True), Arg('scattered_beam', 'beam', vector=True),
          Arg('wavelength', 'wavelength', data=True), Arg('gravity', 'accel', vector=True)],
         lambda u: _u('rad'), absolute='angle'),
    Spec('propagate_times', 'cascade',
         [Arg('time', 'time'), Arg('wavelength', 'wavelength'), Arg('distance', 'length')],
         lambda u: _u(u['time']), dtype_rule=None, absolute='time'),
    Spec('wavelength_to_inverse_velocity', 'cascade', [Arg('wavelength', 'wavelength')], lambda u: _u('s/m'),
         dtype_rule=None),
    # t_sample = t_pulse + tof - L2 lambda m_n / h: pulse time and time-of-flight are added as they are (scipp
    # refuses to add different units, that is its documented arithmetic), so they share one unit; the flight
    # path and the wavelength may come in any unit.  No dtype is documented for this kernel: values and units only.
    Spec('time_at_sample_from_tof', 'tof',
         [Arg('pulse_time', 'time'), Arg('tof', 'time', data=True), Arg('L2', 'length'), Arg('wavelength', 'wavelength')],
         lambda u: _u(u['tof']), dtype_rule=None, cond='same_time_unit', absolute='time_at_sample'),
]
SPEC_BY_NAME = {s.name: s for s in SPECS}


# --------------------------------------------------------- physical points ---
def draw_point(rng, spec, n=6, force_integer=False):
    """Exact rational values per argument, in the canonical unit of its kind."""
    pt = {}
    for a in spec.args:
        if a.vector:
            continue
        # one scale class per argument and point: integers in the coarsest / the canonical / a fine unit
        # (so that integer cells are exact in several units), or dyadic fractions (float cells only)
        scales = {
            'time': [10**6, 1000, 1], 'length': [1000, 1, Fraction(1, 100)], 'wavelength': [10, 1, Fraction(1, 100)],
            'energy': [1000, 1, Fraction(1, 1000)], 'Q': [1, Fraction(1, 10), Fraction(1, 10)],
        }
        r = rng.random() * (0.8 if force_integer else 1.0)
        vals = []
        for _ in range(n):
            if a.kind == 'angle':
                vals.append(Fraction(int(rng.integers(1, 180))))  # integer degrees
            elif r < 0.8:
                vals.append(Fraction(int(rng.integers(1, 60))) * scales[a.kind][int(r / 0.8 * 3)])
            else:
                vals.append(Fraction(int(rng.integers(1, 10**5)), 64) * scales[a.kind][1])
        pt[a.name] = vals
    return pt


def draw_vectors(rng, spec, n, point_index=0):
    """Beam geometry (float64, metres) for vector arguments; exactly perpendicular g for the yz variant."""
    out = {}
    names = [a.name for a in spec.args if a.vector]
    if not names:
        return out
    if 'gravity' in names:
        out['gravity'] = np.array([0.0, -9.8125, 0.0])
        # alternate between the two implementations (perpendicular / tilted incident beam) point by point
        tilt = 0.0 if spec.name == 'scattering_angle_in_yz_plane' or point_index % 2 == 0 else 0.25
        out['incident_beam'] = np.array([0.0, 8.0 * np.sin(tilt), 8.0 * np.cos(tilt)]) if tilt else np.array([0.0, 0.0, 8.0])
        d = rng.normal(size=(n, 3))
        d[:, 2] = np.abs(d[:, 2]) + 0.5
        d[:, 0] += 0.5
        out['scattered_beam'] = np.round(d * 4, 3)
        return out
    for nm in names:
        v = np.round(rng.normal(size=(n, 3)) * 5 + 1, 3)
        out[nm] = v
    return out


def express(value: Fraction, kind, unit, dtype):
    """Value of the physical quantity in (unit, dtype); None if the cell cannot hold it exactly enough."""
    if kind == 'angle':
        # the physical value is a whole number of degrees; deg and arcmin hold it exactly (also as integers)
        per_deg = {'deg': 1, 'arcmin': 60}.get(unit)
        if dtype.startswith('int'):
            if per_deg is None:
                return None
            return int(value * per_deg)
        if per_deg is not None:
            return float(value * per_deg)
        return float(si.ld(value) * si.PI / 180 / si.factor(sc.Unit(unit)))
    f = dict(KINDS[kind])[unit]
    q = value / f
    if dtype.startswith('int'):
        if q.denominator != 1 or not (0 < q.numerator < 2**26):
            return None
        return int(q)
    return float(si.ld(q))


def make_var(vals, unit, dtype, vector=False, scalar=False, dim='x'):
    if vector:
        arr = np.asarray(vals, dtype=np.float64)
        return sc.vector(arr, unit=unit) if arr.ndim == 1 else sc.vectors(dims=['x'], values=arr, unit=unit)
    return sc.array(dims=[dim], values=np.asarray(vals), unit=unit, dtype=dtype)


# ---------------------------------------------------------------- layouts ---
# The kernels take dense variables and binned (event) variables alike (`_utils.elem_unit/elem_dtype`).  The
# same physical point is therefore also presented with the data operand(s) as event data: 6 events in 4
# bins over 'x' (one bin empty), the remaining operands dense with one value per bin or 0-D.  For such a
# point every event sees the value of its bin's representative event in the non-event operands, so that the
# dense per-event call in canonical units stays the baseline.
EV_BEGIN = np.array([0, 3, 3, 5])
EV_END = np.array([3, 3, 5, 6])
EV_REP_BIN = [0, 0, 3, 5]  # per bin: the event whose values the dense operands take (empty bin: unobserved)
EV_REP_EVENT = [0, 0, 0, 3, 3, 5]  # per event: that representative


class Layout:
    def __init__(self, binned=(), others='x', arrays=()):
        # binned: operands given as event data; arrays: operands kept as dense 1-d arrays next to 0-D operands
        self.binned, self.others, self.arrays = frozenset(binned), others, frozenset(arrays)
        self.per_event = self.binned | self.arrays
        assert others in ('x', 'per_bin', 'scalar') and (not self.binned or others != 'x')

    @property
    def default(self):
        return not self.binned and self.others == 'x'

    @property
    def tag(self):
        return ('events(' + ','.join(sorted(self.binned)) + ')' if self.binned else 'dense') + '/' + {
            'x': 'arrays', 'per_bin': 'per-bin operands', 'scalar': '0-D operands'}[self.others]

    def rep(self, n):
        return {'x': list(range(n)), 'per_bin': EV_REP_EVENT, 'scalar': [0] * n}[self.others]


DENSE = Layout()


def layouts_of(spec):
    """Every way the data operands of a kernel can be event data (each alone, all together) x dense operands
    per bin / 0-D, plus dense data with 0-D operands."""
    data = [a.name for a in spec.args if a.data]
    if not data:
        return []
    sets = [(d,) for d in data] + ([tuple(data)] if len(data) > 1 else [])
    return [Layout(s, o) for s in sets for o in ('per_bin', 'scalar')] + [Layout((), 'scalar', arrays=data)]


def make_events(vals, unit, dtype):
    data = sc.array(dims=['event'], values=np.asarray(vals), unit=unit, dtype=dtype)
    return sc.bins(dim='event', data=data, begin=sc.array(dims=['x'], values=EV_BEGIN, unit=None, dtype='int64'),
                   end=sc.array(dims=['x'], values=EV_END, unit=None, dtype='int64'))


def desc(v):
    d = describe(v)
    if isinstance(v, sc.Variable) and v.bins is not None:
        c = v.bins.constituents
        d.update(events=describe(c['data']), begin=np.asarray(c['begin'].values).tolist(),
                 end=np.asarray(c['end'].values).tolist())
    return d


def flat(var):
    """(element unit, element dtype, element values in bin order) of a dense or binned result."""
    if var.bins is None:
        return var.unit, var.dtype, np.asarray(var.values)
    c = var.bins.constituents
    b, e = np.asarray(c['begin'].values).ravel(), np.asarray(c['end'].values).ravel()
    idx = np.concatenate([np.arange(i, j) for i, j in zip(b, e, strict=True)]) if len(b) else np.zeros(0, dtype=int)
    data = c['data']
    return data.unit, data.dtype, np.asarray(data.values)[idx.astype(int)]


def note_layout_classes(ctx, spec, layout, dtypes):
    """Forced classes of the event-data / 0-D layouts (recorded when a monitor judged such a call)."""
    data = [a.name for a in spec.args if a.data]
    dense_scalars = [a.name for a in spec.args if not a.vector and a.name not in layout.binned]
    if not layout.binned:
        ctx.hit('dense data operand with 0-D other operands')
        return
    ctx.hit('event data with ' + ('per-bin' if layout.others == 'per_bin' else '0-D') + ' dense operands')
    ev_dt = {dtypes[b] for b in layout.binned}
    for dt in ev_dt:
        ctx.hit('event data: ' + dt + ' events')
    if ev_dt == {'float32'}:
        others = {dtypes[nm] for nm in dense_scalars}
        if others - {'float32'}:
            ctx.hit('event data: float32 events with a float64/integer dense operand')
        dense_data = {dtypes[nm] for nm in data if nm not in layout.binned}
        if dense_data - {'float32'}:
            ctx.hit('event data: float32 events with a dense DATA operand that is not float32 (contract: float64)')
        if dense_data == {'float32'}:
            ctx.hit('event data: float32 events with a float32 dense data operand (contract: float32)')
    if len(layout.binned) > 1:
        ctx.hit('event data: all data operands of a two-data-operand kernel are events')


def layout_cells(rng, spec):
    """For an event-data / 0-D layout: the full dtype product of the non-vector operands (of the data operands for
    kernels with more than three, the others' dtypes drawn per cell), repeated to about 100 cells, each cell with
    units drawn from those in which the point is exactly representable in that dtype (moderate units when a data
    operand is float32, see F32_DOMAIN); the complete unit x dtype grid for small kernels."""
    def cells(feasible):
        grid = list(all_cells(spec))
        if len(grid) <= 300:  # small kernels: the complete unit x dtype grid
            return grid
        out = []
        scal = [a for a in spec.args if not a.vector]
        if len(scal) > 3:  # the dtype product of the data operands, the other operands' dtypes drawn per cell
            scal = [a for a in scal if a.data]
        free = [a for a in spec.args if not a.vector and a not in scal]
        for combo in list(itertools.product(DTYPES, repeat=len(scal))) * max(1, 96 // 4 ** len(scal)):
            dtypes = {a.name: 'float64' for a in spec.args}
            dtypes.update({a.name: d for a, d in zip(scal, combo, strict=True)})
            dtypes.update({a.name: DTYPES[int(rng.integers(len(DTYPES)))] for a in free})
            f32 = any(dtypes[a.name] == 'float32' for a in spec.args if a.data)
            units = {}
            for a in spec.args:
                us = [u for u, _ in KINDS[a.kind] if not f32 or u in F32_DOMAIN[a.kind]]
                if not a.vector:
                    us = [u for u in us if feasible(a, u, dtypes[a.name])] or us
                units[a.name] = us[int(rng.integers(len(us)))]
            out.append((units, dtypes))
        return out
    return cells


class Monitor:
    def __init__(self, ctx):
        self.ctx = ctx
        self.expect = None

    def handler(self, name):
        def h(ev):
            ex = self.expect
            if ex is None or ex['kernel'] != name or ev.depth != 0:
                return
            self.expect = None
            ex['judge'](ev)
        return h


def out_values(spec, res):
    if spec.outputs:
        return {k: res[k] for k in spec.outputs}
    return {'': res}


def phys(var):
    """Physical values of a result variable in SI (long double)."""
    return np.asarray(var.values).astype(si.LD) * si.factor(var.unit)


def inelastic_cond(kind, kw):
    """t/(t-t0) scale for the absolute bound of the energy-transfer kernels (from the canonical call)."""
    m = si.constants()['m_n']
    t = phys(kw['tof'])
    if kind == 'direct':
        E, Lf, Lo = phys(kw['incident_energy']), phys(kw['L1']), phys(kw['L2'])
    else:
        E, Lf, Lo = phys(kw['final_energy']), phys(kw['L2']), phys(kw['L1'])
    t0 = Lf * np.sqrt(m / (2 * E))
    other = m * Lo**2 / (2 * (t - t0) ** 2)
    return t, t0, E, other


def run_kernel_grid(rng, ctx, spec, fn, cells, tier, mon, point_index=0, layout=DENSE):
    n = 6
    pt = draw_point(rng, spec, n, force_integer=layout.others == 'per_bin')
    vecs = draw_vectors(rng, spec, n, point_index)
    # operands that are not event data are constant over the events of a bin (per-bin operands) or over all
    # events (0-D operands); rep[i] is the event whose values event i sees in them
    rep = layout.rep(n)
    for a in spec.args:
        if a.name in layout.per_event:
            continue
        if a.vector:
            if vecs[a.name].ndim == 2:
                vecs[a.name] = vecs[a.name][rep]
        else:
            pt[a.name] = [pt[a.name][r] for r in rep]
    # inelastic: keep arrival well above t0 so that the definition is well conditioned (cond <= ~5)
    if spec.cond == 'inelastic':
        m = si.constants()['m_n']
        fixed = 'incident_energy' if 'incident_energy' in pt else 'final_energy'
        Lf = 'L1' if fixed == 'incident_energy' else 'L2'
        t0_us, fac = [], []
        for i in range(n):
            E = si.ld(pt[fixed][i]) * si.ld(si.E_CHARGE) / 1000
            t0_us.append(float(si.ld(pt[Lf][i]) * np.sqrt(m / (2 * E)) * 1e6))
            fac.append(float(rng.uniform(1.5, 6.0)))
        for i in range(n):
            # a dense tof next to event energies is shared by the events of a bin: above the largest t0 of them
            grp = [i] if 'tof' in layout.per_event or layout.default else [j for j in range(n) if rep[j] == rep[i]]
            k = int(np.ceil(max(t0_us[j] for j in grp) * fac[rep[i] if len(grp) > 1 else i])) + 1
            pt['tof'][i] = Fraction(k)
    canon_units = {a.name: KINDS[a.kind][0][0] for a in spec.args}

    def feasible(a, u, dt):
        return all(express(v, a.kind, u, dt) is not None for v in pt[a.name])

    if callable(cells):
        cells = cells(feasible)
    point_layout = layout

    def build(units, dtypes, layout=layout):
        kw = {}
        for a in spec.args:
            u, dt = units[a.name], dtypes[a.name]
            if a.vector:
                f = dict(KINDS[a.kind])[u]
                v = vecs[a.name] / float(f)
                if v.ndim == 2 and layout.others != 'x':
                    v = v[EV_REP_BIN] if layout.others == 'per_bin' else v[0]
                kw[a.name] = make_var(v, u, 'float64', vector=True)
                continue
            vals = [express(v, a.kind, u, dt) for v in pt[a.name]]
            if any(v is None for v in vals):
                return None
            if a.name in layout.binned:
                kw[a.name] = make_events(vals, u, dt)
                continue
            if a.name in layout.arrays:
                kw[a.name] = make_var(vals, u, dt)
                continue
            if layout.others == 'per_bin':
                kw[a.name] = make_var([vals[r] for r in EV_REP_BIN], u, dt)
                continue
            if layout.others == 'scalar':
                kw[a.name] = sc.scalar(vals[0], unit=u, dtype=dt)
                continue
            # gravity kernels: every other pair of points gives the wavelength its own dimension, so that
            # the result is 2-d (detector x wavelength) and the out-of-place broadcasting branch runs
            own_dim = a.name == 'wavelength' and 'gravity' in vecs and (point_index // 2) % 2 == 1 and point_layout.default
            kw[a.name] = make_var(vals, u, dt, dim='w' if own_dim else 'x')
        return kw

    base_kw = build(canon_units, {a.name: 'float64' for a in spec.args}, DENSE)
    base = fn(**base_kw)
    base_out = {k: phys(v) for k, v in out_values(spec, base).items()}
    if not layout.default and any(np.ndim(v) != 1 for v in base_out.values()):
        ctx.inconclusive_because(f'{spec.name}: baseline of an event-data point is not one value per event')
        return
    if spec.cond == 'inelastic':
        t, t0, E, other = inelastic_cond('direct' if 'incident_energy' in base_kw else 'indirect', base_kw)
        abs_scale = np.maximum(np.abs(E), np.abs(other)) * np.abs(t / (t - t0))
    elif spec.absolute == 'angle':
        abs_scale = si.LD(1)
    elif spec.absolute == 'Q':
        abs_scale = 2 * si.PI / phys(base_kw['wavelength'])
    elif spec.absolute == 'time':
        abs_scale = np.abs(phys(base_kw['time'])) + np.abs(base_out[''])
    elif spec.absolute == 'time_at_sample':
        abs_scale = np.abs(phys(base_kw['pulse_time'])) + np.abs(phys(base_kw['tof'])) + np.abs(base_out[''])
    else:
        abs_scale = None

    for units, dtypes in cells:
        if spec.cond == 'same_unit':
            units = dict(units)
            units['source_position'] = units['position']
        if spec.cond == 'same_time_unit':
            units = dict(units)
            units['pulse_time'] = units['tof']
        if any(dtypes[a.name] == 'float32' for a in spec.args if a.data) and any(
                units[a.name] not in F32_DOMAIN[a.kind] for a in spec.args):
            ctx.count('cells out of the float32 domain (extreme unit with single-precision data)')
            continue
        kw = build(units, dtypes)
        sig = (spec.name, tuple(units[a.name] for a in spec.args), tuple(dtypes[a.name] for a in spec.args))
        if not layout.default:
            sig = (*sig, layout.tag)
        if kw is None:
            ctx.count('cells skipped: value not an exact small integer in that unit')
            continue
        if spec.name == 'time_at_sample_from_tof' and any(
                dtypes[n] == 'int32' and np.max(np.abs(np.asarray(flat(kw[n])[2], dtype=np.float64))) >= 46341
                for n in ('L2', 'wavelength', 'tof', 'pulse_time')):
            # the property quantifies over integer operands whose squares are representable: an int32
            # operand of 46341 or more is outside it (this kernel multiplies two operands as they are)
            ctx.count('cells outside the quantifier: int32 operand whose square is not representable')
            continue
        # re-expressing a float32 operand in another unit is itself only exact to single precision, so any
        # float32 operand sets the comparison to single precision here (C01/C05 judge mixed-precision
        # accuracy against the definition at the actual input values)
        any32 = any(dtypes[a.name] == 'float32' for a in spec.args if not a.vector)
        tol = TOL32 if any32 else TOL64
        data_args = [a for a in spec.args if a.data]
        if spec.dtype_rule == 'data':
            want_dtype = sc.DType.float32 if data_args and all(dtypes[a.name] == 'float32' for a in data_args) else sc.DType.float64
        elif spec.dtype_rule == 'f64':
            want_dtype = sc.DType.float64
        else:
            want_dtype = None
        want_unit = spec.out(units)
        case = {'kernel': spec.name, 'units': units, 'dtypes': dtypes}
        if not layout.default:
            case['layout'] = layout.tag
        lkeys = {} if layout.default else {'layout': 'events' if layout.binned else 'dense, 0-D operands'}

        def judge(ev, case=case, tol=tol, want_dtype=want_dtype, want_unit=want_unit, sig=sig, kw=kw, any32=any32):
            if ev.exc is not None:
                if isinstance(ev.exc, sc.DTypeError) and any(d == 'int32' for d in case['dtypes'].values()):
                    ctx.count('cells unsupported by scipp (DTypeError with int32)')
                    return
                ctx.violation('raised', f'{spec.name} raised {type(ev.exc).__name__}: {ev.exc}',
                              dict(case, args={k: desc(v) for k, v in kw.items()}), kernel=spec.name,
                              exc=type(ev.exc).__name__, int_operand=any(d.startswith('int') for d in case['dtypes'].values()),
                              **lkeys)
                return
            ctx.event(spec.name)
            if not layout.default:
                ctx.event(spec.name + (' [event data]' if layout.binned else ' [0-D operands]'))
                note_layout_classes(ctx, spec, layout, case['dtypes'])
            try:
                outs = out_values(spec, ev.result)
                for key, var in outs.items():
                    label = spec.name + (f'[{key}]' if key else '')
                    got_unit, got_dtype, got_vals = flat(var)
                    if got_unit != want_unit:
                        ctx.violation('unit', f'{label}: output unit {got_unit}, documented {want_unit}', case,
                                      kernel=spec.name, **lkeys)
                        return
                    if want_dtype is not None and got_dtype != want_dtype:
                        ctx.violation('dtype', f'{label}: output dtype {got_dtype}, contract says {want_dtype}', case,
                                      kernel=spec.name, got=str(got_dtype), **lkeys)
                        return
                    got = got_vals.astype(si.LD) * si.factor(got_unit)
                    want = base_out[key]
                    if not layout.default and (got.shape != want.shape or (var.bins is None) != (not layout.binned)):
                        ctx.violation('shape', f'{label}: result holds {got.shape} {"dense" if var.bins is None else "event"} '
                                      f'values for {want.shape} {"event" if layout.binned else "dense"} values put in', case,
                                      kernel=spec.name, **lkeys)
                        return
                    if abs_scale is not None:
                        f = np.abs(got - want) / (tol * abs_scale)
                    else:
                        f = si.relerr(got, want) / tol
                    worst = float(np.max(f))
                    ctx.dev(f'{spec.name}{"[" + key + "]" if key else ""}.{"f32" if any32 else "f64"} (fraction of bound)', worst)
                    if not np.all(np.isfinite(np.asarray(got_vals, dtype=np.float64))) or worst > 1:
                        i = int(np.argmax(f))
                        ctx.violation('not_equivariant', f'{label}: physical result changes by {worst:.3g} x bound when '
                                      f'inputs are re-expressed as {case["units"]} / {case["dtypes"]}',
                                      dict(case, got=repr(np.ravel(got)[i]), baseline=repr(np.ravel(want)[i]),
                                           args={k: desc(v) for k, v in kw.items()}), kernel=spec.name,
                                      int_operand=any(d.startswith('int') for d in case['dtypes'].values()), **lkeys)
                        return
            except Exception:  # noqa: BLE001
                ctx.oracle_error('C07 ' + spec.name)

        mon.expect = {'kernel': spec.name, 'judge': judge}
        try:
            fn(**kw)
        except Exception:  # noqa: BLE001  judged through PY_UNWIND
            pass
        if mon.expect is not None:  # the monitor never saw the call
            mon.expect = None
            ctx.inconclusive_because(f'monitor on {spec.name} did not observe the call')
        canonical = all(units[a.name] == canon_units[a.name] for a in spec.args) and all(
            d == 'float64' for d in dtypes.values())
        ctx.case(sig, trivial=canonical and layout.default)
        if len(ctx.samples) < 4:
            ctx.sample({'kernel': spec.name, 'units': units, 'dtypes': dtypes,
                        'args': {k: desc(v) for k, v in kw.items()}})


# ------------------------------------ nearly perpendicular incident beams ---
# The gravity kernels choose their implementation (scattering_angle_in_yz_plane: refuse or compute) by the
# component of the incident beam along gravity.  Unit equivariance quantifies over every geometry, so the
# same nearly perpendicular beam (component 1e-12 ... 1e-3 of its length) is given in every beam unit.
# Soundness (DESIGN 9.2, "C04 dispatch band"): the unchanged tree dispatches on an absolute 1e-10 in the
# beam's own unit, located only to the rounding of a float64 dot product; at or below it the beam is
# treated as exactly perpendicular, which differs from the general construction by the actual tilt.
TILT_LADDER = [10.0 ** k for k in range(-12, -2)]
DISPATCH = 1e-10
NEARLY = 'nearly perpendicular incident beam: '


def along_gravity(kw):
    """(component of the incident beam along gravity in the beam's own unit, tilt in rad, |b1|)."""
    b = np.asarray(kw['incident_beam'].values, dtype=si.LD)
    g = np.asarray(kw['gravity'].values, dtype=si.LD)
    c = np.abs(np.dot(b, g)) / np.sqrt(np.dot(g, g))
    nb = np.sqrt(np.dot(b, b))
    return c, c / nb, nb


def run_gravity_tilt(rng, ctx, spec, fn, mon):
    n = 4
    yz = spec.name == 'scattering_angle_in_yz_plane'
    beam_units = [u for u, _ in KINDS['beam']]
    canon_units = {a.name: KINDS[a.kind][0][0] for a in spec.args}
    wl = next(a for a in spec.args if a.name == 'wavelength')
    for it, decade in enumerate(TILT_LADDER):
        tau = decade * float(rng.uniform(1.0, 3.0))
        sign = 1.0 if it % 2 == 0 else -1.0
        rotated = (it // 2) % 2 == 1  # the whole geometry (beams and gravity) in a rotated frame
        R = np.eye(3)
        if rotated:
            q, r = np.linalg.qr(rng.normal(size=(3, 3)))
            R = q * np.sign(np.diag(r))
            if np.linalg.det(R) < 0:
                R[:, 0] = -R[:, 0]
        ey, ez = R[:, 1], R[:, 2]
        L = round(float(rng.uniform(2.0, 60.0)), 2)
        d = rng.normal(size=(n, 3))
        d[:, 2] = np.abs(d[:, 2]) + 0.5
        d[:, 0] += 0.5
        d = np.round(d * 4, 3)
        vecs = {'gravity': -9.8125 * ey, 'incident_beam': L * (np.cos(tau) * ez + sign * np.sin(tau) * ey),
                'scattered_beam': d @ R.T}
        pt = draw_point(rng, spec, n, force_integer=it % 3 != 2)
        own_dim = it % 2 == 1

        def build(units, dtypes, vecs=vecs, pt=pt, own_dim=own_dim):
            kw = {}
            for a in spec.args:
                u, dt = units[a.name], dtypes[a.name]
                if a.vector:
                    kw[a.name] = make_var(vecs[a.name] / float(dict(KINDS[a.kind])[u]), u, 'float64', vector=True)
                    continue
                vals = [express(v, a.kind, u, dt) for v in pt[a.name]]
                if any(v is None for v in vals):
                    return None
                kw[a.name] = make_var(vals, u, dt, dim='w' if own_dim else 'x')
            return kw

        base_kw = build(canon_units, {a.name: 'float64' for a in spec.args})
        c0, tilt0, nb0 = along_gravity(base_kw)
        try:
            base = fn(**base_kw)
            base_dims = {k: v.dims for k, v in out_values(spec, base).items()}
            base_out = {k: phys(v) for k, v in out_values(spec, base).items()}
        except ValueError as e:
            if not yz:
                ctx.violation('raised', f'{spec.name} raised ValueError: {e}',
                              {'kernel': spec.name, 'tilt_rad': tau, 'args': {k: desc(v) for k, v in base_kw.items()}},
                              kernel=spec.name, exc='ValueError', int_operand=False, geometry='nearly perpendicular')
                continue
            base_out = base_dims = None  # refused
        for ui in beam_units:
            for us in beam_units:
                dt = DTYPES[int(rng.choice(4, p=[0.5, 0.2, 0.2, 0.1]))]
                wus = [u for u, _ in KINDS[wl.kind] if dt != 'float32' or u in F32_DOMAIN[wl.kind]]
                wus = [u for u in wus if all(express(v, wl.kind, u, dt) is not None for v in pt['wavelength'])]
                if not wus:
                    dt, wus = 'float64', [u for u, _ in KINDS[wl.kind]]
                units = {'incident_beam': ui, 'scattered_beam': us, 'wavelength': wus[int(rng.integers(len(wus)))],
                         'gravity': KINDS['accel'][int(rng.integers(len(KINDS['accel'])))][0]}
                dtypes = {a.name: 'float64' for a in spec.args}
                dtypes['wavelength'] = dt
                kw = build(units, dtypes)
                c1, tilt1, nb1 = along_gravity(kw)
                # threshold located to the rounding of the float64 dot product |g.b1| (8 eps |b1|) and of its scaling
                in_band = bool(c0 <= DISPATCH * (1 + 1e-6) + 8 * si.EPS64 * nb0
                               or c1 <= DISPATCH * (1 + 1e-6) + 8 * si.EPS64 * nb1)
                tilt = float(max(tilt0, tilt1))
                tol = (TOL32 if dt == 'float32' else TOL64) + (2 * tilt if in_band else 0.0)
                want_dtype = sc.DType.float32 if dt == 'float32' else sc.DType.float64
                case = {'kernel': spec.name, 'units': units, 'dtypes': dtypes, 'tilt_rad': tilt,
                        'component_along_gravity': {'m (baseline)': float(c0), ui: float(c1)},
                        'rotated_frame': rotated, 'wavelength_dim': 'w' if own_dim else 'x'}
                keys = {'kernel': spec.name, 'geometry': 'nearly perpendicular'}

                def judge(ev, case=case, tol=tol, want_dtype=want_dtype, kw=kw, in_band=in_band, ui=ui, dt=dt,
                          base_out=base_out, base_dims=base_dims, keys=keys):
                    refused = yz and isinstance(ev.exc, ValueError)
                    if ev.exc is not None and not refused:
                        if isinstance(ev.exc, sc.DTypeError) and dt == 'int32':
                            ctx.count('cells unsupported by scipp (DTypeError with int32)')
                            return
                        ctx.violation('raised', f'{spec.name} raised {type(ev.exc).__name__}: {ev.exc}',
                                      dict(case, args={k: desc(v) for k, v in kw.items()}),
                                      exc=type(ev.exc).__name__, int_operand=dt.startswith('int'), **keys)
                        return
                    if refused != (base_out is None):
                        if in_band:
                            ctx.count('undecided: refusal differs between units inside the dispatch band (1e-10 in the '
                                      "beam's own unit)")
                            return
                        ctx.event(spec.name + ' [nearly perpendicular]')
                        ctx.violation('unit_dependent_refusal',
                                      f'{spec.name}: the same geometry (tilt {case["tilt_rad"]:.3g} rad) is '
                                      f'{"refused" if refused else "accepted"} with the incident beam in {ui} and '
                                      f'{"refused" if base_out is None else "accepted"} in m',
                                      dict(case, args={k: desc(v) for k, v in kw.items()}), **keys)
                        return
                    ctx.event(spec.name + ' [nearly perpendicular]')
                    ctx.hit(NEARLY + ('dispatch band (allowance 2 x tilt)' if in_band else
                                      'component above 1e-10 in every compared unit (rounding only)'))
                    ctx.hit(NEARLY + 'beams in ' + ui)
                    if refused:
                        ctx.hit(NEARLY + 'refused in every compared unit')
                        return
                    try:
                        for key, var in out_values(spec, ev.result).items():
                            label = spec.name + (f'[{key}]' if key else '')
                            if var.unit != sc.Unit('rad'):
                                ctx.violation('unit', f'{label}: output unit {var.unit}, documented rad', case, **keys)
                                return
                            if var.dtype != want_dtype:
                                ctx.violation('dtype', f'{label}: output dtype {var.dtype}, contract says {want_dtype}',
                                              case, got=str(var.dtype), **keys)
                                return
                            if set(var.dims) == set(base_dims[key]):
                                var = var.transpose(base_dims[key])
                            got, want = phys(var), base_out[key]
                            if got.shape != want.shape:
                                ctx.violation('shape', f'{label}: result shape {got.shape}, baseline {want.shape}', case,
                                              **keys)
                                return
                            f = np.abs(got - want) / tol
                            worst = float(np.max(f))
                            ctx.dev(f'{label} nearly perpendicular{" (dispatch band)" if in_band else ""}.'
                                    f'{"f32" if dt == "float32" else "f64"} (fraction of bound)', worst)
                            if not np.all(np.isfinite(np.asarray(var.values, dtype=np.float64))) or worst > 1:
                                i = int(np.argmax(f))
                                ctx.violation('not_equivariant',
                                              f'{label}: result changes by {worst:.3g} x bound ({tol:.3g} rad) when a beam '
                                              f'tilted by {case["tilt_rad"]:.3g} rad against the perpendicular is '
                                              f're-expressed as {case["units"]}',
                                              dict(case, got=repr(np.ravel(got)[i]), baseline=repr(np.ravel(want)[i]),
                                                   args={k: desc(v) for k, v in kw.items()}),
                                              int_operand=dt.startswith('int'), **keys)
                                return
                    except Exception:  # noqa: BLE001
                        ctx.oracle_error('C07 nearly perpendicular ' + spec.name)

                mon.expect = {'kernel': spec.name, 'judge': judge}
                try:
                    fn(**kw)
                except Exception:  # noqa: BLE001  judged through PY_UNWIND
                    pass
                if mon.expect is not None:
                    mon.expect = None
                    ctx.inconclusive_because(f'monitor on {spec.name} did not observe the call')
                ctx.case((spec.name, 'nearly perpendicular', f'1e{int(np.floor(np.log10(tau)))}', ui, us,
                          units['wavelength'], dt, units['gravity']))


GRAVITY_KERNELS = [s.name for s in SPECS if any(a.name == 'gravity' for a in s.args)]


def all_cells(spec):
    per_arg = []
    for a in spec.args:
        us = [u for u, _ in KINDS[a.kind]]
        dts = ['float64'] if a.vector else DTYPES
        per_arg.append([(a.name, u, d) for u in us for d in dts])
    for combo in itertools.product(*per_arg):
        yield {n: u for n, u, _ in combo}, {n: d for n, _, d in combo}


def plan(tier, seed):
    shards = []
    per = 2 if tier == 'quick' else 2
    for i in range(0, len(SPECS), per):
        shards.append({'kernels': [s.name for s in SPECS[i:i + per]],
                       'cells': 3000 if tier == 'quick' else 140000, 'points': 2 if tier == 'quick' else 2})
    # the forced classes (event-data / 0-D layouts, nearly perpendicular beams) in shards of their own
    with_layouts = [s.name for s in SPECS if layouts_of(s)]
    heavy = [[n] for n in with_layouts if n.startswith('energy_transfer')] + [list(GRAVITY_KERNELS)]
    rest = [n for n in with_layouts if not any(n in h for h in heavy)]
    for group in [*heavy, rest[:len(rest) // 2], rest[len(rest) // 2:]]:
        shards.append({'part': 'classes', 'kernels': group, 'rounds': 1 if tier == 'quick' else 6})
    return shards


FORCED = [
    'dense data operand with 0-D other operands',
    'event data with per-bin dense operands', 'event data with 0-D dense operands',
    'event data: float32 events', 'event data: float64 events', 'event data: int64 events',
    'event data: float32 events with a float64/integer dense operand',
    'event data: float32 events with a dense DATA operand that is not float32 (contract: float64)',
    'event data: float32 events with a float32 dense data operand (contract: float32)',
    'event data: all data operands of a two-data-operand kernel are events',
    NEARLY + 'dispatch band (allowance 2 x tilt)',
    NEARLY + 'component above 1e-10 in every compared unit (rounding only)',
    NEARLY + 'refused in every compared unit',
] + [NEARLY + 'beams in ' + u for u, _ in KINDS['beam']]


def requirements(tier):
    ev = {s.name: 20 for s in SPECS}
    for s in SPECS:
        if layouts_of(s):
            ev[s.name + ' [event data]'] = 8
            ev[s.name + ' [0-D operands]'] = 4
    for k in GRAVITY_KERNELS:
        ev[k + ' [nearly perpendicular]'] = 40
    return {'events': ev, 'forced': list(FORCED)}


def run(shard, ctx):
    from scippneutron.conversion import beamline as KB
    from scippneutron.conversion import tof as KT
    from scippneutron.tof import chopper_cascade as KC

    mods = {'tof': KT, 'beamline': KB, 'cascade': KC}
    bad = si.self_test()
    if bad:
        ctx.inconclusive_because('unit table cross-check failed: ' + '; '.join(bad))
        return
    rng = np.random.Generator(np.random.PCG64([shard['seed'], shard['index'], 7]))
    rng2 = np.random.Generator(np.random.PCG64([shard['seed'], shard['index'], 11]))  # layout / geometry classes
    mon = Monitor(ctx)
    tr = Tracer()
    for s in SPECS:
        tr.watch(getattr(mods[s.mod], s.name), s.name, on_return=mon.handler(s.name))
    full = {}
    if shard.get('part') == 'classes':
        # forced classes, the same in every run
        with tr:
            for name in shard['kernels']:
                spec = SPEC_BY_NAME[name]
                fn = getattr(mods[spec.mod], spec.name)
                lays = layouts_of(spec)
                for rnd in range(shard['rounds']):
                    # event-data / 0-D layouts x the dtype product ...
                    for il, lay in enumerate(lays):
                        run_kernel_grid(rng2, ctx, spec, fn, layout_cells(rng2, spec), shard['tier'], mon,
                                        il + rnd * len(lays), layout=lay)
                    # ... and nearly perpendicular incident beams x every beam unit for the gravity kernels
                    if name in GRAVITY_KERNELS:
                        run_gravity_tilt(rng2, ctx, spec, fn, mon)
                full[name] = {'layouts': [lay.tag for lay in lays], 'rounds': shard['rounds']}
                if name in GRAVITY_KERNELS:
                    full[name]['nearly_perpendicular_tilts'] = len(TILT_LADDER) * shard['rounds']
        ctx.extra['classes_' + '_'.join(shard['kernels'])] = full
        return
    with tr:
        for name in shard['kernels']:
            spec = SPEC_BY_NAME[name]
            fn = getattr(mods[spec.mod], spec.name)
            cells = list(all_cells(spec))
            total = len(cells)
            budget = shard['cells']
            min_points = 4 if any(a.name == 'gravity' for a in spec.args) else shard['points']
            points = int(min(40, max(min_points, budget // max(total, 1))))
            k = min(total, max(1, budget // points))
            for ipt in range(points):
                if k < total:
                    idx = rng.choice(total, size=k, replace=False)
                    sub = [cells[i] for i in idx]
                else:
                    sub = cells
                run_kernel_grid(rng, ctx, spec, fn, sub, shard['tier'], mon, ipt)
            full[name] = {'grid_cells': total, 'cells_per_point': k, 'points': points,
                          'grid_complete_per_point': k == total}
    ctx.extra['grid_' + '_'.join(shard['kernels'])] = full


FINDING_PREDICATES = {}

TECHNIQUE = ('runtime monitors (sys.monitoring) on every conversion/geometry kernel while a unit x dtype grid is '
             'driven through it; reference = canonical-unit float64 call of the same kernel + documented unit/dtype table')
LEVEL_TEXT = ('exploration: for each of 20 kernels, physical points are re-expressed in the cells of the unit x '
              'dtype grid (sampled in quick, complete up to a reported cap in thorough); the observed result must carry '
              'the documented unit and dtype and the same physical value as the canonical-unit float64 call within '
              '1e-11 (1e-5 with single-precision operands) times the conditioning of the definition. A finite grid '
              'per physical point; points are sampled. Every run also drives each data operand as binned event data '
              '(and with 0-D operands) through the full dtype product, and the gravity kernels with nearly '
              'perpendicular incident beams through every beam-unit pair (same result to rounding, same '
              'refuse/accept decision of the yz variant, outside the documented dispatch band).')
LEVEL_NOTE = ('trusted: the canonical-unit float64 results (decided by C01/C03/C04/C05/C08), the independent SI table, '
              'scipp DTypeError as the sign of arithmetic scipp does not support')
DESIGN_REF = 'DESIGN.md section 4, C07'
