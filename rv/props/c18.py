"""C18 Cylinder absorption: path lengths, quadrature and transmission are geometric.

Monitors (sys.monitoring, code objects) on ``Cylinder.beam_intersection`` and its three
private helpers, ``Cylinder.quadrature`` / ``_select_quadrature_points``,
``compute_transmission_map``, ``_single_scatter_distance_through_sample``,
``_integrate_transmission_fraction`` and ``Material.attenuation_coefficient``.

The workload also varies the LAYOUT of the array operands (every dims relation of start points
and directions, every shape of the detector array) and the length units of the fields; the
monitors judge tables entry by entry after broadcasting the operands by dimension label.

Polymorphic use: the attenuation is what ``sample_material.attenuation_coefficient`` answers and the
nodes / path lengths / volume are those of the ``sample_shape`` object that was passed in; harness-owned
subclasses and stand-ins declare their law / their solid and the map monitor recomputes from that.  Further
workload axes: calling conventions and graph nodes, second use of objects and results, operands with
variances, dim names used inside the code, integer wavelengths, generic large operands.

Oracles (rv/oracle/cyl.py, long double, no scippneutron): the solid in an orthonormal
frame of its own built by Gram-Schmidt; a path length is acceptable when it lies
between the lengths through the solid shrunk and grown by delta = 64 eps (|p - base| +
r + h); quadrature nodes are judged in that frame (inside, weights, volume, first
moments) and their multiset (rho, z, w) is compared with what the code itself produces
for the same (r, h, kind) in canonical pose; a transmission map is recomputed from
the *observed* nodes and weights with oracle path lengths.
"""

from __future__ import annotations

import numpy as np
import scipp as sc

from rv.oracle import cyl, si
from rv.trace import Tracer

ID = 'C18'
LEVEL = 'exploration'
RULE = (
    'cases = (a) one beam_intersection call with 40-60 rays on a cylinder whose axis class '
    '(+-x, +-y, +-z, within 1e-12 of +-z, z<0, in / near the xy-plane, uniform on the sphere), base '
    '(0, +-1e3, log-uniform), radius and height (1e-3..1e3, mm/cm/m) are drawn per case; ray '
    'origins inside / outside near and far / on lateral surface, cap, edge / base point / centre, '
    'directions random, exactly (anti)parallel, parallel within 1e-9, tangent, through an edge, in '
    'a cap plane, towards the axis, coordinate axes; (b) one quadrature() call per deterministic '
    'kind on such a cylinder (radius optionally in another unit); (c) one compute_transmission_map '
    'pipeline (zero density, two densities, rigidly moved copy, other-end description; 1-3 '
    'wavelengths 0.1..20 angstrom, 1-6 detectors over the sphere at 3..1e4 sample sizes; ONE Cylinder '
    'and ONE Material object live through the pipeline, density / scattering_params / symmetry_line / '
    'center_of_base reassigned between the calls); (d) object state: one Cylinder whose four public '
    'fields are reassigned in turn, then modified in place / copied (dataclasses.replace, copy, '
    'deepcopy) / moved rigidly / re-expressed in another unit, with beam_intersection, quadrature, '
    'volume, center and compute_transmission_map called after every step and judged against the '
    'fields current at the call; likewise one Material; (e) internal thresholds of the code crossed '
    'from both sides: h/r on, just below and above the clamps and rounding boundaries of the axial node '
    'count, axis tilt just above 1e-10 (no-rotation limit), ray tilt 0.5..5 sqrt(eps) (parallel-line '
    'limit), and per run one heavy case where nodes x detectors crosses 2e7 (flat pixel list just '
    'above and just below, the same pixels as a 2-d array; 3 wavelengths; compared elementwise with '
    'each other and with a small call on a subset of the pixels; the branch taken is observed as '
    'nested frames of _integrate_transmission_fraction); (f) operand layouts: per solid one '
    'beam_intersection call for every relation the dims of (start_point, direction) can have - both '
    'scalar, one array, paired over one dim, outer product over two dims (equal / unequal lengths, '
    'length 1), 2-d with 1-d over its first / second / a third dim and vice versa, 2-d pairs in the same '
    'and the opposite dim order (square and not), transposed views, strided slices, 2-d x 2-d sharing '
    'one / no dim, empty operands, conflicting extents (refusal expected) - with half of the start points '
    'inside the solid; every entry of the table is judged for its (start, direction) pair and the dims of '
    'the table against the broadcast by label; the detector operand of compute_transmission_map as flat '
    'list, 2-d array, transposed view, strided slice, length-1 array and 0-d vector (same pixels '
    'compared); (g) length units: the same solid with radius, height and start points / detectors in '
    'all 27 combinations of mm/cm/m relative to the base point, every method on every combination '
    '(a UnitError for a mixture is a counted refusal); (h) stand-ins of the documented argument classes, all of '
    'them in every run: Material subclasses that override attenuation_coefficient (a compound = super() + a second '
    'constituent; own laws constant / linear / quadratic / decreasing / edge / zero in the wavelength) whose own '
    'scattering_params describe something else (pure scatterer with absorption exactly 0, pure absorber, void, '
    'generic, opaque), duck-typed materials with and without the fields, a SampleShape subclass that is not a '
    'Cylinder and delegates to one, a Cylinder subclass with a quadrature of its own for a kind of its own, 3 '
    'distinct wavelengths each: the map is recomputed with the mu the object declares and the nodes the object '
    'handed out; (i) calling conventions: compute_transmission_map / beam_intersection / quadrature / the '
    'constructors positional, by keyword in any order, mixed, default kind, unbound, the kind as numpy.str_ and '
    '(str, Enum) member, beam_intersection and attenuation_coefficient as nodes of a transform_coords graph; '
    '(j) second use: the same objects after repr / str / == / copy / deepcopy of them and of the result, result '
    'coordinates fed back, returned arrays modified in place, the calls repeated after exceptions were raised and '
    'caught, one Material with two solids and one solid with two Materials (maps compared with the first call); '
    '(k) radius / height / wavelength / density / cross sections carrying variances; (l) wavelength and detector '
    'dims named row / quad / x / event / vertex / wavelength-for-the-detectors, integer wavelengths, operands '
    'without a meaning by label; (m) once per run beam_intersection with 2**20 + 7 paired rays, 3 x 400001 rays '
    'and a 300 x 4001 outer product; (n) sizes that coincide with sizes used inside the code: detector counts equal to '
    'the number of nodes of the quadrature in use (read from the quadrature the solid hands out; cheap on every '
    'shard with 5..15 axial nodes, medium in three parts over the shards, expensive once per run), one fewer, one more, '
    'as 1-d list and as either dim of a 2-d layout, wavelength counts likewise, detector counts equal to the nodes of '
    'the disk / axial factor, to the number of wavelengths, to 2 / 3 / 4; the same pixels in two batches and as flat '
    'list compared; beam_intersection operands of length 3 / 2 / 4; (o) the very same operand objects modified in '
    'place between two calls (slice, all values, unit, 0-d value, density) - compared with a call on fresh copies; '
    'results and arguments do not share memory (argument write / result write / repeat; array, 0-d, zero-density '
    'forms); (p) dim labels that are not NFC / NFKC in pairs that normalise to the same text (nine pairs) for the '
    'wavelength / detector dims and for start points / directions; kind names that only normalise to a kind; (q) '
    'four subprocesses per run that import only the module of the entry point (and of its argument classes) under '
    'another PYTHONHASHSEED and call beam_intersection / quadrature / compute_transmission_map (flat, 2-d, 3-d '
    'detector layouts) first: compared with the same calls in the worker; (r) on every shard Materials from real '
    'ScatteringParams with every field populated: each field the attenuation law names (total scattering, '
    'absorption) exactly 0 (+0 / -0) / tiny (1e-150..1e-20 barn) / ordinary in all nine combinations and any '
    'cross-section unit, the seven fields the law does not name in seven arrangements (large unrelated values in '
    'other units, a table isotope with the two law fields replaced, only the coherent / only the incoherent '
    'cross-section, both exactly 0, with variances, negative / imaginary lengths): attenuation coefficient against '
    'the law in long double, maps (incl. the one without attenuation = 1) against the recomputation and against the '
    'map of the parameter set that has the two law fields only; '
    'a case is never trivial; distinct = distinct (kind of case, unit, axis '
    'class, r/h decade, call shape / quadrature kind / optical-depth decade) signatures'
)
ASSUMPTIONS = [
    'numpy long double (x87 80 bit) evaluates the clipping of a ray against rho<=r, 0<=z<=h with '
    'error far below 64 eps (cross-checked per call by a sampled inside test in a frame-free '
    'formulation and per run against mpmath at 50 digits incl. far origins, thin solids and '
    'directions close to the axis)',
    'a path length is accepted iff it lies between the lengths through the solid shrunk and grown '
    'by 64 eps (|p-base|+r+h); this gives the sqrt(eps)(r+h) behaviour for tangent rays by itself; '
    'rays lying within that distance of a cap plane or of the lateral surface along their length '
    'are undecided (counted)',
    'near-parallel class (direction within 1e-7 rad of the axis direction, exact parallels '
    'included): the lateral surface is located only to sqrt(eps)(|p-base|+r+h), the bound DESIGN '
    'gives for that class; such rays are decided unless they run within that distance of the '
    'lateral surface',
    '"low-degree" = degree <= 1 (the degree all three kinds integrate to the 8 digits of the '
    'tabulated disk rules); second moments are reported only',
    'the canonical multiset of a kind is what the code itself returns for axis +z, base 0 and the '
    'same radius/height objects (an observation compared with an observation)',
    'mu = n (sigma_s + sigma_a lambda / 1.7982 angstrom) (C20 owns the tables) with sigma_s = '
    'total_scattering_cross_section and sigma_a = absorption_cross_section of the ScatteringParams AS GIVEN (a value '
    'of exactly 0 is a value); no other field of the parameter set enters, so two parameter sets that agree in these '
    'two fields give the same map (1e-12 absolute)',
    'radius, height, base point and start points in different length units: whatever a method answers '
    'is judged against the fields as given (converted with the independent SI table to the unit of the '
    'base point; a path length may come in any length unit); a scipp UnitError for such a mixture is a '
    'refusal, counted per method and not judged (today: beam_intersection needs one unit throughout, '
    'quadrature / center need height in the unit of the base point); with one unit throughout the path '
    'length must come in that unit',
    'the result of beam_intersection has exactly the dims (label -> extent) of the broadcast by label of '
    'start_point and direction (and the fields of the solid); the ORDER of the dims is not part of the '
    'property; operands that give one label two extents have no broadcast: a DimensionError is the '
    'expected refusal there (counted), a value returned instead is not judged',
    'the layout of the detector operand is not part of the property: the same pixel gives the same '
    'transmission to 1e-12 absolute whatever array it is handed over in',
    'Cylinder and Material are mutable dataclasses: after a public field has been reassigned (or the '
    'Variable it holds modified in place) every method answers for the solid / material the fields '
    'describe at the time of the call; a refused assignment (frozen class) is counted, not judged',
    'the attenuation of a sample is what sample_material.attenuation_coefficient(wavelength) answers for the '
    'object that was passed in, and the integration runs over the nodes, path lengths and volume of the '
    'sample_shape that was passed in (SampleShape is an abstract base class of the package: beam_intersection, '
    'volume, quadrature): for a harness-owned stand-in the expected mu is the law the stand-in declares '
    '(evaluated in long double from the parameters of the law, never by calling it), the expected nodes are the '
    'ones it handed out; an object that is not a Material instance may be refused with TypeError / '
    'AttributeError (counted), a subclass may not',
    'variances: a scipp VariancesError for an operand with variances is a refusal (counted per entry point, '
    'today: everything that broadcasts radius / height / mu against an array); what is answered is judged for '
    'its values; variances themselves are judged only for volume = pi r^2 h (r, h independent) and for the '
    'attenuation coefficient of a wavelength with variances (linear law)',
    'map operands without a meaning by dimension label (wavelengths not 1-d, a detector dim labelled like the '
    'wavelength dim or like the dim of the quadrature nodes, "quad") may be refused with a DimensionError '
    '(counted); a map returned for them is not judged',
    'display, comparison and copies of Cylinder / Material / the result, in-place modification of returned arrays '
    'and exceptions raised by earlier calls do not change what a later call with the same inputs answers (1e-12 '
    'absolute on the map); pickling is left out: scipp Variables of this version refuse it on the unchanged tree',
    'not applicable to the entry points of this property: masks and one-shot iterables (all operands are '
    'scipp Variables / scalars, no collection is documented)',
    'arguments and results are separate objects: a result does not change when an argument is overwritten in '
    'place afterwards and vice versa (bitwise), and a call on operand objects whose contents were modified in place '
    'answers for the contents at the time of the call; the coordinates of the returned DataArray are the input '
    'Variables themselves (scipp DataArray semantics): that sharing is documented and not judged',
    'dimension labels are compared code point by code point: two labels that normalise (NFC / NFKC) to the same text '
    'are two dims, and the result carries exactly the labels given; a quadrature kind whose name only normalises to '
    '"cheap" / "medium" / "expensive" is no deterministic kind of the property: refusing it is expected (counted), '
    'accepting it is reported',
    'the first call in a fresh interpreter that imported only the module of the entry point answers what the worker '
    'process answers for the same inputs (1e-12 relative to the scale of the result), whatever PYTHONHASHSEED is',
    'the evaluation order of the detector dimension is not part of the property: the per-detector '
    'loop and the vectorised evaluation of the same pixels and wavelengths agree to 1e-12 absolute '
    '(different summation order of ~9000 terms in (0, 1])',
]
TIMEOUT_S = {'quick': 1800, 'thorough': 3 * 3600}

LD = cyl.LD
EPS = cyl.EPS
K_EPS = 64.0
TOL_SUM = 2e-7          # tabulated disk rules carry 8 digits (measured 3e-8 / 9e-8)
TOL_NODE = 1e-12        # relative to r + h
TOL_T = 1e-10
RIGID_SCALE = {'cheap': 2e-1, 'medium': 3e-2, 'expensive': 5e-3}
KINDS = ('cheap', 'medium', 'expensive')
SMALL_DISPLACEMENT = 1e-7   # (r + h): node displacements below this are accuracy-only
T_FLOOR = 0.05          # rigid-motion backstop judged where at least this fraction is transmitted
LEN_UNITS = ('mm', 'cm', 'm')
NEAR_AXIS = 1.0 / 64    # the axial-offset leak eps |b.a| / tilt can exceed 64 eps (|p-b|+r+h) only below this angle
BIG_JUDGE_EVERY = 100   # in-situ beam_intersection calls judged inside the heavy (>2e7) case
BIG_ELEMS = 400_000     # observed arrays above this size are thinned before they are materialised
LOOP_LIMIT = 20_000_000  # workload only: where base.py switches to the per-detector loop (the
#                          branch actually taken is observed, never assumed)
NODE_RULE = {'cheap': (5, 5, 15), 'medium': (7, 7, 25), 'expensive': (11, 11, 35)}  # workload only:
#                          k = round(clip(mult * h/r, lo, hi)) axial nodes in cylinder.py


# ----------------------------------------------------------------- geometry ---
def _ratio(unit_from, unit_to) -> np.longdouble:
    if unit_from == unit_to:
        return LD(1)
    return si.ld(si.lookup(unit_from)[0] / si.lookup(unit_to)[0])


class Geom:
    """The solid as the monitors see it: everything in the unit of the base point."""

    def __init__(self, c):
        self.unit = c.center_of_base.unit
        self.axis = np.array(c.symmetry_line.value, dtype=np.float64)
        self.base = np.array(c.center_of_base.value, dtype=np.float64)
        self.r = LD(float(c.radius.value)) * _ratio(c.radius.unit, self.unit)
        self.h = LD(float(c.height.value)) * _ratio(c.height.unit, self.unit)
        self.r_raw, self.r_unit = float(c.radius.value), c.radius.unit
        self.h_raw, self.h_unit = float(c.height.value), c.height.unit
        self.fr = cyl.frame(self.axis)
        self.scale = float(self.r + self.h)
        self.bmag = float(np.max(np.abs(self.base)))
        az = float(self.axis[2])
        un = float(np.hypot(self.axis[0], self.axis[1]))
        self.az, self.un = az, un
        self.keys = {
            'axis_z_negative': bool(az < 0),
            'rotation_applied': bool(un >= 1e-10),
            'axis_near_equator': bool(abs(az) < 1e-3),
        }

    def descr(self):
        return {
            'symmetry_line': [float(x).hex() for x in self.axis],
            'symmetry_line_repr': [repr(float(x)) for x in self.axis],
            'center_of_base': [repr(float(x)) for x in self.base],
            'unit': str(self.unit),
            'radius': [repr(self.r_raw), str(self.r_unit)],
            'height': [repr(self.h_raw), str(self.h_unit)],
        }


def _vec_values(v, dims, shape):
    """ndarray (*shape, 3) of a vector variable broadcast to dims/shape."""
    if tuple(v.dims) != tuple(dims):
        if set(v.dims) == set(dims) and v.ndim == len(dims):
            v = v.transpose(list(dims))
        else:
            v = sc.broadcast(v, dims=list(dims), shape=list(shape))
    return np.asarray(v.values, dtype=np.float64).reshape((*shape, 3))


def _scal_values(v, dims, shape):
    if tuple(v.dims) != tuple(dims):
        if set(v.dims) == set(dims) and v.ndim == len(dims):
            v = v.transpose(list(dims))
        else:
            v = sc.broadcast(v, dims=list(dims), shape=list(shape))
    return np.asarray(v.values, dtype=np.float64).reshape(shape)


def _thin(st, res, others, cap=BIG_ELEMS):
    """Random sub-block of a large observed array (and of its operands, by dim name) so that a
    2e7-element call is never copied whole: indices are kept along the leading dims until
    at most ``cap`` elements remain."""
    others = list(others)
    for d in tuple(res.dims):
        if res.size <= cap:
            break
        n = res.sizes[d]
        keep = max(1, int(cap // max(1, res.size // n)))
        if keep >= n:
            continue
        idx = np.sort(st.rng.choice(n, size=keep, replace=False))

        def pick(v, d=d, idx=idx):
            if not hasattr(v, 'dims') or d not in v.dims:
                return v
            if idx.size > 64:
                # many indices: one numpy take on the values (containers only)
                vals = np.take(np.asarray(v.values), idx, axis=list(v.dims).index(d))
                if v.dtype == sc.DType.vector3:
                    return sc.vectors(dims=list(v.dims), values=vals, unit=v.unit)
                return sc.array(dims=list(v.dims), values=vals, unit=v.unit, dtype=v.dtype)
            return sc.concat([v[d, int(k)] for k in idx], d)
        res = pick(res)
        others = [pick(o) for o in others]
    return res, others


def _big_skip(st, size):
    """Inside the heavy case only every BIG_JUDGE_EVERY-th small call is judged; large calls
    always are (thinned)."""
    return bool(st.big and size <= BIG_ELEMS and st.big_counter % BIG_JUDGE_EVERY)


def _broadcast_sizes(*operands):
    """{dim: extent} of the broadcast by dimension label of the operands, and whether two
    operands give one label different extents (then no broadcast exists)."""
    sizes, conflict = {}, False
    for v in operands:
        for d, n in v.sizes.items():
            if d in sizes and sizes[d] != n:
                conflict = True
            sizes.setdefault(d, n)
    return sizes, conflict


def _layout_key(sp, dr):
    """Relation of the dims of the two operands (a mechanism fact with few values)."""
    a, b = set(sp.dims), set(dr.dims)
    if not a and not b:
        return 'both scalar'
    if not a or not b:
        return 'one scalar'
    if a == b:
        return 'same dims' if tuple(sp.dims) == tuple(dr.dims) else 'same dims, other order'
    if not a & b:
        return 'disjoint dims'
    return 'nested dims' if a <= b or b <= a else 'overlapping dims'


def _mixed_units(c, *extra):
    """More than one length unit among the fields of the solid (and the operands given)."""
    us = {repr(c.center_of_base.unit), repr(c.radius.unit), repr(c.height.unit)}
    return len(us | {repr(u) for u in extra}) > 1


def _refused_units(ctx, exc, c, where, *extra):
    """A ``UnitError`` when the solid / the operands use more than one length unit is a refusal
    of that mixture (counted, not judged); whatever is answered instead is judged in the unit
    of the base point."""
    if isinstance(exc, sc.UnitError) and _mixed_units(c, *extra):
        ctx.count(f'refused:mixed_length_units:{where}')
        return True
    return False


def _kname(kind):
    """The plain text of a quadrature kind given as any kind of str (np.str_, (str, Enum) member)."""
    return str.__str__(kind) if isinstance(kind, str) else kind


def _solid(shape):
    """The Cylinder whose public fields describe the solid of a sample shape: the shape itself, or
    for a harness-owned ``SampleShape`` that is not a Cylinder the one it says it stands for."""
    return getattr(shape, 'rv_cylinder', shape)


def _has_variances(*vs):
    for v in vs:
        try:
            if v is not None and v.variances is not None:
                return True
        except Exception:  # noqa: BLE001   dtype without variances (vectors)
            pass
    return False


def _cyl_variances(c):
    c = _solid(c)
    return _has_variances(c.radius, c.height)


def _mat_variances(mat):
    try:
        sp = mat.scattering_params
        return _has_variances(mat.effective_sample_number_density, sp.total_scattering_cross_section,
                              sp.absorption_cross_section)
    except AttributeError:
        return False


def _refused_variances(ctx, exc, where, *operands, flag=False):
    """scipp refuses to broadcast an operand that carries variances (``VariancesError``): for inputs
    with variances that is a refusal (counted, not judged); what is answered instead is judged for
    its values."""
    if isinstance(exc, sc.VariancesError) and (flag or _has_variances(*operands)):
        ctx.count(f'refused:variances:{where}')
        return True
    return False


# ------------------------------------------------------------ monitor state ---
class State:
    def __init__(self, ctx, shard):
        self.ctx = ctx
        self.origin = 'direct'
        self.ray_classes = None      # per-ray class labels of the current direct call
        self.layout = None           # name of the operand layout of the current direct call
        self.case_descr = None
        self.last_quad = None        # (points, weights, kind) seen inside compute_transmission_map
        self.last_mu = []            # attenuation coefficients seen inside the current map
        self.last_integral = None
        self.canon = {}              # canonical multisets by (r, h, units, kind)
        self.big = False
        self.big_counter = 0
        self.rng = np.random.Generator(np.random.PCG64([shard['seed'], shard['index'], 99]))
        self.maps = []               # judged map results of the current pipeline
        self.integ_depth = 0         # live frames of _integrate_transmission_fraction
        self.loop_calls = 0          # nested frames seen (= the per-detector loop branch ran)
        self.integ_calls = 0
        self.outer_returns = 0       # outermost watched frames that returned / unwound (any monitor)


# -------------------------------------------------- beam_intersection monitor ---
def judge_beam(st: State, ev):
    ctx = st.ctx
    c = _solid(ev.args['self'])
    sp, dr, res = ev.args['start_point'], ev.args['direction'], ev.result
    in_situ = ev.depth > 0
    tag = 'in_situ' if in_situ else 'direct'
    if not in_situ:
        st.outer_returns += 1
    try:
        g = Geom(_solid(c))
    except Exception:  # noqa: BLE001
        ctx.oracle_error('C18 geometry of observed cylinder')
        return
    case = {'monitor': 'beam_intersection', 'origin': st.origin, 'cylinder': g.descr()}
    if st.case_descr:
        case['case'] = st.case_descr
    layout = st.layout if not in_situ else None
    if layout:
        case['operand_layout'] = layout
    try:
        want_sizes, conflict = _broadcast_sizes(sp, dr, c.symmetry_line, c.center_of_base,
                                                c.radius, c.height)
        case['operand_dims'] = {'start_point': dict(sp.sizes), 'direction': dict(dr.sizes)}
    except Exception:  # noqa: BLE001
        ctx.oracle_error('C18 operand dims')
        return
    if ev.exc is not None:
        if _refused_units(ctx, ev.exc, c, f'beam_intersection.{tag}', sp.unit):
            return
        if _refused_variances(ctx, ev.exc, f'beam_intersection.{tag}', flag=_cyl_variances(c)):
            return
        if conflict and isinstance(ev.exc, sc.DimensionError):
            # no broadcast of the operands exists: the only allowed answer is this refusal
            ctx.count('refused:operand_extents_conflict')
            return
        ctx.violation('beam_intersection_raised',
                      f'beam_intersection raised {type(ev.exc).__name__}: {ev.exc}', case,
                      origin=tag, operands=_layout_key(sp, dr))
        return
    if conflict:
        ctx.count('not_judged:result_for_conflicting_operand_extents')
        return
    if st.big:
        st.big_counter += 1
        if _big_skip(st, res.size):
            ctx.count('in_situ_calls_not_judged_in_big_case')
            return
    # the result is the table over the broadcast (by dimension label) of the operands: one entry
    # per (start, direction) pair; the order of the dims is not part of the property
    ctx.event(f'beam_intersection.dims.{tag}')
    if dict(res.sizes) != want_sizes:
        case['result_dims'] = dict(res.sizes)
        case['broadcast_dims'] = want_sizes
        ctx.violation('path_dims',
                      f'beam_intersection [{tag}]: result dims {dict(res.sizes)}, broadcast of the '
                      f'operands {want_sizes}', case, origin=tag, operands=_layout_key(sp, dr))
        return
    if res.size == 0:
        ctx.count('empty_calls_dims_only')
        return
    try:
        if res.size > BIG_ELEMS:
            res, (sp, dr) = _thin(st, res, (sp, dr))
            ctx.count('rays_thinned_calls')
        dims, shape = tuple(res.dims), tuple(res.shape)
        got = np.asarray(res.values, dtype=np.float64).reshape(shape)
        P = _vec_values(sp, dims, shape) * float(_ratio(sp.unit, g.unit))
        N = _vec_values(dr, dims, shape)
        sel = None
        if got.size > 60000:
            flat = st.rng.choice(got.size, size=20000, replace=False)
            sel = np.unravel_index(flat, shape) if shape else None
            got, P, N = got[sel], P[sel], N[sel]
            ctx.count('rays_subsampled_calls')
        fin_in = np.all(np.isfinite(P), axis=-1) & np.all(np.isfinite(N), axis=-1)
        if not np.all(fin_in):
            # e.g. NaN quadrature nodes handed on by compute_transmission_map: judged there
            ctx.count('out_of_domain:ray_with_nonfinite_input', int(np.count_nonzero(~fin_in)))
            got, P, N, sel = got[fin_in], P[fin_in], N[fin_in], True
            if got.size == 0:
                return
        o = cyl.path(g.fr, g.base, g.r, g.h, P, N, K_EPS)
        bad_self = cyl.sampled_selfcheck(g.axis, g.base, g.r, g.h, P, N, o, st.rng,
                                         m=4 if in_situ else 12)
    except Exception:  # noqa: BLE001
        ctx.oracle_error('C18 path oracle')
        return
    ctx.event('oracle.sampled_selfcheck')
    if bad_self:
        ctx.inconclusive_because(
            f'path oracle contradicts its own sampled inside test ({bad_self} samples)')
        return
    if res.unit != g.unit:
        # one length unit throughout: the path length comes in it; mixed (compatible) length
        # units that the code accepts: any length unit, converted here
        try:
            to_g = float(_ratio(res.unit, g.unit)) if (
                _mixed_units(c, sp.unit) and si.dim(res.unit) == si.dim(g.unit)) else None
        except Exception:  # noqa: BLE001   not a unit the table knows: not a length
            to_g = None
        if to_g is None:
            ctx.violation('path_unit', f'path length unit {res.unit}, geometry in {g.unit}', case,
                          origin=tag)
            return
        got = got * to_g
        ctx.count('mixed_length_units:path_converted')
    L, lo_b, hi_b, delta = o['L'], o['L_in'], o['L_out'], o['delta']
    scale = o['dist'] + g.r + g.h
    finite = np.isfinite(got)
    width = hi_b - lo_b
    wide = width > LD(np.sqrt(EPS)) * scale * LD(4)
    n_wide = int(np.count_nonzero(wide))
    if n_wide:
        ctx.count('undecided:ray_grazing_surface', n_wide)
    tangentish = (width > LD(1e3 * EPS) * scale) & ~wide
    ctx.count('rays_decided', int(got.size - n_wide))
    ctx.count('rays_sqrt_conditioned', int(np.count_nonzero(tangentish)))
    ctx.event(f'beam_intersection.{tag}')
    if layout:
        ctx.event('beam_intersection.layout')
        ctx.count('layout:entries_decided', int(got.size - n_wide))
        ctx.count('layout:entries_decided_with_nonzero_path', int(np.count_nonzero((lo_b > 0) & ~wide)))
    ok = finite & (got >= lo_b - delta) & (got <= hi_b + delta)
    with np.errstate(all='ignore'):
        err = np.abs(got.astype(LD) - L) / scale
    tight = ~wide & ~tangentish & finite
    if np.any(tight):
        ctx.dev(f'path_err/(|p-b|+r+h) transversal rays [{tag}]', float(np.max(err[tight])))
    if np.any(tangentish & finite):
        ctx.dev(f'path_err/(|p-b|+r+h) tangent-like rays [{tag}]',
                float(np.max(err[tangentish & finite])))
    if np.all(ok):
        return
    badi = np.flatnonzero(~ok.ravel())
    errs = np.where(ok, LD(0), err).ravel()
    i = int(np.argmax(errs)) if np.any(errs > 0) else int(badi[0])
    gi = float(np.ravel(got)[i])
    Li = float(np.ravel(L)[i])
    cls = None
    if st.ray_classes is not None and sel is None and len(st.ray_classes) == got.size:
        cls = st.ray_classes[i]
    u, v, z = cyl.local(g.fr, g.base, P.reshape(-1, 3)[i])
    rho0 = float(np.sqrt(u * u + v * v))
    start_inside = bool(rho0 <= float(g.r) and 0 <= float(z) <= float(g.h))
    if not np.isfinite(gi):
        kind, sign = 'path_nonfinite', 'nonfinite'
    elif gi > float(np.ravel(hi_b)[i]):
        kind, sign = 'path_length', 'too_long'
    else:
        kind, sign = 'path_length', 'too_short'
    case['worst_ray'] = {
        'start_point': [repr(float(x)) for x in P.reshape(-1, 3)[i]],
        'direction': [repr(float(x)) for x in N.reshape(-1, 3)[i]],
        'unit': str(g.unit), 'got': repr(gi), 'expected': repr(Li),
        'accepted_interval': [repr(float(np.ravel(lo_b - delta)[i])),
                              repr(float(np.ravel(hi_b + delta)[i]))],
        'class': cls, 'start_rho_z_own_frame': [repr(rho0), repr(float(z))],
        'rays_failing': int(badi.size), 'rays': int(got.size),
    }
    case['worst_ray']['angle_to_axis_direction'] = repr(float(np.ravel(o['tilt'])[i]))
    case['worst_ray']['sign'] = sign
    case['worst_ray']['start_inside'] = start_inside
    case['failing_rays_angle_to_axis'] = [repr(float(x)) for x in np.ravel(o['tilt'])[badi][:8]]
    case['failing_rays_got_expected'] = [[repr(float(np.ravel(got)[k])), repr(float(np.ravel(L)[k]))]
                                         for k in badi[:8]]
    # mechanism keys only (few combinations: the runner groups witnesses by kind + keys)
    ctx.violation(kind, f'beam_intersection [{tag}]: got {gi!r}, ray inside the solid over {Li!r} '
                        f'({badi.size}/{got.size} rays outside the accepted interval)', case,
                  origin=tag, near_axis=bool(np.all(np.ravel(o['tilt'])[badi] <= NEAR_AXIS)))


# -------------------------------------------------------------- helper monitors ---
def judge_positive_interval(st: State, ev):
    """max(0, max(0, min(a1, b1)) - max(0, max(a0, b0))): exact model on the observed floats."""
    ctx = st.ctx
    if ev.exc is not None or ev.result.size == 0:
        return
    if _big_skip(st, ev.result.size):
        return
    try:
        a, b, res = ev.args['a'], ev.args['b'], ev.result
        if res.size > BIG_ELEMS:
            res, (x0, x1, y0, y1) = _thin(st, res, (*a, *b))
            a, b = (x0, x1), (y0, y1)
        dims, shape = tuple(res.dims), tuple(res.shape)
        a0, a1 = (_scal_values(x, dims, shape).astype(LD) for x in a)
        b0, b1 = (_scal_values(x, dims, shape).astype(LD) for x in b)
        got = np.asarray(res.values, dtype=np.float64).reshape(shape)
        with np.errstate(all='ignore'):
            left, right = np.maximum(a0, b0), np.minimum(a1, b1)
            z = LD(0)
            exp = np.maximum(z, np.maximum(z, right) - np.maximum(z, left))
            judged = ~(np.isnan(a0) | np.isnan(a1) | np.isnan(b0) | np.isnan(b1) | np.isnan(exp))
            same_inf = np.isinf(exp) & (got == exp)
            diff = np.abs(got - exp)
            bad = judged & ~same_inf & ~(diff <= LD(2 * EPS) * np.abs(exp))
    except Exception:  # noqa: BLE001
        ctx.oracle_error('C18 positive-interval model')
        return
    ctx.event('helper.positive_interval')
    if np.any(bad):
        i = int(np.flatnonzero(bad.ravel())[0])
        case = {'monitor': '_positive_interval_intersection',
                'a': [repr(float(a0.ravel()[i])), repr(float(a1.ravel()[i]))],
                'b': [repr(float(b0.ravel()[i])), repr(float(b1.ravel()[i]))],
                'got': repr(float(got.ravel()[i])), 'expected': repr(float(exp.ravel()[i]))}
        ctx.violation('helper_positive_interval',
                      f'length of a∩b∩[0,inf): got {case["got"]}, expected {case["expected"]}', case,
                      origin=st.origin)


def judge_slab(st: State, ev):
    """Observed (flag, left, right): right - left = h / |n.a| and 0 in [left, right] iff the
    origin lies between the planes (decided outside a rounding band)."""
    ctx = st.ctx
    if ev.exc is not None or ev.result[1].size == 0 or _big_skip(st, ev.result[1].size):
        return
    try:
        a, b, h, n = (ev.args[k] for k in 'abhn')
        flag, left, right = ev.result
        if left.size > BIG_ELEMS:
            left, (flag, right, a, b, h, n) = _thin(st, left, (flag, right, a, b, h, n))
        dims, shape = tuple(left.dims), tuple(left.shape)
        A = _vec_values(a, dims, shape).astype(LD)
        B = _vec_values(b, dims, shape).astype(LD)
        Nn = _vec_values(n, dims, shape).astype(LD)
        hh = _scal_values(h, dims, shape).astype(LD)
        an = np.sqrt(np.sum(A * A, axis=-1))
        nda = np.sum(Nn * A, axis=-1) / an
        z0 = -np.sum(B * A, axis=-1) / an          # height of the line origin above the base
        le = np.asarray(left.values, dtype=np.float64).reshape(shape).astype(LD)
        ri = np.asarray(right.values, dtype=np.float64).reshape(shape).astype(LD)
        fl = _scal_values(flag, dims, shape).astype(bool) if flag.dims else np.full(shape, bool(flag.value))
        bmag = np.sqrt(np.sum(B * B, axis=-1))
        fin_in = np.all(np.isfinite(B), axis=-1) & np.all(np.isfinite(Nn), axis=-1)
        well = (np.abs(nda) > 1e-3) & fin_in
        with np.errstate(all='ignore'):
            wid = ri - le
            exp = hh / np.abs(nda)
            # n.a carries an absolute rounding error ~eps: relative 1/|n.a| in the width
            tol = LD(8 * EPS) * (np.abs(le) + np.abs(ri) + exp * (1 + 1 / np.abs(nda)))
            bad_w = well & ~(np.abs(wid - exp) <= tol)
            band = LD(K_EPS * EPS) * (bmag + hh)
            inside = (z0 > band) & (z0 < hh - band)
            outside = (z0 < -band) | (z0 > hh + band)
            has0 = (le <= 0) & (ri >= 0)
            bad_m = well & ((inside & ~(has0 & fl)) | (outside & has0))
    except Exception:  # noqa: BLE001
        ctx.oracle_error('C18 slab model')
        return
    ctx.event('helper.slab')
    ctx.count('helper_unjudged:slab_ill_conditioned', int(np.count_nonzero(~well)))
    if np.any(bad_w | bad_m):
        i = int(np.flatnonzero((bad_w | bad_m).ravel())[0])
        case = {'monitor': '_line_slab_intersection', 'left': repr(float(le.ravel()[i])),
                'right': repr(float(ri.ravel()[i])), 'h/|n.a|': repr(float(exp.ravel()[i])),
                'origin_height_over_base': repr(float(z0.ravel()[i])), 'h': repr(float(hh.ravel()[i]))}
        case['aspect'] = 'width' if bad_w.ravel()[i] else 'membership'
        ctx.violation('helper_slab', 'slab interval is not {t: 0 <= z0 + t n.a <= h}', case,
                      origin=st.origin)


def judge_infinite_cylinder(st: State, ev):
    """Observed (flag, left, right) for non-parallel, well-conditioned lines: both ends are
    roots of A t^2 + 2 B t + C (backward-stable residual) and the flag is the sign of the
    discriminant outside a rounding band."""
    ctx = st.ctx
    if ev.exc is not None or ev.result[1].size == 0 or _big_skip(st, ev.result[1].size):
        return
    try:
        a, b, r, n = (ev.args[k] for k in 'abrn')
        flag, left, right = ev.result
        if left.size > BIG_ELEMS:
            left, (flag, right, a, b, r, n) = _thin(st, left, (flag, right, a, b, r, n))
        dims, shape = tuple(left.dims), tuple(left.shape)
        Av = _vec_values(a, dims, shape)
        Bv = _vec_values(b, dims, shape)
        Nv = _vec_values(n, dims, shape)
        rr = _scal_values(r, dims, shape).astype(LD)
        if Av.reshape(-1, 3).shape[0] and not np.all(Av.reshape(-1, 3) == Av.reshape(-1, 3)[0]):
            ctx.count('helper_unjudged:cylinder_axis_array')
            return
        fr = cyl.frame(Av.reshape(-1, 3)[0])
        qu, qv, _ = cyl.local(fr, np.zeros(3), -Bv)   # line origin relative to a point of the axis
        du, dv, _ = cyl.local_dir(fr, Nv)
        A = du * du + dv * dv
        B = qu * du + qv * dv
        q2 = qu * qu + qv * qv
        C = q2 - rr * rr
        le = np.asarray(left.values, dtype=np.float64).reshape(shape).astype(LD)
        ri = np.asarray(right.values, dtype=np.float64).reshape(shape).astype(LD)
        fl = _scal_values(flag, dims, shape).astype(bool)
        with np.errstate(all='ignore'):
            disc = B * B - A * C
            b2 = np.sum(Bv.astype(LD) ** 2, axis=-1)   # the code works with the full 3-d b
            band = LD(K_EPS * EPS) * (B * B + A * (b2 + rr * rr)) * (1 + 1 / np.sqrt(A))
            well = (A > 1e-6) & np.all(np.isfinite(Bv), axis=-1) & np.all(np.isfinite(Nv), axis=-1)
            hit = well & (disc > band)
            miss = well & (disc < -band)
            bad_f = (hit & ~fl) | (miss & fl)
            # conditioning of a root: |f'(t)| = 2 sqrt(disc)
            def resid(t):
                f = A * t * t + 2 * B * t + C
                mag = A * t * t + 2 * np.abs(B * t) + b2 + rr * rr
                return np.abs(f) <= LD(K_EPS * EPS) * mag * (1 + 1 / np.sqrt(A))
            bad_r = hit & fl & ~(resid(le) & resid(ri) & (le <= ri))
    except Exception:  # noqa: BLE001
        ctx.oracle_error('C18 infinite-cylinder model')
        return
    ctx.event('helper.infinite_cylinder')
    ctx.count('helper_unjudged:cylinder_ill_conditioned', int(np.count_nonzero(~well)))
    if np.any(bad_f | bad_r):
        i = int(np.flatnonzero((bad_f | bad_r).ravel())[0])
        case = {'monitor': '_line_infinite_cylinder_intersection',
                'left': repr(float(le.ravel()[i])), 'right': repr(float(ri.ravel()[i])),
                'flag': bool(fl.ravel()[i]), 'A': repr(float(np.ravel(A)[i])),
                'B': repr(float(np.ravel(B)[i])), 'C': repr(float(np.ravel(C)[i]))}
        ctx.violation('helper_infinite_cylinder',
                      'interval is not {t: rho(t n - b) <= r} for a well-conditioned line',
                      dict(case, aspect='flag' if bad_f.ravel()[i] else 'roots'), origin=st.origin)


# ------------------------------------------------------------ quadrature monitor ---
def _cluster_ids(x, tol):
    """Integer key per element: elements closer than 2 tol (chained) share a key."""
    out = np.zeros(x.size, dtype=np.int64)
    if x.size:
        o = np.argsort(x, kind='stable')
        out[o] = np.concatenate([[0], np.cumsum(np.diff(x[o]) > 2 * tol)])
    return out


def multiset_distance(M1, M2, tols):
    """Largest mismatch (in units of the column tolerances) of the best pairing of two
    multisets of rows (z, rho, w).

    z and w take few, well separated values (layers of the axial rule, orbits of the disk
    rule): they are clustered on the union of both tables, so partners within tolerance
    always share a cluster; inside each (z, w) cluster the rows are paired in the order of
    rho, which is the optimal pairing in one dimension.  Different cluster populations -> inf.
    """
    if M1.shape != M2.shape:
        return float('inf')
    n = M1.shape[0]
    if n == 0:
        return 0.0
    U = np.concatenate([M1, M2]).astype(np.float64)
    kz = _cluster_ids(U[:, 0], float(tols[0]))
    kw = _cluster_ids(U[:, 2], float(tols[2]))
    key = kz * (int(kw.max()) + 1) + kw
    k1, k2 = key[:n], key[n:]
    if not np.array_equal(np.sort(k1), np.sort(k2)):
        return float('inf')
    o1 = np.lexsort((np.asarray(M1[:, 1], dtype=np.float64), k1))
    o2 = np.lexsort((np.asarray(M2[:, 1], dtype=np.float64), k2))
    d = np.abs(M1[o1] - M2[o2]) / np.asarray(tols, dtype=LD)[None, :]
    return float(np.max(d))


def node_table(g: Geom, pts, w):
    rho, z = cyl.rho_z(g.fr, g.base, pts)
    return np.stack([z, rho, np.asarray(w, dtype=LD)], axis=1)


def judge_quadrature(st: State, c, kind, result, exc, origin, canonical=False):
    """Judge one observed (points, weights).  Returns the node table or None."""
    ctx = st.ctx
    kind = _kname(kind)
    c = _solid(c)
    if isinstance(kind, tuple) or kind == 'mc':
        ctx.count('excluded:mc_kind')
        return None
    try:
        g = Geom(_solid(c))
    except Exception:  # noqa: BLE001
        ctx.oracle_error('C18 geometry of observed cylinder')
        return None
    keys = dict(g.keys)      # mechanism facts; kind and pose are in the case description
    case = {'monitor': 'quadrature', 'origin': origin, 'kind': str(kind), 'cylinder': g.descr(),
            'pose': 'canonical' if canonical else 'general'}
    if st.case_descr and not canonical:
        case['case'] = st.case_descr
    if exc is not None:
        if isinstance(exc, NotImplementedError) and kind not in KINDS:
            ctx.count('excluded:unknown_kind')
            return None
        if _refused_units(ctx, exc, c, 'quadrature'):
            return None
        if _refused_variances(ctx, exc, 'quadrature', flag=_cyl_variances(c)):
            return None
        ctx.violation('quadrature_raised', f'quadrature raised {type(exc).__name__}: {exc}', case,
                      **keys)
        return None
    try:
        pts_v, w_v = result
        if pts_v.unit != g.unit:
            ctx.violation('quad_point_unit', f'points in {pts_v.unit}, geometry in {g.unit}', case,
                          **keys)
            return None
        w_unit = g.r_unit * g.r_unit * g.h_unit
        if w_v.unit != w_unit:
            w_v = w_v.to(unit=w_unit)   # scipp unit conversion: trusted base
        pts = np.asarray(pts_v.values, dtype=np.float64).reshape(-1, 3)
        w = np.asarray(w_v.values, dtype=np.float64).reshape(-1)
        if pts.shape[0] != w.shape[0] or w.size == 0:
            ctx.violation('quad_shape', f'{pts.shape[0]} points, {w.size} weights', case, **keys)
            return None
        n_bad = int(np.count_nonzero(~np.all(np.isfinite(pts), axis=1)) + np.count_nonzero(~np.isfinite(w)))
        if n_bad:
            ctx.event('quadrature.nodes')
            case['z_cross_axis_norm_float64'] = repr(float(np.sqrt(g.axis[0] ** 2 + g.axis[1] ** 2)))
            ctx.violation('quad_nonfinite',
                          f'quadrature({kind}): {n_bad} of {w.size} nodes/weights are not finite', case,
                          **keys)
            return None
        tab = node_table(g, pts, w)
        z, rho, wl = tab[:, 0], tab[:, 1], tab[:, 2]
        u, v, _ = cyl.local(g.fr, g.base, pts)
        # volume in the unit of the weights: radius and height as given
        V = cyl.volume(g.r_raw, g.h_raw)
        slack = LD(TOL_NODE) * (g.r + g.h) + LD(8 * EPS) * (LD(g.bmag) + g.r + g.h)
        out = (rho > g.r + slack) | (z < -slack) | (z > g.h + slack)
        n_out = int(np.count_nonzero(out))
        excess = np.maximum(np.maximum(rho - g.r, -z), z - g.h) / (g.r + g.h)
        sw = np.sum(wl)
        rel_sum = float(abs(sw - V) / V)
        mz = np.sum(wl * z) / V - g.h / 2
        mu_ = np.sum(wl * u) / V
        mv_ = np.sum(wl * v) / V
        mom = float(np.sqrt(mz * mz + mu_ * mu_ + mv_ * mv_) / (g.r + g.h))
        mom_tol = TOL_SUM + 16 * EPS * (g.bmag + g.scale) / g.scale
        # reported only: second moments
        m2z = float(abs(np.sum(wl * (z - g.h / 2) ** 2) / V - g.h * g.h / 12) / (g.h * g.h / 12))
        m2r = float(abs(np.sum(wl * rho * rho) / V - g.r * g.r / 2) / (g.r * g.r / 2))
    except Exception:  # noqa: BLE001
        ctx.oracle_error('C18 quadrature oracle')
        return None
    ctx.event('quadrature.nodes')
    ctx.dev(f'quad max node excess/(r+h) [{kind}]', float(np.max(excess)))
    ctx.dev(f'quad |sum w - V|/V [{kind}]', rel_sum)
    ctx.dev(f'quad first moment/(V (r+h)) [{kind}]', mom)
    if canonical:
        ctx.dev(f'quad (reported only, canonical pose) z^2 moment rel. residual [{kind}]', m2z)
        ctx.dev(f'quad (reported only, canonical pose) rho^2 moment rel. residual [{kind}]', m2r)
    case['nodes'] = int(w.size)
    if n_out:
        i = int(np.argmax(excess))
        case['fraction_of_nodes_inside'] = round(1 - n_out / w.size, 4)
        case['worst_node'] = {'point': [repr(float(x)) for x in pts[i]],
                              'rho': repr(float(rho[i])), 'z': repr(float(z[i])),
                              'r': repr(float(g.r)), 'h': repr(float(g.h))}
        ctx.violation('quad_node_outside',
                      f'quadrature({kind}): {n_out}/{w.size} nodes outside the solid '
                      f'(worst by {float(excess[i]):.3g} (r+h))', case,
                      small_displacement=bool(float(excess[i]) <= SMALL_DISPLACEMENT), **keys)
    if not np.all(w > 0) or not np.all(np.isfinite(w)):
        ctx.violation('quad_weight_nonpositive',
                      f'quadrature({kind}): {int(np.count_nonzero(~(w > 0)))} weights not > 0', case,
                      **keys)
    if not rel_sum <= TOL_SUM:
        case['sum_w'], case['volume'] = repr(float(sw)), repr(float(V))
        ctx.violation('quad_weight_sum',
                      f'quadrature({kind}): sum w = {float(sw)!r}, volume {float(V)!r} '
                      f'(rel {rel_sum:.3g})', case, **keys)
    elif not mom <= mom_tol:
        case['first_moment_offset_own_frame'] = [repr(float(mu_)), repr(float(mv_)), repr(float(mz))]
        ctx.violation('quad_first_moment',
                      f'quadrature({kind}): sum w x / V off the centre by {mom:.3g} (r+h)', case,
                      **keys)
    if canonical:
        return tab
    # rigid image: same multiset (z, rho, w) as the canonical pose of the same (r, h, kind)
    try:
        ctab = canonical_table(st, c, kind)
    except Exception:  # noqa: BLE001
        ctx.oracle_error('C18 canonical-pose observation')
        return tab
    if ctab is None:
        ctx.count('rigid_image_not_judged:canonical_pose_failed')
        return tab
    try:
        tol_pos = float(LD(TOL_NODE) * (g.r + g.h) + LD(16 * EPS) * (LD(g.bmag) + g.r + g.h))
        tol_w = 1e-12 * float(np.max(np.abs(ctab[:, 2])))
        tols = (tol_pos, tol_pos, tol_w)
        if ctab.shape == tab.shape:
            d = float(np.max(np.abs(tab - ctab) / np.asarray(tols, dtype=LD)[None, :]))
        else:
            d = float('inf')
        if not d <= 1.0:
            d = min(d, multiset_distance(tab, ctab, tols))
    except Exception:  # noqa: BLE001
        ctx.oracle_error('C18 rigid-image comparison')
        return tab
    ctx.event('quadrature.rigid_image')
    if np.isfinite(d):
        ctx.dev(f'quad rigid-image mismatch / tol [{kind}]', d)
    if not d <= 1.0:
        case['mismatch_over_tolerance'] = repr(d)
        case['tolerance_position'] = repr(tol_pos)
        ctx.violation('quad_rigid_image',
                      f'quadrature({kind}): nodes in the cylinder\'s own frame are not the canonical '
                      f'rule for (r, h) (mismatch {d:.3g} x tolerance)', case,
                      small_displacement=bool(np.isfinite(d) and d * tol_pos / g.scale <= SMALL_DISPLACEMENT),
                      **keys)
    return tab


def canonical_table(st: State, c, kind):
    c = _solid(c)
    key = (float(c.radius.value), str(c.radius.unit), float(c.height.value), str(c.height.unit),
           str(c.center_of_base.unit), str(kind))
    if key in st.canon:
        return st.canon[key]
    cc = type(c)(sc.vector([0.0, 0.0, 1.0]), sc.vector([0.0, 0.0, 0.0], unit=c.center_of_base.unit),
                 c.radius, c.height)
    try:
        res, exc = cc.quadrature(kind), None
    except Exception as e:  # noqa: BLE001
        res, exc = None, e
    tab = judge_quadrature(st, cc, kind, res, exc, 'canonical', canonical=True)
    if len(st.canon) > 64:
        st.canon.clear()
    st.canon[key] = tab
    return tab


def judge_select(st: State, ev):
    """The unit rule: nodes in the unit cylinder, weights > 0, total 2 pi, centred."""
    ctx = st.ctx
    kind = _kname(ev.args.get('kind'))
    if isinstance(kind, tuple) or kind == 'mc' or ev.exc is not None:
        return
    try:
        q = ev.result
        x, y, z, w = (np.asarray(q[k].values, dtype=np.float64).astype(LD)
                      for k in ('x', 'y', 'z', 'weights'))
        rho = np.sqrt(x * x + y * y)
        two_pi = 2 * cyl.PI
        rel = float(abs(np.sum(w) - two_pi) / two_pi)
        mom = float(max(abs(np.sum(w * x)), abs(np.sum(w * y)), abs(np.sum(w * z))) / two_pi)
        outside = int(np.count_nonzero((rho > 1 + 1e-12) | (np.abs(z) > 1 + 1e-12)))
        tab = np.stack([z, rho, w], axis=1)
        mir = np.stack([-z, rho, w], axis=1)
        sym = multiset_distance(tab, mir, (1e-12, 1e-12, 1e-12))
    except Exception:  # noqa: BLE001
        ctx.oracle_error('C18 unit-rule check')
        return
    ctx.event('select_quadrature_points')
    ctx.dev(f'unit rule (reported only) z-asymmetry / 1e-12 [{kind}]', sym)
    case = {'monitor': '_select_quadrature_points', 'kind': str(kind), 'nodes': int(w.size)}
    if outside or not np.all(w > 0) or not rel <= TOL_SUM or not mom <= TOL_SUM:
        case.update(outside=outside, rel_sum=rel, first_moment=mom)
        ctx.violation('unit_rule', f'unit rule {kind}: outside={outside}, |sum w-2pi|/2pi={rel:.3g}, '
                                   f'first moment {mom:.3g}', case)


# ---------------------------------------------------------- transmission monitors ---
def mu_oracle(material, wavelength, unit_len):
    """mu per ``unit_len`` (long double array over the wavelengths) from the material's fields."""
    n = material.effective_sample_number_density
    sp = material.scattering_params
    ss, sa = sp.total_scattering_cross_section, sp.absorption_cross_section
    lam = np.asarray(wavelength.values, dtype=np.float64).reshape(-1).astype(LD) * si.factor(
        wavelength.unit)
    mu_si = cyl.attenuation_si(LD(float(n.value)) * si.factor(n.unit),
                               LD(float(ss.value)) * si.factor(ss.unit),
                               LD(float(sa.value)) * si.factor(sa.unit), lam)
    return mu_si * si.factor(unit_len)


def mu_expected(material, wavelength, unit_len):
    """mu per ``unit_len`` that ``material`` has at the wavelengths, i.e. what
    ``material.attenuation_coefficient(lambda)`` means for that object: for a plain Material the
    1/v law of its fields; for a harness-owned stand-in (a subclass that overrides the method, a
    duck-typed object) the law the stand-in declares (evaluated here in long double from the
    parameters of the law, never by calling the method)."""
    f = getattr(material, 'rv_expected_mu', None)
    if f is not None:
        return np.asarray(f(wavelength, unit_len), dtype=LD).reshape(-1)
    return mu_oracle(material, wavelength, unit_len)


def judge_mu(st: State, ev):
    """``Material.attenuation_coefficient`` (the base-class code object; a subclass that calls
    ``super()`` is seen here with its own fields): values against the 1/v law of the fields; where
    only the wavelength carries variances the result's variances against first-order propagation
    of that linear law."""
    ctx = st.ctx
    if ev.depth == 0:
        st.outer_returns += 1
    lam = ev.args['wavelength']
    mat = ev.args['self']
    if ev.exc is not None:
        if _refused_variances(ctx, ev.exc, 'attenuation_coefficient', lam, flag=_mat_variances(mat)):
            return
        ctx.violation('attenuation_raised', f'attenuation_coefficient raised {ev.exc!r}',
                      {'monitor': 'Material.attenuation_coefficient'})
        return
    try:
        exp = mu_oracle(mat, lam, sc.Unit('m'))
        got_v = (ev.result * sc.scalar(1.0, unit='m')).to(unit='dimensionless')
        got = np.asarray(got_v.values, dtype=np.float64).reshape(-1)
        err = si.relerr(got, exp)
        worst = float(np.max(err)) if err.size else 0.0
        var_err = None
        if _has_variances(lam) and not _mat_variances(mat):
            # mu = n (sigma_s + sigma_a lambda / lambda_ref): linear in the one operand with variances
            n = mat.effective_sample_number_density
            sa = mat.scattering_params.absorption_cross_section
            slope = (LD(float(n.value)) * si.factor(n.unit) * LD(float(sa.value)) * si.factor(sa.unit)
                     / cyl.REF_WAVELENGTH_M)
            var_exp = slope * slope * (np.asarray(lam.variances, dtype=np.float64).reshape(-1).astype(LD)
                                       * si.factor(lam.unit) ** 2)
            if got_v.variances is None:
                var_err = float('inf')
            else:
                var_got = np.asarray(got_v.variances, dtype=np.float64).reshape(-1)
                scale_v = np.maximum(np.abs(var_exp), LD(1e-300))
                var_err = float(np.max(np.abs(var_got - var_exp) / scale_v)) if var_got.size else 0.0
    except Exception:  # noqa: BLE001
        ctx.oracle_error('C18 attenuation oracle')
        return
    ctx.event('attenuation_coefficient')
    ctx.dev('mu relative error', worst)
    full = _full_tag(st)
    if full:
        ctx.event('attenuation_coefficient.every_field_populated')
        ctx.dev('mu relative error (every field of ScatteringParams populated)', worst)
        if not np.any(np.asarray(exp) != 0):
            ctx.event('attenuation_coefficient.every_field_populated.law_fields_zero')
    if worst > 1e-12:
        k = int(np.argmax(np.asarray(err, dtype=np.float64))) if err.size else 0
        case = {'monitor': 'Material.attenuation_coefficient', 'got': repr(float(got[k])),
                'expected_1/m': repr(float(np.ravel(exp)[k]))}
        if full:
            case['case'] = st.case_descr
        ctx.violation('attenuation_value', f'attenuation coefficient off by {worst:.3g} relative', case)
    if var_err is not None:
        ctx.event('attenuation_coefficient.variances')
        if np.isfinite(var_err):
            ctx.dev('mu variance relative error (wavelength with variances)', var_err)
        if not var_err <= 1e-12:
            ctx.violation('attenuation_variance',
                          'wavelength with variances: variances of the attenuation coefficient are not '
                          f'(n sigma_a / lambda_ref)^2 var(lambda) (off by {var_err:.3g} relative)',
                          {'monitor': 'Material.attenuation_coefficient',
                           'case': st.case_descr})


def judge_single_scatter(st: State, ev):
    """L1 + L2 for (node, -beam) and (node, scatter direction): both legs, enclosure."""
    ctx = st.ctx
    if ev.exc is not None:
        return
    if _big_skip(st, ev.result.size):
        return
    try:
        g = Geom(_solid(ev.args['sample_shape']))
        res = ev.result
        a_sp, a_id, a_sd = (ev.args[k] for k in ('scatter_point', 'initial_direction',
                                                 'scatter_direction'))
        if res.size > BIG_ELEMS:
            res, (a_sp, a_id, a_sd) = _thin(st, res, (a_sp, a_id, a_sd))
        dims, shape = tuple(res.dims), tuple(res.shape)
        got = np.asarray(res.values, dtype=np.float64).reshape(shape)
        P = _vec_values(a_sp, dims, shape) * float(_ratio(a_sp.unit, g.unit))
        N1 = -_vec_values(a_id, dims, shape)
        N2 = _vec_values(a_sd, dims, shape)
        if got.size > 60000:
            flat = st.rng.choice(got.size, size=20000, replace=False)
            sel = np.unravel_index(flat, shape)
            got, P, N1, N2 = got[sel], P[sel], N1[sel], N2[sel]
        fin_in = (np.all(np.isfinite(P), axis=-1) & np.all(np.isfinite(N1), axis=-1)
                  & np.all(np.isfinite(N2), axis=-1))
        if not np.all(fin_in):
            got, P, N1, N2 = got[fin_in], P[fin_in], N1[fin_in], N2[fin_in]
            if got.size == 0:
                ctx.count('out_of_domain:scatter_points_nonfinite')
                return
        o1 = cyl.path(g.fr, g.base, g.r, g.h, P, N1, K_EPS)
        o2 = cyl.path(g.fr, g.base, g.r, g.h, P, N2, K_EPS)
        lo = o1['L_in'] + o2['L_in'] - 2 * o1['delta']
        hi = o1['L_out'] + o2['L_out'] + 2 * o1['delta']
        ok = np.isfinite(got) & (got >= lo) & (got <= hi)
    except Exception:  # noqa: BLE001
        ctx.oracle_error('C18 single-scatter oracle')
        return
    ctx.event('single_scatter_distance')
    if not np.all(ok):
        i = int(np.flatnonzero(~ok.ravel())[0])
        case = {'monitor': '_single_scatter_distance_through_sample', 'cylinder': g.descr(),
                'scatter_point': [repr(float(x)) for x in P.reshape(-1, 3)[i]],
                'towards_source': [repr(float(x)) for x in N1.reshape(-1, 3)[i]],
                'scatter_direction': [repr(float(x)) for x in N2.reshape(-1, 3)[i]],
                'got': repr(float(got.ravel()[i])),
                'L_in': repr(float(np.ravel(o1['L'])[i])), 'L_out': repr(float(np.ravel(o2['L'])[i])),
                'failing': int(np.count_nonzero(~ok)), 'of': int(got.size)}
        g1 = float(got.ravel()[i])
        only = ('only_L_in' if abs(g1 - float(np.ravel(o1['L'])[i])) <= 1e-9 * g.scale else
                'only_L_out' if abs(g1 - float(np.ravel(o2['L'])[i])) <= 1e-9 * g.scale else 'other')
        bad = ~ok.ravel()
        np_all = bool(np.all(((np.ravel(o1['tilt']) <= NEAR_AXIS) | (np.ravel(o2['tilt']) <= NEAR_AXIS))[bad]))
        ctx.violation('single_scatter_distance',
                      f'distance through sample {g1!r} is not L_in + L_out = '
                      f'{float(np.ravel(o1["L"])[i] + np.ravel(o2["L"])[i])!r}',
                      dict(case, looks_like=only), near_axis=np_all)


def on_quadrature_return(st: State, ev):
    kind = ev.args.get('kind')
    if ev.depth == 0:
        st.outer_returns += 1
    if ev.depth > 0 and ev.exc is None and st.origin in ('transmission', 'state'):
        st.last_quad = (ev.result[0], ev.result[1], kind, ev.args['self'])
    judge_quadrature(st, ev.args['self'], kind, ev.result, ev.exc, st.origin)


def on_integrate_start(st: State, ev):
    st.integ_depth += 1
    st.integ_calls += 1
    if st.integ_depth > 1:
        st.loop_calls += 1           # a frame inside a frame: the per-detector loop branch


def on_integrate_return(st: State, ev):
    st.integ_depth = max(0, st.integ_depth - 1)
    if ev.exc is None and st.origin in ('transmission', 'state'):
        st.last_integral = ev.result   # outermost returns last


def judge_props(st: State, c, label):
    """``volume`` and ``center`` of a live object against its CURRENT public fields."""
    ctx = st.ctx
    try:
        g = Geom(_solid(c))
    except Exception:  # noqa: BLE001
        ctx.oracle_error('C18 geometry of observed cylinder')
        return
    case = {'monitor': 'Cylinder.volume / Cylinder.center', 'cylinder': g.descr(), 'state': label}
    if st.case_descr:
        case['case'] = st.case_descr
    for name in ('volume', 'center'):
        try:
            got = getattr(c, name)
        except AttributeError:
            ctx.count(f'not_judged:no_attribute_{name}')
            continue
        except Exception as e:  # noqa: BLE001
            if _refused_units(ctx, e, c, name):
                continue
            if _refused_variances(ctx, e, name, flag=_cyl_variances(c)):
                continue
            ctx.violation('state_attribute_raised', f'Cylinder.{name} raised {type(e).__name__}: {e}',
                          case, attribute=name)
            continue
        var_err = None
        try:
            if name == 'volume':
                w_unit = g.r_unit * g.r_unit * g.h_unit
                gv = got if got.unit == w_unit else got.to(unit=w_unit)
                V = cyl.volume(g.r_raw, g.h_raw)
                err = float(abs(LD(float(gv.value)) - V) / V)
                tol = 16 * EPS
                what = f'volume {float(gv.value)!r}, pi r^2 h of the current fields {float(V)!r}'
                if _cyl_variances(c):
                    # V = pi r^2 h, r and h independent operands: first order
                    # var V = (2 pi r h)^2 var r + (pi r^2)^2 var h  (raw values: V is in r.unit^2 h.unit)
                    vr = LD(float(c.radius.variance)) if c.radius.variance is not None else LD(0)
                    vh = LD(float(c.height.variance)) if c.height.variance is not None else LD(0)
                    rr, hh = LD(g.r_raw), LD(g.h_raw)
                    var_exp = (2 * cyl.PI * rr * hh) ** 2 * vr + (cyl.PI * rr * rr) ** 2 * vh
                    var_err = (float('inf') if gv.variance is None else
                               float(abs(LD(float(gv.variance)) - var_exp) / var_exp))
            else:
                gv = np.asarray(got.value, dtype=np.float64) * float(_ratio(got.unit, g.unit))
                exp = np.asarray(g.base, dtype=LD) + g.fr[2] * g.h / 2
                err = float(np.max(np.abs(gv.astype(LD) - exp)) / (LD(g.bmag) + g.h))
                tol = 16 * EPS
                what = (f'center {gv.tolist()!r}, base + axis h/2 of the current fields '
                        f'{[float(x) for x in exp]!r}')
        except Exception:  # noqa: BLE001
            ctx.oracle_error(f'C18 {name} oracle')
            continue
        ctx.event(f'state.{name}')
        ctx.dev(f'{name} relative deviation from the current fields', err)
        if not err <= tol:
            ctx.violation(f'state_{name}', what, case, attribute=name)
        if var_err is not None:
            ctx.event('state.volume.variances')
            if np.isfinite(var_err):
                ctx.dev('volume variance relative error (radius / height with variances)', var_err)
            if not var_err <= 1e-12:
                ctx.violation('volume_variance',
                              'radius / height with variances: the variance of the volume is not the '
                              f'first-order propagation through pi r^2 h (off by {var_err:.3g} relative)',
                              case, attribute=name)


def judge_map(st: State, ev):
    """compute_transmission_map: recompute from the observed nodes/weights with oracle paths."""
    ctx = st.ctx
    a = ev.args
    if ev.depth == 0:
        st.outer_returns += 1
    shape_arg, mat = a['sample_shape'], a['sample_material']
    c = _solid(shape_arg)
    kind = _kname(a['quadrature_kind'])
    quad, st.last_quad = st.last_quad, None
    integral, st.last_integral = st.last_integral, None
    try:
        g = Geom(_solid(c))
    except Exception:  # noqa: BLE001
        ctx.oracle_error('C18 geometry of observed cylinder')
        return
    case = {'monitor': 'compute_transmission_map', 'kind': str(kind), 'cylinder': g.descr()}
    if st.case_descr:
        case['case'] = st.case_descr
    keys = dict(g.keys)
    det, lam = a['detector_position'], a['wavelength']
    try:
        # layouts for which the documented call has no meaning by dimension label: the wavelengths are
        # "an array" (1-d); a detector dim with the label of the wavelength dim gives one label two roles;
        # a detector dim labelled like the dim of the quadrature nodes ('quad') is paired with the nodes
        odd_dims = (lam.ndim != 1 or (lam.ndim == 1 and lam.dim in det.dims) or 'quad' in det.dims)
        with_var = _has_variances(lam) or _cyl_variances(c) or _mat_variances(mat)
    except Exception:  # noqa: BLE001
        ctx.oracle_error('C18 map operands')
        return
    if ev.exc is not None:
        if _refused_units(ctx, ev.exc, c, 'compute_transmission_map'):
            return
        if _refused_variances(ctx, ev.exc, 'compute_transmission_map', flag=with_var):
            return
        if odd_dims and isinstance(ev.exc, sc.DimensionError):
            ctx.count('refused:map_operand_dims_without_meaning_by_label')
            return
        if isinstance(ev.exc, NotImplementedError) and not isinstance(kind, tuple) and kind not in KINDS \
                and not hasattr(shape_arg, 'rv_kinds'):
            ctx.count('excluded:unknown_kind')
            return
        if getattr(mat, 'rv_documented', True) is False and isinstance(ev.exc, (TypeError, AttributeError)):
            # an object that only quacks like a Material (no subclass): refusing it is allowed
            ctx.count('refused:material_not_a_Material_instance')
            return
        ctx.violation('transmission_raised',
                      f'compute_transmission_map raised {type(ev.exc).__name__}: {ev.exc}', case,
                      **keys)
        return
    if odd_dims:
        ctx.count('not_judged:map_for_operand_dims_without_meaning_by_label')
        return
    if quad is None:
        own = getattr(shape_arg, 'rv_returned', None)
        if own is not None:
            quad = own            # the nodes a harness-owned subclass handed out in its own quadrature()
            ctx.count('map_judged_from_nodes_of_overriding_subclass')
    if quad is None:
        ctx.count('map_not_judged:no_quadrature_observed')
        return
    try:
        res = ev.result
        data = res.data
        ddims = list(det.dims)
        want = [*ddims, lam.dim]
        if set(data.dims) != set(want):
            ctx.violation('transmission_dims', f'dims {data.dims}, expected {want}', case, **keys)
            return
        T = np.asarray(data.transpose(want).values, dtype=np.float64).reshape(-1, lam.sizes[lam.dim])
        D = np.asarray(det.values, dtype=np.float64).reshape(-1, 3) * float(_ratio(det.unit, g.unit))
        sub = None
        if D.shape[0] > (8 if st.big else 48):
            sub = np.sort(st.rng.choice(D.shape[0], size=8, replace=False))
            sub[0], sub[-1] = 0, D.shape[0] - 1
            D, Tj = D[sub], T[sub]
        else:
            Tj = T
        pts = np.asarray(quad[0].values, dtype=np.float64).reshape(-1, 3) * float(
            _ratio(quad[0].unit, g.unit))
        w_unit = g.r_unit * g.r_unit * g.h_unit
        wv = quad[1] if quad[1].unit == w_unit else quad[1].to(unit=w_unit)
        w = np.asarray(wv.values, dtype=np.float64).reshape(-1)
        if not (np.all(np.isfinite(pts)) and np.all(np.isfinite(w))):
            ctx.event('transmission.value')
            case['nan_in_map'] = int(np.count_nonzero(~np.isfinite(T)))
            ctx.violation('transmission_nonfinite',
                          'compute_transmission_map integrated over non-finite quadrature nodes: '
                          f'{case["nan_in_map"]} of {T.size} map elements are not finite', case, **keys)
            return
        V = cyl.volume(g.r_raw, g.h_raw)
        mu = mu_expected(mat, lam, g.unit)
        beam = np.asarray(a['beam_direction'].value, dtype=np.float64)
        exp, lo, hi = cyl.transmission(g.fr, g.base, g.r, g.h, pts, w, V, beam, D, mu, K_EPS)
        unit_ok = data.unit == sc.units.dimensionless
        coords_ok = (sc.identical(res.coords['detector_position'], det)
                     and sc.identical(res.coords['wavelength'], lam))
    except Exception:  # noqa: BLE001
        ctx.oracle_error('C18 transmission oracle')
        return
    ctx.event('transmission.value')
    if _full_tag(st):
        ctx.event('transmission.value.every_field_populated')
    if not unit_ok:
        ctx.violation('transmission_unit', f'transmission has unit {data.unit}', case, **keys)
        return
    if not coords_ok:
        ctx.violation('transmission_coords', 'coordinates of the map are not the inputs', case, **keys)
    err = np.maximum(lo - Tj, Tj - hi)
    err = np.where(np.isfinite(Tj), err, LD(np.inf))
    worst = float(np.max(err))
    ctx.dev('transmission |observed - recomputed| beyond path enclosure', max(worst, 0.0))
    ctx.dev('transmission |observed - recomputed|', float(np.max(np.abs(Tj - exp))))
    ctx.dev('transmission enclosure width', float(np.max(hi - lo)))
    mu_max = float(np.max(mu))
    case['zero_attenuation'] = bool(mu_max == 0.0)
    beam_near = _beam_tilt_class(g, beam)
    det_tilt = _tilt(g, D - np.asarray(g.base + g.axis * float(g.h) / 2))
    near_det = det_tilt <= NEAR_AXIS
    case['beam_near_axis_direction'] = beam_near
    keys['near_axis'] = bool(beam_near or np.any(near_det))
    if not worst <= TOL_T:
        i, j = np.unravel_index(int(np.argmax(err)), err.shape)
        case.update(detector_index=int(i if sub is None else sub[i]), wavelength_index=int(j),
                    got=repr(float(Tj[i, j])), recomputed=repr(float(exp[i, j])),
                    mu_per_unit=repr(float(mu[j])), nodes=int(w.size),
                    sum_w_over_V=repr(float(np.sum(w.astype(LD)) / V)))
        # mechanism fact for the worst detector: is any direction involved near the axis?
        keys_v = dict(keys, near_axis=bool(
            beam_near or near_det[i] or np.any(_tilt(g, D[i][None, :] - pts) <= NEAR_AXIS)))
        ctx.violation('transmission_value',
                      f'transmission {float(Tj[i, j])!r}, recomputed from the observed quadrature and '
                      f'oracle paths {float(exp[i, j])!r}', case, **keys_v)
    if float(np.min(exp)) < 1e-200:
        ctx.count('out_of_domain:transmission_underflow')
    elif not (np.all(T > 0) and np.all(T <= 1 + 1e-6)):
        case.update(min=repr(float(np.min(T))), max=repr(float(np.max(T))))
        ctx.violation('transmission_range',
                      f'transmission outside (0, 1]: min {float(np.min(T))!r} max {float(np.max(T))!r}',
                      case, **keys)
    if mu_max == 0.0:
        ctx.event('transmission.zero_density')
        if _full_tag(st):
            ctx.event('transmission.zero_attenuation.every_field_populated')
        d1 = float(np.max(np.abs(T - 1)))
        ctx.dev('transmission |T - 1| without attenuation', d1)
        if not d1 <= TOL_SUM:
            ctx.violation('transmission_not_one', f'no attenuation but T differs from 1 by {d1:.3g}',
                          case, **keys)
    # decreases when attenuation grows: along the wavelengths of one map (decided where the recomputed
    # enclosures of the two elements are separated by more than the tolerance of the values)
    try:
        if mu.size >= 2:
            o = np.argsort(np.asarray(mu, dtype=np.float64), kind='stable')
            gap = np.asarray(lo[:, o[:-1]] - hi[:, o[1:]], dtype=np.float64)
            dec = (gap > 2 * TOL_T) & (np.diff(np.asarray(mu, dtype=np.float64)[o]) > 0)[None, :]
            ctx.count('undecided:wavelength_step_below_rounding', int(np.count_nonzero(~dec)))
            if np.any(dec):
                ctx.event('transmission.monotone_wavelength')
                badw = dec & ~(Tj[:, o[1:]] < Tj[:, o[:-1]])
                if np.any(badw):
                    i, j = np.unravel_index(int(np.flatnonzero(badw.ravel())[0]), badw.shape)
                    case2 = dict(case, detector_index=int(i),
                                 mu_per_unit=[repr(float(mu[o[j]])), repr(float(mu[o[j + 1]]))],
                                 T=[repr(float(Tj[i, o[j]])), repr(float(Tj[i, o[j + 1]]))])
                    ctx.violation('transmission_not_decreasing_in_wavelength',
                                  f'attenuation grows from {float(mu[o[j]])!r} to {float(mu[o[j + 1]])!r} per '
                                  f'{g.unit} between two wavelengths, transmission goes '
                                  f'{float(Tj[i, o[j]])!r} -> {float(Tj[i, o[j + 1]])!r}', case2, **keys)
    except Exception:  # noqa: BLE001
        ctx.oracle_error('C18 wavelength monotonicity check')
    if integral is not None:
        # normalisation: map = integral / volume (an internal of the package: judged only where it has
        # the layout of the map; otherwise the map itself is what is judged above)
        dn = None
        try:
            iv = integral if integral.unit == w_unit else integral.to(unit=w_unit)
            if dict(iv.sizes) == dict(data.sizes):
                I = np.asarray(iv.transpose(want).values, dtype=np.float64).reshape(T.shape)
                dn = float(np.max(np.abs(I.astype(LD) / V - T)))
            else:
                ctx.count('normalisation_not_judged:integral_has_other_dims_than_the_map')
        except Exception:  # noqa: BLE001
            ctx.oracle_error('C18 normalisation check')
        if dn is not None:
            ctx.event('integrate.normalisation')
            ctx.dev('map - integral / V', dn)
            if not dn <= 1e-12:
                case['integral_over_V_minus_map'] = repr(dn)
                ctx.violation('transmission_normalisation',
                              f'map differs from (weighted sum)/(pi r^2 h) by {dn:.3g}', case, **keys)
    st.maps.append({'T': T, 'geom': g, 'kind': str(kind), 'mu_max': mu_max, 'exp': exp,
                    'sub': sub, 'near_axis': keys['near_axis']})


def _tilt(g, d):
    du, dv, dz = cyl.local_dir(g.fr, d)
    with np.errstate(all='ignore'):
        return np.asarray(np.sqrt(du * du + dv * dv) / np.sqrt(du * du + dv * dv + dz * dz),
                          dtype=np.float64)


def _beam_tilt_class(g, beam):
    """True when the beam is within NEAR_AXIS (1/64) rad of the axis direction but not exactly
    (bitwise) parallel to it."""
    exact = bool(np.all(beam == g.axis) or np.all(beam == -g.axis))
    return bool(_tilt(g, beam) <= NEAR_AXIS and not exact)


# -------------------------------------------------------------------- workload ---
AXIS_CLASSES = ('+x', '-x', '+y', '-y', '+z', '-z', 'near+z', 'near-z', 'z<0', 'z>0',
                'equator+', 'equator-', 'xy-plane', 'sphere', 'tilt>1e-10', 'xy-plane-up')
FORCED_AXIS = {'+x': 'axis +x', '-x': 'axis -x', '+y': 'axis +y', '-y': 'axis -y', '+z': 'axis +z',
               '-z': 'axis -z', 'near+z': 'axis within 1e-12 of +z',
               'near-z': 'axis within 1e-12 of -z'}


def _unit(v):
    return v / np.linalg.norm(v)


def _sphere(rng):
    return _unit(rng.normal(size=3))


def gen_axis(rng, cls, ctx):
    e = {'x': np.array([1.0, 0, 0]), 'y': np.array([0, 1.0, 0]), 'z': np.array([0, 0, 1.0])}
    if cls in ('+x', '-x', '+y', '-y', '+z', '-z'):
        a = e[cls[1]] * (1.0 if cls[0] == '+' else -1.0)
    elif cls in ('near+z', 'near-z'):
        t = 10.0 ** rng.uniform(-16, -12)
        ph = rng.uniform(0, 2 * np.pi)
        a = _unit(np.array([t * np.cos(ph), t * np.sin(ph), 1.0 if cls == 'near+z' else -1.0]))
    elif cls == 'tilt>1e-10':
        # just above the tilt from +-z below which quadrature() applies no rotation (the band
        # 1e-12..1e-10 below it is left out: there the nodes are displaced by up to 5e-11 h, an
        # accuracy-only effect far inside what the property states, but above TOL_NODE)
        t = 1e-10 * (1.0 + 10.0 ** rng.uniform(-6, 2))
        ph = rng.uniform(0, 2 * np.pi)
        a = _unit(np.array([t * np.cos(ph), t * np.sin(ph), 1.0 if rng.random() < 0.5 else -1.0]))
        ctx.hit('axis just above the no-rotation tilt of 1e-10')
    elif cls in ('xy-plane', 'xy-plane-up'):
        # a normalised in-plane vector; 'up': one whose float64 sqrt(ax^2 + ay^2) rounds above 1
        # (0.7 % of normalised vectors) - still a unit axis to rounding
        for _ in range(5000):
            v = rng.normal(size=2)
            a = np.array([*(v / np.linalg.norm(v)), 0.0])
            if cls == 'xy-plane' or np.sqrt(a[0] * a[0] + a[1] * a[1]) > 1.0:
                break
        if np.sqrt(a[0] * a[0] + a[1] * a[1]) > 1.0:
            ctx.hit('axis in the xy-plane, float64 norm rounds above 1')
        ctx.hit('axis in the xy-plane at a generic angle')
    elif cls in ('equator+', 'equator-'):
        t = 10.0 ** rng.uniform(-9, -4) * (1 if cls == 'equator+' else -1)
        ph = rng.uniform(0, 2 * np.pi)
        a = _unit(np.array([np.cos(ph), np.sin(ph), t]))
    else:
        a = _sphere(rng)
        if cls == 'z<0':
            a[2] = -abs(a[2])
        elif cls == 'z>0':
            a[2] = abs(a[2])
    if cls in FORCED_AXIS:
        ctx.hit(FORCED_AXIS[cls])
    if a[2] < 0:
        ctx.hit('axis z<0')
    return a


def gen_solid(rng, ctx, i, same_unit=True):
    cls = AXIS_CLASSES[i % len(AXIS_CLASSES)] if i < 2 * len(AXIS_CLASSES) else AXIS_CLASSES[
        rng.integers(0, len(AXIS_CLASSES))]
    a = gen_axis(rng, cls, ctx)
    k = rng.integers(0, 6)
    if k == 0:
        b = np.zeros(3)
    elif k == 1:
        b = rng.choice([-1e3, 1e3], size=3)
        ctx.hit('base at +-1e3')
    else:
        b = rng.choice([-1.0, 1.0], size=3) * 10.0 ** rng.uniform(-3, 3, size=3)
    r, h = 10.0 ** rng.uniform(-3, 3, size=2)
    kk = rng.integers(0, 12)
    if kk == 0:
        r, h = 1e-3, 1e3
    elif kk == 1:
        r, h = 1e3, 1e-3
    elif kk == 2:
        r = h = 1.0
    U = LEN_UNITS[rng.integers(0, 3)]
    rU = U if same_unit or rng.random() < 0.6 else LEN_UNITS[rng.integers(0, 3)]
    return {'axis_cls': cls, 'axis': a, 'base': b, 'r': float(r), 'h': float(h), 'U': U, 'rU': rU}


def make_cylinder(Cylinder, s):
    return Cylinder(sc.vector(s['axis']), sc.vector(s['base'], unit=s['U']),
                    sc.scalar(s['r'], unit=s['rU']), sc.scalar(s['h'], unit=s['U']))


ORIGINS = ('inside', 'outside_near', 'outside_far', 'lateral', 'cap', 'edge', 'inside', 'outside_near',
           'base_point', 'centre', 'lateral', 'cap')
DIRS = ('random', 'parallel', 'antiparallel', 'near_parallel', 'tangent', 'edge', 'in_cap_plane',
        'toward_axis', 'coord', 'parallel_threshold', 'parallel_to_rounding', 'tangent', 'edge')


def _axis_to_rounding(rng, a):
    """The axis direction as another computation would round it: a few ulps off."""
    n = a.copy()
    for k in range(3):
        j = int(rng.integers(-2, 3))
        for _ in range(abs(j)):
            n[k] = np.nextafter(n[k], np.inf if j > 0 else -np.inf)
    if np.all(n == a):
        k = int(np.argmax(np.abs(a)))
        n[k] = np.nextafter(n[k], 0.0)
    return n


def gen_rays(rng, s, n_rays, ctx):
    """Rays in classes; generation uses a float64 copy of a frame (not an expected value)."""
    a = s['axis']
    fr = [np.asarray(e, dtype=np.float64) for e in cyl.frame(a)]
    e1, e2 = fr[0], fr[1]
    b, r, h = s['base'], s['r'], s['h']
    P, N, classes = [], [], []
    for i in range(n_rays):
        oc = ORIGINS[(i + i // len(ORIGINS)) % len(ORIGINS)] if i < 40 else ORIGINS[
            rng.integers(0, len(ORIGINS))]
        dc = DIRS[i % len(DIRS)] if i < 40 else DIRS[rng.integers(0, len(DIRS))]
        ph = rng.uniform(0, 2 * np.pi)
        rad = np.cos(ph) * e1 + np.sin(ph) * e2
        if oc == 'inside':
            rho, z = r * np.sqrt(rng.random()) * 0.999, h * rng.uniform(0.001, 0.999)
        elif oc == 'outside_near':
            rho, z = r * rng.uniform(0, 3), h * rng.uniform(-2, 3)
            if rho <= r and 0 <= z <= h:
                rho = r * rng.uniform(1.01, 3)
        elif oc == 'outside_far':
            f = 10.0 ** rng.uniform(1, 3)
            rho, z = (r + h) * f * rng.random(), (r + h) * f * rng.uniform(-1, 1)
            if rho <= r and 0 <= z <= h:
                z = h + (r + h) * f
        elif oc == 'lateral':
            rho, z = r, h * rng.random()
        elif oc == 'cap':
            rho, z = r * np.sqrt(rng.random()), (0.0 if rng.random() < 0.5 else h)
        elif oc == 'edge':
            rho, z = r, (0.0 if rng.random() < 0.5 else h)
        elif oc == 'base_point':
            rho, z = 0.0, 0.0
        else:  # centre
            rho, z = 0.0, h / 2
        p = b + rho * rad + z * a
        q = p - b
        # directions
        if dc == 'random':
            n = _sphere(rng)
        elif dc == 'parallel':
            n = a.copy()
        elif dc == 'antiparallel':
            n = -a
        elif dc == 'parallel_to_rounding':
            n = _axis_to_rounding(rng, a) * (1.0 if rng.random() < 0.5 else -1.0)
        elif dc == 'near_parallel':
            t = 10.0 ** rng.uniform(-12, -9)
            ph2 = rng.uniform(0, 2 * np.pi)
            n = _unit((a if rng.random() < 0.5 else -a) + t * (np.cos(ph2) * e1 + np.sin(ph2) * e2))
        elif dc == 'parallel_threshold':
            # both sides of the tilt sqrt(eps) below which the code treats a line as parallel
            t = np.sqrt(EPS) * 10.0 ** rng.uniform(-0.3, 0.7)
            ph2 = rng.uniform(0, 2 * np.pi)
            n = _unit((a if rng.random() < 0.5 else -a) + t * (np.cos(ph2) * e1 + np.sin(ph2) * e2))
        elif dc == 'tangent':
            qp = q - np.dot(q, a) * a
            rho0 = np.linalg.norm(qp)
            if rho0 < r * (1 - 1e-9) or rho0 == 0:
                # no tangent from an interior point: tangent to the cap edge circle seen from p
                n = _unit(b + r * rad + (0.0 if rng.random() < 0.5 else h) * a - p + 1e-300)
                dc = 'edge'
            else:
                inward = -qp / rho0
                az = np.cross(a, inward)
                sin_a = min(1.0, r / rho0)
                cos_a = np.sqrt(max(0.0, 1 - sin_a * sin_a))
                sgn = 1.0 if rng.random() < 0.5 else -1.0
                n2 = cos_a * inward + sgn * sin_a * az
                beta = rng.uniform(-1.2, 1.2)
                n = _unit(np.cos(beta) * n2 + np.sin(beta) * a)
        elif dc == 'edge':
            ph2 = rng.uniform(0, 2 * np.pi)
            tgt = b + r * (np.cos(ph2) * e1 + np.sin(ph2) * e2) + (0.0 if rng.random() < 0.5 else h) * a
            d = tgt - p
            n = _unit(d) if np.linalg.norm(d) > 0 else _sphere(rng)
        elif dc == 'in_cap_plane':
            ph2 = rng.uniform(0, 2 * np.pi)
            n = _unit(np.cos(ph2) * e1 + np.sin(ph2) * e2)
        elif dc == 'toward_axis':
            tgt = b + a * h * rng.random()
            d = tgt - p
            n = _unit(d) if np.linalg.norm(d) > 0 else _sphere(rng)
        else:  # coord
            n = np.zeros(3)
            n[rng.integers(0, 3)] = 1.0 if rng.random() < 0.5 else -1.0
        P.append(p)
        N.append(n)
        classes.append((oc, dc))
        if oc == 'inside':
            ctx.hit('origin inside')
        elif oc.startswith('outside'):
            ctx.hit('origin outside')
        elif oc in ('lateral', 'cap', 'edge'):
            ctx.hit('origin on surface')
        if dc in ('parallel', 'antiparallel'):
            ctx.hit('dir exactly parallel')
        elif dc == 'near_parallel':
            ctx.hit('dir parallel within 1e-9')
        elif dc == 'parallel_to_rounding':
            ctx.hit('dir parallel to rounding')
        elif dc == 'parallel_threshold':
            ctx.hit('dir around the parallel-line tilt sqrt(eps)')
        elif dc == 'tangent':
            ctx.hit('dir tangent')
        elif dc == 'edge':
            ctx.hit('dir through edge')
    return np.array(P), np.array(N), classes


def _decade(x):
    return int(np.floor(np.log10(x)))


def ray_case(rng, st, Cylinder, i):
    ctx = st.ctx
    s = gen_solid(rng, ctx, i, same_unit=True)
    c = make_cylinder(Cylinder, s)
    n_rays = int(rng.integers(40, 61))
    P, N, classes = gen_rays(rng, s, n_rays, ctx)
    shape_cls = ('aligned', 'scalar_start', 'scalar_dir', 'outer')[i % 4]
    U = s['U']
    st.case_descr = {'kind': 'rays', 'axis_class': s['axis_cls'], 'call_shape': shape_cls}
    if shape_cls == 'aligned':
        calls = [(sc.vectors(dims=['ray'], values=P, unit=U), sc.vectors(dims=['ray'], values=N),
                  classes)]
    elif shape_cls == 'scalar_start':
        k = int(rng.integers(0, n_rays))
        calls = [(sc.vector(P[k], unit=U), sc.vectors(dims=['ray'], values=N),
                  [(classes[k][0], d[1]) for d in classes])]
    elif shape_cls == 'scalar_dir':
        k = int(rng.integers(0, n_rays))
        calls = [(sc.vectors(dims=['ray'], values=P, unit=U), sc.vector(N[k]),
                  [(o[0], classes[k][1]) for o in classes])]
    else:
        m = 6
        calls = [(sc.vectors(dims=['quad'], values=P, unit=U),
                  sc.vectors(dims=['det', 'quad'], values=np.stack([np.roll(N, j, axis=0) for j in range(m)])),
                  None)]
    for sp, dr, cl in calls:
        st.ray_classes = cl
        try:
            c.beam_intersection(sp, dr)
        except Exception:  # noqa: BLE001  judged by the monitor through PY_UNWIND
            pass
        st.ray_classes = None
    ctx.case(('rays', U, s['axis_cls'], _decade(s['r'] / s['h']), shape_cls))
    return s


def quad_case(rng, st, Cylinder, i):
    ctx = st.ctx
    s = gen_solid(rng, ctx, i // 3, same_unit=False)
    kind = KINDS[i % 3]
    at_threshold = (i // 3) % 4 == 3
    if at_threshold:
        # the number of axial nodes is round(clip(mult * h/r, lo, hi)) of the RAW values: put h/r
        # on, just below and just above a clamp or a rounding boundary
        mult, lo, hi = NODE_RULE[kind]
        bounds = [lo / mult, hi / mult] + [(int(k) + 0.5) / mult for k in rng.integers(lo, hi, size=2)]
        ratio = bounds[int(rng.integers(0, len(bounds)))] * (1.0 + int(rng.integers(-3, 4)) * EPS)
        s['h'] = float(s['r'] * ratio)
        ctx.hit('quadrature with h/r at a node-count threshold')
    c = make_cylinder(Cylinder, s)
    st.case_descr = {'kind': 'quadrature', 'axis_class': s['axis_cls'],
                     'h_over_r_at_node_count_threshold': bool(at_threshold)}
    try:
        c.quadrature(kind)
    except Exception:  # noqa: BLE001
        pass
    ctx.case(('quadrature', kind, s['U'], s['rU'], s['axis_cls'], _decade(s['r'] / s['h'])))
    return s


def _rotation(rng):
    q, rr = np.linalg.qr(rng.normal(size=(3, 3)))
    q = q * np.sign(np.diag(rr))
    if np.linalg.det(q) < 0:
        q[:, 0] = -q[:, 0]
    return q


XS_UNITS = ('barn', 'mm^2', 'fm^2', 'angstrom^2')
DENS_UNITS = ('1/angstrom^3', '1/mm^3', '1/cm^3', '1/m^3')


def transmission_case(rng, st, mods, i, tier):
    """One pipeline: zero density, two densities, rigidly moved copy, other-end description."""
    ctx = st.ctx
    Cylinder, Material, ScatteringParams, ctm = mods
    s = gen_solid(rng, ctx, i, same_unit=True)
    kind = KINDS[(0, 1, 0, 2, 1, 0)[i % 6]]
    U = s['U']
    fU = float(si.factor(sc.Unit(U)))
    size_m = (s['r'] + s['h']) * fU
    n_lam = int(rng.integers(1, 4))
    lam_A = np.sort(10.0 ** rng.uniform(-1, np.log10(20.0), size=n_lam))
    if i % 5 == 0:
        lam_A[0], lam_A[-1] = 0.1, 20.0
        ctx.hit('wavelength 0.1 and 20 angstrom')
    lam_unit = ('angstrom', 'nm')[int(rng.integers(0, 2))]
    lam = sc.array(dims=['wavelength'], values=lam_A * (1.0 if lam_unit == 'angstrom' else 0.1),
                   unit=lam_unit)
    xs_u = XS_UNITS[int(rng.integers(0, len(XS_UNITS)))]
    fx = float(si.factor(sc.Unit(xs_u)))
    ss_si = 10.0 ** rng.uniform(-1, 1.5) * 1e-28 * (0.0 if rng.random() < 0.15 else 1.0)
    sa_si = 10.0 ** rng.uniform(-1, 2) * 1e-28 * (0.0 if (rng.random() < 0.25 and ss_si > 0) else 1.0)
    tau = 10.0 ** rng.uniform(-3, 0.6)
    # domain: the optical depth tau = mu (r + h) is set at the longest wavelength (largest mu), so
    # that exp(-mu L) stays far from underflow for every wavelength and for the denser copy
    lam_top = float(lam_A[-1]) * 1e-10
    n_si = tau / ((ss_si + sa_si * lam_top / 1.7982e-10) * size_m)
    d_u = DENS_UNITS[int(rng.integers(0, len(DENS_UNITS)))]
    fd = float(si.factor(sc.Unit(d_u)))
    sp = ScatteringParams('Fake', absorption_cross_section=sc.scalar(sa_si / fx, unit=xs_u),
                          total_scattering_cross_section=sc.scalar(ss_si / fx, unit=xs_u))
    factor2 = float(rng.uniform(1.5, 8.0))

    def density(scale):
        return sc.scalar(n_si * scale / fd, unit=d_u)

    # ONE Material and ONE Cylinder object live through the pipeline: their public fields are
    # reassigned between the calls (every monitor judges against the fields current at the call)
    mat_live = Material(sp, density(0.0))
    c_live = make_cylinder(Cylinder, s)

    def assign(obj, **fields):
        try:
            for k, v in fields.items():
                setattr(obj, k, v)
        except Exception:  # noqa: BLE001   (e.g. a frozen dataclass: not a C18 matter)
            ctx.count('state:field_assignment_refused')
            return False
        ctx.hit('field reassigned on a live object')
        return True

    def material(scale, via_params=False):
        if via_params and scale != 1.0:
            sp2 = ScatteringParams(
                'Fake2', absorption_cross_section=sc.scalar(sa_si * scale / fx, unit=xs_u),
                total_scattering_cross_section=sc.scalar(ss_si * scale / fx, unit=xs_u))
            if assign(mat_live, scattering_params=sp2, effective_sample_number_density=density(1.0)):
                return mat_live
            return Material(sp2, density(1.0))
        if assign(mat_live, scattering_params=sp, effective_sample_number_density=density(scale)):
            return mat_live
        return Material(sp, density(scale))

    if i % 4:
        beam, beam_cls = _sphere(rng), 'random'
    elif i % 8:
        beam, beam_cls = s['axis'] * (1.0 if i % 16 == 4 else -1.0), 'along_axis'
        ctx.hit('beam exactly along the axis')
    else:
        beam, beam_cls = _axis_to_rounding(rng, s['axis']), 'along_axis_to_rounding'
        ctx.hit('beam along the axis to rounding')
    n_det = int(rng.integers(1, 7))
    centre = s['base'] + s['axis'] * s['h'] / 2
    dist = (s['r'] + s['h']) * 10.0 ** rng.uniform(0.5, 4, size=n_det)
    dirs = np.array([_sphere(rng) for _ in range(n_det)])
    if n_det >= 3:
        dirs[0], dirs[1] = beam, -beam            # forward and back scattering
        ctx.hit('detector in forward/backward direction')
    dets = centre + dirs * dist[:, None]
    dU = LEN_UNITS[int(rng.integers(0, 3))]
    fdU = float(si.factor(sc.Unit(dU)))
    two_d = n_det in (4, 6) and rng.random() < 0.5

    def det_var(D):
        vals = D * (fU / fdU)
        if two_d:
            return sc.vectors(dims=['row', 'col'], values=vals.reshape(2, -1, 3), unit=dU)
        return sc.vectors(dims=['det'], values=vals, unit=dU)

    st.case_descr = {'kind': 'transmission', 'axis_class': s['axis_cls'], 'quadrature': kind,
                     'optical_depth_target': tau, 'n_det': n_det, 'lam_angstrom': lam_A.tolist(),
                     'beam_class': beam_cls}

    def run(sol, mat, bm, D, label, in_place=False):
        st.maps.clear()
        c = None
        if in_place and assign(c_live, symmetry_line=sc.vector(sol['axis']),
                               center_of_base=sc.vector(sol['base'], unit=sol['U'])):
            c = c_live
            st.case_descr['state'] = f'{label}: fields reassigned on the object of the previous call'
        else:
            st.case_descr.pop('state', None)
        if c is None:
            c = c_live if sol is s else make_cylinder(Cylinder, sol)
        try:
            ctm(c, mat, beam_direction=sc.vector(bm), wavelength=lam, detector_position=det_var(D),
                quadrature_kind=kind)
        except Exception:  # noqa: BLE001
            return None
        ctx.case(('transmission', label, kind, U, sol['axis_cls'], _decade(tau)))
        return st.maps[-1] if st.maps else None

    m0 = run(s, material(0.0), beam, dets, 'zero_density')
    m1 = run(s, material(1.0), beam, dets, 'density')
    m2 = run(s, material(factor2, via_params=bool(i % 2)), beam, dets, 'higher_density')
    # rigid motion of sample, beam and detectors together
    R = _rotation(rng)
    t = rng.choice([-1.0, 1.0], size=3) * 10.0 ** rng.uniform(-3, 3, size=3)
    s_mv = dict(s, axis=_unit(R @ s['axis']), base=R @ s['base'] + t, axis_cls='moved')
    # even i: the motion is applied to the live object, the other end is a fresh one; odd i: reverse
    m3 = run(s_mv, material(1.0), R @ beam, dets @ R.T + t, 'moved', in_place=(i % 2 == 0))
    s_oe = dict(s, axis=-s['axis'], base=s['base'] + s['axis'] * s['h'], axis_cls='other_end')
    m4 = run(s_oe, material(1.0), beam, dets, 'other_end', in_place=(i % 2 == 1))
    del m0
    # monotone in density (observed against observed, undecided if the oracle difference is tiny)
    if m1 is not None and m2 is not None and m1['sub'] is None:
        gap = np.asarray(m1['exp'] - m2['exp'], dtype=np.float64)
        dec = gap > 1e-12
        ctx.count('undecided:density_step_below_rounding', int(np.count_nonzero(~dec)))
        if np.any(dec):
            ctx.event('transmission.monotone')
            bad = dec & ~(m2['T'] < m1['T'])
            if np.any(bad):
                k = int(np.flatnonzero(bad.ravel())[0])
                ctx.violation('transmission_not_decreasing',
                              f'density x{factor2:.3g}: T went {m1["T"].ravel()[k]!r} -> '
                              f'{m2["T"].ravel()[k]!r}',
                              {'monitor': 'density pair', 'case': st.case_descr,
                               'cylinder': m1['geom'].descr()}, **m1['geom'].keys)
    for other, name in ((m3, 'rigid_motion'), (m4, 'other_end')):
        if m1 is None or other is None or m1['sub'] is not None:
            continue
        rel = np.abs(other['T'] - m1['T']) / np.maximum(m1['T'], 1e-300)
        # the accuracy scales are those of moderately absorbing samples: where less than
        # T_FLOOR of the intensity gets through, the relative accuracy of a fixed rule is not
        # bounded by them (reported, not judged)
        judged = m1['T'] >= T_FLOOR
        ctx.count(f'undecided:{name}_strongly_absorbing', int(np.count_nonzero(~judged)))
        if np.any(~judged):
            ctx.dev(f'transmission {name} rel. change where T < {T_FLOOR:g} (reported only) [{kind}]',
                    float(np.max(rel[~judged])))
        if not np.any(judged):
            continue
        worst = float(np.max(rel[judged]))
        ctx.event(f'transmission.{name}')
        ctx.dev(f'transmission {name} rel. change [{kind}]', worst)
        if not worst <= RIGID_SCALE[kind]:
            g1, g2 = m1['geom'], other['geom']
            defect_pose = any(g.keys['axis_z_negative'] and g.keys['rotation_applied'] for g in (g1, g2))
            ctx.violation(f'transmission_{name}',
                          f'{name}: transmission changes by {worst:.3g} relative '
                          f'(> {RIGID_SCALE[kind]:g}, the accuracy scale of {kind})',
                          {'monitor': name, 'case': st.case_descr, 'cylinder': g1.descr(),
                           'moved_cylinder': g2.descr(), 'T': m1['T'].ravel()[:6].tolist(),
                           'T_moved': other['T'].ravel()[:6].tolist()},
                          axis_z_negative=bool(defect_pose), rotation_applied=True,
                          near_axis=bool(m1['near_axis'] or other['near_axis']))
    st.maps.clear()
    return s


# ------------------------------------------------------- object-state workload ---
CYL_FIELDS = ('height', 'center_of_base', 'symmetry_line', 'radius')
STATE_EXTRA = ('inplace', 'replace', 'copy', 'deepcopy', 'rigid', 'units')


def solid_of(c):
    """The generator's view of a live object: read from its current public fields (used only to
    aim rays at interesting places; expectations come from Geom(c) inside the monitors)."""
    U, rU = str(c.center_of_base.unit), str(c.radius.unit)
    return {'axis_cls': 'live', 'axis': np.array(c.symmetry_line.value, dtype=np.float64),
            'base': np.array(c.center_of_base.value, dtype=np.float64),
            'r': float(c.radius.value) * float(_ratio(c.radius.unit, c.center_of_base.unit)),
            'h': float(c.height.value) * float(_ratio(c.height.unit, c.center_of_base.unit)),
            'U': U, 'rU': rU}


def _new_field_value(rng, ctx, c, field, j):
    """A new value for one public field of the live cylinder ``c``."""
    U = c.center_of_base.unit
    if field == 'height':
        f = (0.2, 3.0, 0.5, 7.0)[j % 4] * rng.uniform(0.8, 1.25)
        return sc.scalar(float(c.height.value) * f, unit=c.height.unit)
    if field == 'radius':
        f = (2.5, 0.3, 1.7, 0.6)[j % 4] * rng.uniform(0.8, 1.25)
        if c.radius.unit != U:
            rU = LEN_UNITS[int(rng.integers(0, 3))]
            return sc.scalar(float(c.radius.value) * f * float(_ratio(c.radius.unit, sc.Unit(rU))),
                             unit=rU)
        return sc.scalar(float(c.radius.value) * f, unit=c.radius.unit)
    if field == 'center_of_base':
        size = float(c.height.value) + float(c.radius.value) * float(_ratio(c.radius.unit, U))
        shift = _sphere(rng) * size * 10.0 ** rng.uniform(-1, 2)
        return sc.vector(np.array(c.center_of_base.value) + shift, unit=U)
    cls = AXIS_CLASSES[int(rng.integers(0, len(AXIS_CLASSES)))]
    return sc.vector(gen_axis(rng, cls, ctx))


def state_case(rng, st, mods, i):
    """One Cylinder object (and its copies) lives through a sequence of field updates; after
    every step every public method is called and judged against the fields current then."""
    import copy
    import dataclasses
    ctx = st.ctx
    Cylinder, Material, ScatteringParams, ctm = mods
    s0 = gen_solid(rng, ctx, int(rng.integers(0, 10 ** 6)) + 2 * len(AXIS_CLASSES), same_unit=i % 4 != 3)
    # moderate aspect ratios: the interest here is the state, not the conditioning
    s0['h'] = float(s0['r'] * float(_ratio(sc.Unit(s0['rU']), sc.Unit(s0['U']))) * 10.0 ** rng.uniform(-1, 1))
    c = make_cylinder(Cylinder, s0)
    sp = ScatteringParams('Fake', absorption_cross_section=sc.scalar(4.0, unit='barn'),
                          total_scattering_cross_section=sc.scalar(6.0, unit='barn'))
    mat = Material(sp, sc.scalar(0.0, unit='1/angstrom^3'))
    lam = sc.array(dims=['wavelength'], values=[0.7, 3.1], unit='angstrom')
    step = [0]
    history = []

    def exercise(obj, label):
        history.append(label)
        st.case_descr = {'kind': 'state', 'history': list(history), 'judged_object': label}
        sol = solid_of(obj)
        kind = KINDS[(i + step[0]) % 3]
        step[0] += 1
        # beam_intersection (and with it the pipeline) needs the radius in the unit of the base
        # point (scipp refuses mixed units there): such objects get quadrature/volume/center only
        mixed = obj.radius.unit != obj.center_of_base.unit
        if mixed:
            ctx.count('state:radius_in_other_unit_quadrature_only')
        else:
            P, N, classes = gen_rays(rng, sol, 14, ctx)
            st.ray_classes = classes
            try:
                obj.beam_intersection(sc.vectors(dims=['ray'], values=P, unit=sol['U']),
                                      sc.vectors(dims=['ray'], values=N))
            except Exception:  # noqa: BLE001  judged by the monitor
                pass
            st.ray_classes = None
        try:
            obj.quadrature(kind)
        except Exception:  # noqa: BLE001
            pass
        judge_props(st, obj, label)
        if step[0] % 2 and not mixed:
            # the whole pipeline on the live objects; density set for an optical depth ~ 1
            size_m = (sol['r'] + sol['h']) * float(si.factor(sc.Unit(sol['U'])))
            try:
                mat.effective_sample_number_density = sc.scalar(
                    1.0 / (1.6e-27 * size_m) * 1e-30 * rng.uniform(0.3, 2.0), unit='1/angstrom^3')
            except Exception:  # noqa: BLE001
                ctx.count('state:field_assignment_refused')
            centre = sol['base'] + sol['axis'] * sol['h'] / 2
            D = centre + np.array([_sphere(rng) for _ in range(3)]) * (sol['r'] + sol['h']) * 30.0
            st.maps.clear()
            try:
                ctm(obj, mat, beam_direction=sc.vector(_sphere(rng)), wavelength=lam,
                    detector_position=sc.vectors(dims=['det'], values=D, unit=sol['U']),
                    quadrature_kind=KINDS[step[0] % 2])
            except Exception:  # noqa: BLE001
                pass
            st.maps.clear()
        ctx.event('state.exercised')
        ctx.case(('state', label.split(':')[0], kind, sol['U'], sol['rU']))

    def assign(obj, field, value):
        try:
            setattr(obj, field, value)
        except Exception:  # noqa: BLE001   (a frozen dataclass is not a C18 matter)
            ctx.count('state:field_assignment_refused')
            return False
        ctx.hit(f'live Cylinder: {field} reassigned')
        return True

    exercise(c, 'fresh')
    # (1) every public field reassigned in turn on the same object
    for j in range(4):
        field = CYL_FIELDS[(i + j) % 4]
        if assign(c, field, _new_field_value(rng, ctx, c, field, i + j)):
            exercise(c, f'assign {field}')
    # (2) the other ways a live object changes or is derived
    for extra in (STATE_EXTRA[i % len(STATE_EXTRA)], STATE_EXTRA[(i + 3) % len(STATE_EXTRA)]):
        field = CYL_FIELDS[int(rng.integers(0, 4))]
        try:
            if extra == 'inplace':
                # the Variable held by the object is modified in place (no attribute assignment)
                if field == 'height':
                    c.height *= float(rng.uniform(1.5, 4.0))
                elif field == 'radius':
                    c.radius.value = float(c.radius.value) * float(rng.uniform(0.2, 0.7))
                elif field == 'center_of_base':
                    c.center_of_base += sc.vector(_sphere(rng) * float(c.height.value) * 3.0,
                                                  unit=c.center_of_base.unit)
                else:
                    c.symmetry_line.value = _sphere(rng)
                ctx.hit('live Cylinder: field Variable modified in place')
                exercise(c, f'inplace {field}')
            elif extra == 'replace':
                c2 = dataclasses.replace(c, **{field: _new_field_value(rng, ctx, c, field, i)})
                ctx.hit('Cylinder from dataclasses.replace')
                exercise(c2, f'replace {field}')
                exercise(c, 'original after replace')
            elif extra in ('copy', 'deepcopy'):
                c2 = copy.copy(c) if extra == 'copy' else copy.deepcopy(c)
                ctx.hit('Cylinder from copy / deepcopy')
                exercise(c2, f'{extra}')
                if assign(c2, field, _new_field_value(rng, ctx, c2, field, i + 1)):
                    exercise(c2, f'{extra} then assign {field}')
                    exercise(c, f'original after {extra}')
            elif extra == 'rigid':
                R = _rotation(rng)
                t = _sphere(rng) * float(c.height.value) * 10.0 ** rng.uniform(0, 2)
                new_axis = _unit(R @ np.array(c.symmetry_line.value))
                new_base = R @ np.array(c.center_of_base.value) + t
                if assign(c, 'symmetry_line', sc.vector(new_axis)) and assign(
                        c, 'center_of_base', sc.vector(new_base, unit=c.center_of_base.unit)):
                    exercise(c, 'rigid motion by assignment')
            else:  # units: the same solid described in another length unit
                U2 = LEN_UNITS[(LEN_UNITS.index(str(c.center_of_base.unit)) + 1 + i % 2) % 3]
                if assign(c, 'center_of_base', c.center_of_base.to(unit=U2)) and assign(
                        c, 'height', c.height.to(unit=U2)) and assign(c, 'radius', c.radius.to(unit=U2)):
                    exercise(c, f'units to {U2}')
        except Exception:  # noqa: BLE001   the harness' own manipulation failed
            ctx.oracle_error(f'C18 state manipulation {extra}')
    st.case_descr = None
    return solid_of(c)


def material_state_case(rng, st, mods, i):
    """One Material object: both public fields reassigned / modified / copied between calls of
    attenuation_coefficient; judge_mu reads the fields current at each call."""
    import copy
    import dataclasses
    ctx = st.ctx
    _, Material, ScatteringParams, _ = mods

    def params():
        xs_u = XS_UNITS[int(rng.integers(0, len(XS_UNITS)))]
        fx = float(si.factor(sc.Unit(xs_u)))
        return ScatteringParams(
            'Fake', absorption_cross_section=sc.scalar(10.0 ** rng.uniform(-1, 2) * 1e-28 / fx, unit=xs_u),
            total_scattering_cross_section=sc.scalar(10.0 ** rng.uniform(-1, 1.5) * 1e-28 / fx, unit=xs_u))

    def dens():
        d_u = DENS_UNITS[int(rng.integers(0, len(DENS_UNITS)))]
        return sc.scalar(10.0 ** rng.uniform(27, 29.5) / float(si.factor(sc.Unit(d_u))), unit=d_u)

    def call(m, label):
        n = int(rng.integers(1, 4))
        unit = ('angstrom', 'nm', 'm')[int(rng.integers(0, 3))]
        lam_A = 10.0 ** rng.uniform(-1, np.log10(20.0), size=n)
        lam = sc.array(dims=['wavelength'],
                       values=lam_A * {'angstrom': 1.0, 'nm': 0.1, 'm': 1e-10}[unit], unit=unit)
        st.case_descr = {'kind': 'material_state', 'step': label}
        try:
            m.attenuation_coefficient(lam)
        except Exception:  # noqa: BLE001  judged by the monitor
            pass
        ctx.case(('material_state', label, unit))

    m = Material(params(), dens())
    call(m, 'fresh')
    try:
        m.effective_sample_number_density = dens()
        ctx.hit('live Material: field reassigned')
        call(m, 'assign density')
        m.scattering_params = params()
        call(m, 'assign scattering_params')
        m.effective_sample_number_density *= 2.5
        call(m, 'inplace density')
    except Exception:  # noqa: BLE001
        ctx.count('state:field_assignment_refused')
    try:
        m2 = dataclasses.replace(m, effective_sample_number_density=dens())
        call(m2, 'replace density')
        m3 = copy.copy(m) if i % 2 else copy.deepcopy(m)
        m3.scattering_params = params()
        call(m3, 'copy then assign scattering_params')
        call(m, 'original after copy')
    except Exception:  # noqa: BLE001
        ctx.oracle_error('C18 material state manipulation')
    st.case_descr = None


# ------------------------------------------------------- operand-layout workload ---
# every relation the dims of (start_point, direction) can have: the result is the table over the
# broadcast by label, one geometric path length per (start, direction) pair
LAYOUTS = (
    'both scalar', 'start array, direction scalar', 'start scalar, direction array',
    'paired over one dim', 'paired over one dim, length 1',
    'outer product, equal lengths', 'outer product, more starts', 'outer product, more directions',
    'outer product with a length-1 dim',
    '2-d start, 1-d direction over its first dim', '2-d start, 1-d direction over its second dim',
    '2-d start, 1-d direction over a third dim',
    '1-d start over its first dim, 2-d direction', '1-d start over its second dim, 2-d direction',
    '1-d start over a third dim, 2-d direction',
    '2-d paired, same dim order', '2-d paired, opposite dim order (square)',
    '2-d paired, opposite dim order (non-square)',
    'start is a transposed view', 'direction is a transposed view',
    '2-d x 2-d sharing one dim', '2-d x 2-d over four dims',
    'operands are strided slices', 'operands are slices of a 2-d array along different dims',
    'empty operands', 'empty outer product',
    'conflicting extents of a shared dim',
)
DIM_NAMES = (('ray', 'pix'), ('start', 'direction'), ('y', 'x'), ('quad', 'det'), ('b', 'a'),
             ('row', 'col'))


def layout_case(rng, st, Cylinder, i):
    """One solid, one pool of rays in the forced classes; beam_intersection called once per
    operand layout.  The monitor judges every entry of every table against the oracle for ITS
    (start, direction) pair and the dims of the table against the broadcast of the operands."""
    ctx = st.ctx
    s = gen_solid(rng, ctx, i, same_unit=True)
    c = make_cylinder(Cylinder, s)
    U = s['U']
    P, N, _ = gen_rays(rng, s, 48, ctx)
    # half of the start points inside the solid, so that most pairs of a table have a path > 0
    fr = [np.asarray(e, dtype=np.float64) for e in cyl.frame(s['axis'])]
    for k in range(0, len(P), 2):
        ph = rng.uniform(0, 2 * np.pi)
        P[k] = (s['base'] + s['r'] * np.sqrt(rng.random()) * 0.999 * (np.cos(ph) * fr[0] + np.sin(ph) * fr[1])
                + s['h'] * rng.uniform(0.001, 0.999) * s['axis'])
    d1, d2 = DIM_NAMES[i % len(DIM_NAMES)]
    if (i // len(DIM_NAMES)) % 2:
        d1, d2 = d2, d1
    d3, d4 = 'k', 'm'
    na, nb = (3, 5) if i % 2 else (6, 4)          # extents of d1, d2
    nc = 2
    pos = [0]

    def take(n):
        """The next n rays of the pool (cyclic)."""
        idx = (pos[0] + np.arange(n)) % len(P)
        pos[0] += n
        return idx

    def S(dims, shape):
        idx = take(int(np.prod(shape, dtype=int)))
        return sc.vectors(dims=list(dims), values=P[idx].reshape(*shape, 3), unit=U)

    def D(dims, shape):
        idx = take(int(np.prod(shape, dtype=int)))
        return sc.vectors(dims=list(dims), values=N[idx].reshape(*shape, 3))

    def build(name):
        if name == 'both scalar':
            k = int(take(1)[0])
            return sc.vector(P[k], unit=U), sc.vector(N[(k + 1) % len(N)])
        if name == 'start array, direction scalar':
            return S([d1], [na]), sc.vector(N[int(take(1)[0])])
        if name == 'start scalar, direction array':
            return sc.vector(P[int(take(1)[0]) // 2 * 2], unit=U), D([d2], [nb])
        if name == 'paired over one dim':
            return S([d1], [na + nb]), D([d1], [na + nb])
        if name == 'paired over one dim, length 1':
            return S([d1], [1]), D([d1], [1])
        if name == 'outer product, equal lengths':
            return S([d1], [nb]), D([d2], [nb])
        if name == 'outer product, more starts':
            return S([d1], [max(na, nb) + 2]), D([d2], [min(na, nb)])
        if name == 'outer product, more directions':
            return S([d1], [min(na, nb)]), D([d2], [max(na, nb) + 2])
        if name == 'outer product with a length-1 dim':
            return (S([d1], [1]), D([d2], [nb])) if i % 2 else (S([d1], [na]), D([d2], [1]))
        if name == '2-d start, 1-d direction over its first dim':
            return S([d1, d2], [na, nb]), D([d1], [na])
        if name == '2-d start, 1-d direction over its second dim':
            return S([d1, d2], [na, nb]), D([d2], [nb])
        if name == '2-d start, 1-d direction over a third dim':
            return S([d1, d2], [na, nb]), D([d3], [nc])
        if name == '1-d start over its first dim, 2-d direction':
            return S([d1], [na]), D([d1, d2], [na, nb])
        if name == '1-d start over its second dim, 2-d direction':
            return S([d2], [nb]), D([d1, d2], [na, nb])
        if name == '1-d start over a third dim, 2-d direction':
            return S([d3], [nc]), D([d1, d2], [na, nb])
        if name == '2-d paired, same dim order':
            return S([d1, d2], [na, nb]), D([d1, d2], [na, nb])
        if name == '2-d paired, opposite dim order (square)':
            return S([d1, d2], [nb, nb]), D([d2, d1], [nb, nb])
        if name == '2-d paired, opposite dim order (non-square)':
            return S([d1, d2], [na, nb]), D([d2, d1], [nb, na])
        if name == 'start is a transposed view':
            return S([d2, d1], [nb, na]).transpose([d1, d2]), D([d1, d2], [na, nb])
        if name == 'direction is a transposed view':
            return S([d1, d2], [na, nb]), D([d2, d1], [nb, na]).transpose([d1, d2])
        if name == '2-d x 2-d sharing one dim':
            return S([d1, d2], [na, nb]), D([d2, d3], [nb, nc])
        if name == '2-d x 2-d over four dims':
            return S([d1, d2], [2, 3]), D([d3, d4], [nc, 3])
        if name == 'operands are strided slices':
            return S([d1], [2 * na])[d1, ::2], D([d1], [2 * na])[d1, 1::2]
        if name == 'operands are slices of a 2-d array along different dims':
            return S([d1, d2], [na, nb])[d2, nb // 2], D([d1, d2], [na, nb])[d1, na // 2]
        if name == 'empty operands':
            return S([d1], [0]), D([d1], [0])
        if name == 'empty outer product':
            return (S([d1], [0]), D([d2], [nb])) if i % 2 else (S([d1], [na]), D([d2], [0]))
        if name == 'conflicting extents of a shared dim':
            return S([d1], [na]), D([d1], [na + 1])
        raise KeyError(name)

    for name in LAYOUTS:
        st.case_descr = {'kind': 'operand layout', 'layout': name, 'axis_class': s['axis_cls']}
        try:
            sp, dr = build(name)
        except Exception:  # noqa: BLE001
            ctx.oracle_error(f'C18 layout operands: {name}')
            continue
        st.layout, st.ray_classes = name, None
        try:
            c.beam_intersection(sp, dr)
        except Exception:  # noqa: BLE001  judged by the monitor through PY_UNWIND
            pass
        st.layout = None
        ctx.hit(f'operands: {name}')
        ctx.case(('layout', name, U, s['axis_cls']))
    st.case_descr = None
    return s


def detector_layout_case(rng, st, mods, i):
    """The detector operand of compute_transmission_map in every layout: a flat list, a 2-d
    array, its transposed view, a strided slice, one pixel as a length-1 array and as a 0-d
    vector.  Every map is judged by the map monitor (recomputed from the observed nodes); the maps
    are also compared pixel by pixel with the flat list."""
    ctx = st.ctx
    Cylinder, Material, ScatteringParams, ctm = mods
    s = gen_solid(rng, ctx, int(rng.integers(0, 10 ** 6)) + 2 * len(AXIS_CLASSES), same_unit=True)
    s['h'] = float(s['r'] * 10.0 ** rng.uniform(-1, 1))
    c = make_cylinder(Cylinder, s)
    U = s['U']
    size_m = (s['r'] + s['h']) * float(si.factor(sc.Unit(U)))
    lam = sc.array(dims=['wavelength'], values=np.sort(10.0 ** rng.uniform(-1, 1.3, size=2)), unit='angstrom')
    sp = ScatteringParams('Fake', absorption_cross_section=sc.scalar(4.0, unit='barn'),
                          total_scattering_cross_section=sc.scalar(6.0, unit='barn'))
    tau = float(rng.uniform(0.3, 2.0))
    mat = Material(sp, sc.scalar(tau / (1.6e-27 * size_m) * 1e-30, unit='1/angstrom^3'))
    beam = _sphere(rng)
    kind = KINDS[i % 2]
    rows, cols = (2, 3) if i % 2 else (3, 2)
    n = rows * cols
    centre = s['base'] + s['axis'] * s['h'] / 2
    dirs = np.array([_sphere(rng) for _ in range(n)])
    Dv = centre + dirs * ((s['r'] + s['h']) * 10.0 ** rng.uniform(0.5, 3, size=n))[:, None]
    flat = sc.vectors(dims=['det'], values=Dv, unit=U)
    grid = sc.vectors(dims=['row', 'col'], values=Dv.reshape(rows, cols, 3), unit=U)
    k0 = int(rng.integers(0, n))
    layouts = (
        ('flat list', flat, np.arange(n)),
        ('2-d array', grid, np.arange(n)),
        ('transposed view of a 2-d array', grid.transpose(['col', 'row']),
         np.arange(n).reshape(rows, cols).T.ravel()),
        ('strided slice', flat['det', ::2], np.arange(n)[::2]),
        ('one pixel, length-1 array', flat['det', k0:k0 + 1], np.array([k0])),
        ('one pixel, 0-d vector', flat['det', k0], np.array([k0])),
    )
    ref = None
    for name, det, idx in layouts:
        st.case_descr = {'kind': 'detector layout', 'layout': name, 'quadrature': kind,
                         'axis_class': s['axis_cls']}
        st.maps.clear()
        try:
            ctm(c, mat, beam_direction=sc.vector(beam), wavelength=lam, detector_position=det,
                quadrature_kind=kind)
        except Exception:  # noqa: BLE001  judged by the map monitor
            pass
        ctx.hit(f'detectors: {name}')
        ctx.case(('detector layout', name, kind, U))
        m = st.maps[-1] if st.maps else None
        if m is None or m['sub'] is not None:
            ctx.count('detector_layout:not_compared')
            continue
        if ref is None:
            ref = m['T']
            continue
        T = m['T']
        d = float(np.max(np.abs(T - ref[idx]))) if T.shape == ref[idx].shape else float('inf')
        ctx.event('transmission.detector_layout')
        ctx.dev('detector layouts: same pixel, |T - T(flat list)|', d)
        if not d <= 1e-12:
            ctx.violation('transmission_detector_layout',
                          f'{name}: the same pixels and wavelengths differ from the flat list by {d:.3g}',
                          {'monitor': 'detector layouts', 'case': st.case_descr,
                           'cylinder': m['geom'].descr(), 'T': T.ravel()[:6].tolist(),
                           'T_flat_list': ref[idx].ravel()[:6].tolist()}, layout=name)
    st.maps.clear()
    st.case_descr = None
    return s


# ---------------------------------------------------------- mixed-unit workload ---
def units_case(rng, st, mods, i):
    """The same solid described with radius, height, base (and the start points) in every
    combination of the length units; every method called on every description.  What the code
    answers is judged in the unit of the base point against the fields as given; a UnitError for
    a mixture is a refusal (counted per method)."""
    ctx = st.ctx
    Cylinder, Material, ScatteringParams, ctm = mods
    s = gen_solid(rng, ctx, int(rng.integers(0, 10 ** 6)) + 2 * len(AXIS_CLASSES), same_unit=True)
    s['h'] = float(s['r'] * 10.0 ** rng.uniform(-1, 1))
    U = LEN_UNITS[i % 3]
    s['U'] = s['rU'] = U
    sp_ = ScatteringParams('Fake', absorption_cross_section=sc.scalar(4.0, unit='barn'),
                           total_scattering_cross_section=sc.scalar(6.0, unit='barn'))
    size_m = (s['r'] + s['h']) * float(si.factor(sc.Unit(U)))
    mat = Material(sp_, sc.scalar(float(rng.uniform(0.3, 2.0)) / (1.6e-27 * size_m) * 1e-30,
                                  unit='1/angstrom^3'))
    lam = sc.array(dims=['wavelength'], values=[0.9, 4.2], unit='angstrom')
    P, N, classes = gen_rays(rng, s, 14, ctx)
    centre = s['base'] + s['axis'] * s['h'] / 2
    Dv = centre + np.array([_sphere(rng) for _ in range(2)]) * (s['r'] + s['h']) * 30.0
    beam = _sphere(rng)
    step = 0
    for rU in LEN_UNITS:
        for hU in LEN_UNITS:
            for sU in LEN_UNITS:
                rel = (('radius ' + ('as base' if rU == U else 'other')),
                       ('height ' + ('as base' if hU == U else 'other' if hU != rU else 'as radius')),
                       ('start ' + ('as base' if sU == U else 'other')))
                label = ', '.join(rel)
                c = Cylinder(sc.vector(s['axis']), sc.vector(s['base'], unit=U),
                             sc.scalar(s['r'] * float(_ratio(sc.Unit(U), sc.Unit(rU))), unit=rU),
                             sc.scalar(s['h'] * float(_ratio(sc.Unit(U), sc.Unit(hU))), unit=hU))
                st.case_descr = {'kind': 'length units', 'units': {'base': U, 'radius': rU, 'height': hU,
                                                                  'start_point / detectors': sU}}
                f = float(_ratio(sc.Unit(U), sc.Unit(sU)))
                st.ray_classes = classes
                try:
                    c.beam_intersection(sc.vectors(dims=['ray'], values=P * f, unit=sU),
                                        sc.vectors(dims=['ray'], values=N))
                except Exception:  # noqa: BLE001  judged by the monitor
                    pass
                st.ray_classes = None
                if sU == U or step % 3 == 0:
                    kind = KINDS[step % 3]
                    try:
                        c.quadrature(kind)
                    except Exception:  # noqa: BLE001
                        pass
                    judge_props(st, c, 'units ' + label)
                    st.maps.clear()
                    try:
                        ctm(c, mat, beam_direction=sc.vector(beam), wavelength=lam,
                            detector_position=sc.vectors(dims=['det'], values=Dv * f, unit=sU),
                            quadrature_kind='cheap')
                    except Exception:  # noqa: BLE001
                        pass
                    st.maps.clear()
                step += 1
                ctx.hit('length units: ' + label)
                ctx.event('units.exercised')
                ctx.case(('units', U, rU, hU, sU))
    st.case_descr = None
    return s


UNIT_CLASSES = tuple(
    'length units: ' + ', '.join((r, h, s_))
    for r in ('radius as base', 'radius other')
    for h in ('height as base', 'height other', 'height as radius')
    for s_ in ('start as base', 'start other')
    if not (r == 'radius as base' and h == 'height as radius'))


# ------------------------------------------------------------------ heavy case ---
def heavy_case(rng, st, mods, tier):
    """The size threshold of _integrate_transmission_fraction crossed from both sides with
    >= 2 wavelengths and many detectors: (A) a flat pixel list just above it, (B) the same pixels
    as a 2-d array above it, (C) the flat list just below it (vectorised at once); all compared
    elementwise with each other and with a small vectorised evaluation of a subset of the same
    pixels.  Which branch ran is observed (nested frames), not assumed."""
    ctx = st.ctx
    Cylinder, Material, ScatteringParams, ctm = mods
    a = _sphere(rng)
    r = float(10.0 ** rng.uniform(-0.5, 0.5))
    h = r * float(rng.uniform(3.3, 6.0))          # > 35/11: the largest deterministic rule
    U = LEN_UNITS[int(rng.integers(0, 3))]
    s = {'axis_cls': 'sphere', 'axis': a, 'base': rng.uniform(-3, 3, size=3) * (r + h), 'r': r, 'h': h,
         'U': U, 'rU': U}
    c = make_cylinder(Cylinder, s)
    size_m = (r + h) * float(si.factor(sc.Unit(U)))
    n_lam = 3
    lam_A = np.sort(10.0 ** rng.uniform(-0.5, 1.0, size=n_lam))
    lam = sc.array(dims=['wavelength'], values=lam_A, unit='angstrom')
    sp = ScatteringParams('Fake', absorption_cross_section=sc.scalar(3.0, unit='barn'),
                          total_scattering_cross_section=sc.scalar(5.0, unit='barn'))
    tau = float(rng.uniform(0.5, 2.0))
    n_si = tau / ((5.0 + 3.0 * lam_A[-1] / 1.7982) * 1e-28 * size_m)
    mat = Material(sp, sc.scalar(n_si * 1e-30, unit='1/angstrom^3'))
    beam = _sphere(rng)
    st.case_descr = {'kind': 'transmission_heavy', 'lam_angstrom': lam_A.tolist()}
    st.big, st.big_counter = True, 0
    try:
        try:
            n_nodes = int(c.quadrature('expensive')[0].sizes['quad'])
        except Exception:  # noqa: BLE001  judged by the quadrature monitor
            return
        n_above = LOOP_LIMIT // n_nodes + 1
        n_below = LOOP_LIMIT // n_nodes
        rows = 2 + int(rng.integers(0, 3))
        cols = -(-n_above // rows)
        n_ext = rows * cols
        dirs = rng.normal(size=(n_ext, 3))
        dirs /= np.linalg.norm(dirs, axis=1)[:, None]
        centre = s['base'] + a * h / 2
        D = centre + dirs * ((r + h) * 10.0 ** rng.uniform(0.7, 3, size=n_ext))[:, None]
        st.case_descr.update(nodes=n_nodes, n_above=n_above, n_below=n_below, rows_cols=[rows, cols])

        def evaluate(det, label, want_loop):
            st.maps.clear()
            before = st.loop_calls
            try:
                res = ctm(c, mat, beam_direction=sc.vector(beam), wavelength=lam,
                          detector_position=det, quadrature_kind='expensive')
            except Exception:  # noqa: BLE001  judged by the map monitor (transmission_raised)
                return None
            looped = st.loop_calls > before
            if looped:
                ctx.hit(f'per-detector loop branch observed ({label})')
            elif want_loop is False:
                ctx.hit(f'vectorised branch observed ({label})')
            if want_loop is not None and looped != want_loop:
                ctx.count(f'heavy:branch_not_as_planned:{label}')
            ctx.case(('transmission', 'heavy', label, U, looped))
            try:
                dd = list(det.dims)
                return np.asarray(res.data.transpose([*dd, lam.dim]).values,
                                  dtype=np.float64).reshape(-1, n_lam)
            except Exception:  # noqa: BLE001  wrong dims: judged by the map monitor
                return None

        def flat(idx):
            return sc.vectors(dims=['det'], values=D[idx], unit=U)

        def compare(x, y, label, **info):
            if x is None or y is None:
                ctx.count(f'heavy:not_compared:{label}')
                return
            d = float(np.max(np.abs(x - y))) if x.shape == y.shape else float('inf')
            ctx.event('transmission.loop_vs_vectorised')
            ctx.dev(f'heavy case: {label}', d)
            if not d <= 1e-12:
                k = np.unravel_index(int(np.argmax(np.abs(x - y))), x.shape) if x.shape == y.shape else (0, 0)
                ctx.violation('transmission_loop_branch',
                              f'{label}: the same pixels and wavelengths differ by {d:.3g} '
                              f'(pixel {int(k[0])}, wavelength {int(k[1])}: '
                              f'{float(x[k]) if x.shape == y.shape else None!r} vs '
                              f'{float(y[k]) if x.shape == y.shape else None!r})',
                              {'monitor': 'loop vs vectorised', 'case': dict(st.case_descr, **info),
                               'cylinder': Geom(c).descr()}, comparison=label.split(':')[0])

        A = evaluate(flat(slice(0, n_above)), 'flat list above the threshold', True)
        sub = np.unique(np.concatenate([[0, 1, n_above - 2, n_above - 1],
                                        rng.choice(n_above, size=44, replace=False)]))
        S = evaluate(flat(sub), 'small subset', False)
        compare(None if A is None else A[sub], S, 'looped flat list vs small vectorised call')
        B = evaluate(sc.vectors(dims=['row', 'col'], values=D.reshape(rows, cols, 3), unit=U),
                     '2-d array above the threshold', True)
        compare(None if B is None else B[:n_above], A, '2-d array (loop over rows) vs flat list (loop over pixels)')
        compare(None if B is None else B[sub], S, '2-d array (loop over rows) vs small vectorised call')
        C = evaluate(flat(slice(0, n_below)), 'flat list just below the threshold', False)
        compare(None if A is None else A[:n_below], C, 'looped flat list vs vectorised list one pixel shorter')
        if tier == 'thorough':
            # rows that are themselves above the threshold (loop inside loop), many thin rows
            n2 = 2 * n_above
            d2 = rng.normal(size=(n2, 3))
            d2 /= np.linalg.norm(d2, axis=1)[:, None]
            D2 = centre + d2 * (r + h) * 50.0
            N = evaluate(sc.vectors(dims=['row', 'col'], values=D2.reshape(2, n_above, 3), unit=U),
                         '2-d array with rows above the threshold', True)
            sub2 = np.unique(np.concatenate([[0, n_above - 1, n_above, n2 - 1],
                                             rng.choice(n2, size=44, replace=False)]))
            S2 = evaluate(sc.vectors(dims=['det'], values=D2[sub2], unit=U), 'small subset 2', False)
            compare(None if N is None else N[sub2], S2, 'nested loop vs small vectorised call')
            thin_rows = -(-n_above // 3)
            D3 = D2[:thin_rows * 3]
            T3 = evaluate(sc.vectors(dims=['row', 'col'], values=D3.reshape(thin_rows, 3, 3), unit=U),
                          '2-d array of many thin rows', True)
            compare(T3, None if N is None else N[:thin_rows * 3], 'thin rows vs nested loop')
    finally:
        st.big = False
        st.maps.clear()
        st.case_descr = None


# ------------------------------------------------- stand-ins (polymorphic use) ---
# compute_transmission_map documents sample_shape as a SampleShape (an abstract base class with
# beam_intersection / volume / quadrature) and takes the attenuation from
# sample_material.attenuation_coefficient(wavelength): the map is the weighted sum over the nodes
# THAT shape hands out of exp(-mu (L_in + L_out)) with the mu THAT material answers, whatever class
# the two objects have.  The stand-ins below are harness-owned; each declares its law / its solid so
# that the monitors can recompute the map without calling the stand-in.
class Law:
    """mu(lambda) = sum over terms of coef [1/m] * (lambda / angstrom)^p on lo <= lambda/angstrom < hi."""

    def __init__(self, name, terms):
        self.name = name
        self.terms = [(float(c), int(p), float(lo), float(hi)) for c, p, lo, hi in terms]

    def f64(self, lam_angstrom):
        x = np.asarray(lam_angstrom, dtype=np.float64)
        out = np.zeros(x.shape, dtype=np.float64)
        for c, p, lo, hi in self.terms:
            out = out + np.where((x >= lo) & (x < hi), c * x ** p, 0.0)
        return out

    def ld(self, lam_si):
        x = np.asarray(lam_si, dtype=LD) / LD('1e-10')
        out = np.zeros(x.shape, dtype=LD)
        for c, p, lo, hi in self.terms:
            out = out + np.where((x >= LD(lo)) & (x < LD(hi)), LD(c) * x ** p, LD(0))
        return out

    def answer(self, wavelength):
        """What a stand-in returns from attenuation_coefficient: float64 in scipp containers."""
        lam = wavelength.to(unit='angstrom', dtype='float64', copy=False)
        vals = self.f64(np.asarray(lam.values, dtype=np.float64))
        if wavelength.ndim == 0:
            return sc.scalar(float(vals), unit='1/m')
        return sc.array(dims=list(wavelength.dims), values=vals, unit='1/m')

    def expected(self, wavelength, unit_len):
        lam = np.asarray(wavelength.values, dtype=np.float64).reshape(-1).astype(LD) * si.factor(
            wavelength.unit)
        return self.ld(lam) * si.factor(unit_len)


LAWS = ('constant', 'linear in wavelength', 'quadratic in wavelength', 'decreasing with wavelength',
        'edge (drops above a wavelength)', 'non-monotonic (equal at the shortest and the longest wavelength)',
        'zero')
FIELD_PROFILES = ('pure scatterer (absorption exactly 0)', 'pure absorber (scattering exactly 0)',
                  'void (both cross sections 0)', 'generic', 'opaque by its fields')
MATERIAL_STANDINS = ('Material subclass: compound (super() + second constituent)',
                     'Material subclass: own law, fields describe something else',
                     'duck-typed material with the fields of a Material',
                     'duck-typed material with attenuation_coefficient only')
SHAPE_STANDINS = ('SampleShape subclass delegating to a Cylinder (no Cylinder fields)',
                  'Cylinder subclass with a quadrature of its own for its own kind',
                  'Cylinder subclass, standard kind through super()')
_INF_A = 1e300


def make_law(name, mu_top, lam_A):
    """The law ``name`` scaled so that its largest value over the wavelengths is ``mu_top`` [1/m]."""
    lo, hi = float(lam_A[0]), float(lam_A[-1])
    if name == 'constant':
        t = [(mu_top, 0, 0.0, _INF_A)]
    elif name == 'linear in wavelength':
        t = [(mu_top / hi, 1, 0.0, _INF_A)]
    elif name == 'quadratic in wavelength':
        t = [(mu_top / hi ** 2, 2, 0.0, _INF_A)]
    elif name == 'decreasing with wavelength':
        t = [(mu_top * lo, -1, 0.0, _INF_A)]
    elif name == 'edge (drops above a wavelength)':
        edge = float(np.sqrt(lam_A[0] * lam_A[1])) if len(lam_A) > 1 else 2 * hi
        t = [(mu_top, 0, 0.0, edge), (0.2 * mu_top, 0, edge, _INF_A)]
    elif name.startswith('non-monotonic'):
        e1 = float(np.sqrt(lam_A[0] * lam_A[1])) if len(lam_A) > 2 else 2 * hi
        e2 = float(np.sqrt(lam_A[-2] * lam_A[-1])) if len(lam_A) > 2 else 3 * hi
        t = [(0.3 * mu_top, 0, 0.0, e1), (mu_top, 0, e1, e2), (0.3 * mu_top, 0, e2, _INF_A)]
    elif name == 'zero':
        t = []
    else:
        raise KeyError(name)
    return Law(name, t)


def make_standins(mods):
    """The stand-in classes (they need the package's base classes, so they are built at run time)."""
    import types
    from scippneutron.absorption.types import SampleShape
    Cylinder, Material, ScatteringParams, _ = mods

    class Compound(Material):
        """Two kinds of atoms per formula unit: the one in ``scattering_params`` and ``rv_other``."""
        rv_documented = True
        rv_other = None

        def attenuation_coefficient(self, wavelength):
            first = super().attenuation_coefficient(wavelength)
            second = Material(self.rv_other, self.effective_sample_number_density
                              ).attenuation_coefficient(wavelength)
            return first + second.to(unit=first.unit)

        def rv_expected_mu(self, wavelength, unit_len):
            other = types.SimpleNamespace(scattering_params=self.rv_other,
                                          effective_sample_number_density=self.effective_sample_number_density)
            return mu_oracle(self, wavelength, unit_len) + mu_oracle(other, wavelength, unit_len)

    class LawMaterial(Material):
        """A Material whose attenuation follows its own law; the inherited fields are kept but
        describe something else."""
        rv_documented = True
        rv_law = None

        def attenuation_coefficient(self, wavelength):
            return self.rv_law.answer(wavelength)

        def rv_expected_mu(self, wavelength, unit_len):
            return self.rv_law.expected(wavelength, unit_len)

    class DuckMaterial:
        """Not a Material: the same two attributes and the method."""
        rv_documented = False

        def __init__(self, scattering_params, effective_sample_number_density, law):
            self.scattering_params = scattering_params
            self.effective_sample_number_density = effective_sample_number_density
            self.rv_law = law

        def attenuation_coefficient(self, wavelength):
            return self.rv_law.answer(wavelength)

        def rv_expected_mu(self, wavelength, unit_len):
            return self.rv_law.expected(wavelength, unit_len)

    class BareMaterial:
        """Not a Material: the method only."""
        rv_documented = False

        def __init__(self, law):
            self.rv_law = law

        def attenuation_coefficient(self, wavelength):
            return self.rv_law.answer(wavelength)

        def rv_expected_mu(self, wavelength, unit_len):
            return self.rv_law.expected(wavelength, unit_len)

    class Wrapped(SampleShape):
        """A SampleShape that is not a Cylinder: every abstract method delegates to the Cylinder it
        stands for (``rv_cylinder``: where the monitors read the solid from)."""

        def __init__(self, inner):
            self.rv_cylinder = inner

        def beam_intersection(self, start_point, direction):
            return self.rv_cylinder.beam_intersection(start_point, direction)

        @property
        def volume(self):
            return self.rv_cylinder.volume

        def quadrature(self, kind):
            return self.rv_cylinder.quadrature(kind)

    class OwnRule(Cylinder):
        """A Cylinder with one more deterministic kind, ('grid', n_rho, n_phi, n_z): the midpoint rule
        of equal-volume cells in (rho^2, phi, z), built in a Gram-Schmidt frame of the axis."""
        rv_kinds = ('grid',)
        rv_returned = None

        def quadrature(self, kind):
            if isinstance(kind, tuple) and kind and kind[0] == 'grid':
                n_r, n_p, n_z = (int(k) for k in kind[1:4])
                U = self.center_of_base.unit
                r = float(self.radius.to(unit=U, copy=False).value)
                h = float(self.height.to(unit=U, copy=False).value)
                e1, e2, e3 = (np.asarray(e, dtype=np.float64) for e in cyl.frame(self.symmetry_line.value))
                i, j, k = (x.ravel() for x in np.meshgrid(np.arange(n_r), np.arange(n_p), np.arange(n_z),
                                                          indexing='ij'))
                rho = r * np.sqrt((i + 0.5) / n_r)
                phi = 2 * np.pi * (j + 0.5 * (k % 2)) / n_p
                z = h * (k + 0.5) / n_z
                pts = (np.asarray(self.center_of_base.value, dtype=np.float64)[None, :]
                       + (rho * np.cos(phi))[:, None] * e1 + (rho * np.sin(phi))[:, None] * e2
                       + z[:, None] * e3)
                n = pts.shape[0]
                vol = np.pi * float(self.radius.value) ** 2 * float(self.height.value)
                points = sc.vectors(dims=['quad'], values=pts, unit=U)
                weights = sc.array(dims=['quad'], values=np.full(n, vol / n),
                                   unit=self.radius.unit * self.radius.unit * self.height.unit)
                self.rv_returned = (points.copy(), weights.copy(), kind, self)
                return points, weights
            self.rv_returned = None
            return super().quadrature(kind)

    return types.SimpleNamespace(Compound=Compound, LawMaterial=LawMaterial, DuckMaterial=DuckMaterial,
                                 BareMaterial=BareMaterial, Wrapped=Wrapped, OwnRule=OwnRule)


def _moderate_solid(rng, ctx):
    s = gen_solid(rng, ctx, int(rng.integers(0, 10 ** 6)) + 2 * len(AXIS_CLASSES), same_unit=True)
    s['h'] = float(s['r'] * 10.0 ** rng.uniform(-1, 1))
    return s


def _scene(rng, s, n_det, n_lam, lam_unit='angstrom'):
    """Wavelengths (sorted, distinct), detectors around the solid, a beam: inputs of a map."""
    lam_A = np.sort(10.0 ** rng.uniform(-1, np.log10(20.0), size=n_lam))
    for k in range(1, n_lam):                      # clearly distinct wavelengths
        lam_A[k] = max(lam_A[k], lam_A[k - 1] * 1.3)
    lam_A = np.minimum(lam_A, 20.0 * 1.3 ** np.arange(1 - n_lam, 1))
    f = {'angstrom': 1.0, 'nm': 0.1, 'm': 1e-10}[lam_unit]
    lam = sc.array(dims=['wavelength'], values=lam_A * f, unit=lam_unit)
    centre = s['base'] + s['axis'] * s['h'] / 2
    dirs = np.array([_sphere(rng) for _ in range(n_det)])
    D = centre + dirs * ((s['r'] + s['h']) * 10.0 ** rng.uniform(0.5, 3, size=n_det))[:, None]
    det = sc.vectors(dims=['det'], values=D, unit=s['U'])
    return lam_A, lam, D, det, _sphere(rng)


def _plain_material(mods, s, lam_A, tau, ss=6.0, sa=4.0):
    """A plain Material (cross sections in barn) with optical depth ``tau`` across the solid at the
    longest wavelength."""
    _, Material, ScatteringParams, _ = mods
    size_m = (s['r'] + s['h']) * float(si.factor(sc.Unit(s['U'])))
    xs = ss + sa * float(lam_A[-1]) / 1.7982
    n = tau / (size_m * 100.0 * xs) if xs > 0 else 0.01      # mu [1/m] = 100 n[1/A^3] xs[barn]
    sp = ScatteringParams('Fake', absorption_cross_section=sc.scalar(float(sa), unit='barn'),
                          total_scattering_cross_section=sc.scalar(float(ss), unit='barn'))
    return Material(sp, sc.scalar(n, unit='1/angstrom^3'))


def _outer_call(st, what, f, **keys):
    """Run one call form of a public entry point.  An exception that unwinds through a watched frame
    is judged by that frame's monitor; one raised before any watched frame was entered (argument
    binding, coordinate lookup of a graph node) means this documented way of calling is refused."""
    before = st.outer_returns
    try:
        return f(), None
    except Exception as e:  # noqa: BLE001
        if st.outer_returns == before:
            st.ctx.violation('call_form_refused', f'{what}: {type(e).__name__}: {e}',
                             {'monitor': 'calling conventions', 'case': st.case_descr}, **keys)
        return None, e


def _last_T(st):
    return None if not st.maps else np.array(st.maps[-1]['T'], dtype=np.float64)


def _same_map(st, ref, got, label, kind):
    """The same solid, material, beam, wavelengths and pixels: the same transmission to 1e-12."""
    ctx = st.ctx
    if ref is None or got is None:
        ctx.count(f'{kind}:not_compared')
        return
    d = float(np.max(np.abs(got - ref))) if got.shape == ref.shape else float('inf')
    ctx.event(f'{kind}')
    ctx.dev(f'{kind}: same inputs, |T - T(first call)|', d)
    if not d <= 1e-12:
        ctx.violation(kind, f'{label}: the same inputs give a map that differs by {d:.3g}',
                      {'monitor': kind, 'case': st.case_descr, 'T': got.ravel()[:6].tolist(),
                       'T_first_call': ref.ravel()[:6].tolist()}, step=label)


def poly_case(rng, st, mods, SI, i):
    """(i) subclasses / stand-ins of the documented argument classes: the map must follow the
    polymorphic methods of the objects that were passed in."""
    ctx = st.ctx
    Cylinder, Material, ScatteringParams, ctm = mods
    s = _moderate_solid(rng, ctx)
    c = make_cylinder(Cylinder, s)
    lam_A, lam, D, det, beam = _scene(rng, s, 3, 3, ('angstrom', 'nm')[i % 2])
    size_m = (s['r'] + s['h']) * float(si.factor(sc.Unit(s['U'])))
    tau = float(rng.uniform(0.4, 2.5))
    mu_top = tau / size_m

    def fields(profile, tau_f):
        """(ScatteringParams, density) of a profile with optical depth tau_f at the longest wavelength."""
        ss, sa = {'pure scatterer (absorption exactly 0)': (5.0, 0.0),
                  'pure absorber (scattering exactly 0)': (0.0, 7.0),
                  'void (both cross sections 0)': (0.0, 0.0),
                  'generic': (6.0, 4.0), 'opaque by its fields': (6.0, 4.0)}[profile]
        if profile == 'opaque by its fields':
            tau_f = 60.0
        xs = ss + sa * float(lam_A[-1]) / 1.7982
        n = tau_f / (size_m * 100.0 * xs) if xs > 0 else tau / (size_m * 100.0 * 10.0)
        return (ScatteringParams('Fake', absorption_cross_section=sc.scalar(sa, unit='barn'),
                                 total_scattering_cross_section=sc.scalar(ss, unit='barn')),
                sc.scalar(n, unit='1/angstrom^3'))

    def call(shape, mat, kind, label):
        st.maps.clear()
        try:
            ctm(shape, mat, sc.vector(beam), lam, det, kind)
        except Exception:  # noqa: BLE001  judged by the map monitor
            pass
        ctx.event('standin.map_called')
        ctx.case(('stand-in', label, str(kind), s['U']))
        return _last_T(st)

    kind = KINDS[i % 2]
    # -- materials
    for k, cls in enumerate(MATERIAL_STANDINS):
        if k == 0:
            # the natural compound: the listed constituent is a pure scatterer, the other one absorbs
            for profile in dict.fromkeys((FIELD_PROFILES[0], FIELD_PROFILES[(i + 1) % 4])):
                sp, n = fields(profile, 0.3 * tau)
                m = SI.Compound(sp, n)
                # second constituent: optical depth 0.7 tau at the longest wavelength for the same density
                n_val = float(n.value)
                sa2 = 0.7 * tau / (size_m * 100.0 * n_val) / (0.1 + float(lam_A[-1]) / 1.7982)
                m.rv_other = ScatteringParams(
                    'Other', absorption_cross_section=sc.scalar(sa2, unit='barn'),
                    total_scattering_cross_section=sc.scalar(0.1 * sa2, unit='barn'))
                st.case_descr = {'kind': 'stand-in material', 'class': cls, 'fields': profile,
                                 'law': 'compound', 'lam_angstrom': lam_A.tolist()}
                call(c, m, kind, cls)
                ctx.hit('material stand-in: ' + cls)
                ctx.hit('stand-in fields: ' + profile)
            continue
        profile = FIELD_PROFILES[(i + k) % len(FIELD_PROFILES)]
        laws = LAWS if k == 1 else tuple(LAWS[(i + k + 2 * j) % len(LAWS)] for j in range(2 if k == 2 else 1))
        for law_name in laws:
            law = make_law(law_name, mu_top, lam_A)
            sp, n = fields(profile, tau)
            if k == 1:
                m = SI.LawMaterial(sp, n)
                m.rv_law = law
            elif k == 2:
                m = SI.DuckMaterial(sp, n, law)
            else:
                m = SI.BareMaterial(law)
            st.case_descr = {'kind': 'stand-in material', 'class': cls,
                             'fields': profile if k < 3 else None, 'law': law_name,
                             'lam_angstrom': lam_A.tolist()}
            call(c, m, kind, cls)
            ctx.hit('material stand-in: ' + cls)
            ctx.hit('stand-in law: ' + law_name)
            if k < 3:
                ctx.hit('stand-in fields: ' + profile)
    # -- shapes
    plain = _plain_material(mods, s, lam_A, tau)
    lawm = SI.LawMaterial(*fields(FIELD_PROFILES[0], tau))
    lawm.rv_law = make_law(LAWS[1 + i % 2], mu_top, lam_A)
    st.case_descr = {'kind': 'stand-in shape', 'class': SHAPE_STANDINS[0]}
    t_plain = call(c, plain, kind, 'plain objects')
    t_wrap = call(SI.Wrapped(c), plain, kind, SHAPE_STANDINS[0])
    _same_map(st, t_plain, t_wrap, 'SampleShape delegating to the same Cylinder', 'standin_shape_same_map')
    call(SI.Wrapped(c), lawm, kind, SHAPE_STANDINS[0] + ' + stand-in material')
    ctx.hit('shape stand-in: ' + SHAPE_STANDINS[0])
    own = SI.OwnRule(c.symmetry_line, c.center_of_base, c.radius, c.height)
    grid = ('grid', 2 + i % 3, 6 + i % 4, 3 + i % 2)
    st.case_descr = {'kind': 'stand-in shape', 'class': SHAPE_STANDINS[1], 'own_kind': list(grid)}
    call(own, plain, grid, SHAPE_STANDINS[1])
    if own.rv_returned is not None:
        ctx.hit('shape stand-in: ' + SHAPE_STANDINS[1])
    call(own, lawm, grid, SHAPE_STANDINS[1] + ' + stand-in material')
    st.case_descr = {'kind': 'stand-in shape', 'class': SHAPE_STANDINS[2]}
    t_sub = call(own, plain, kind, SHAPE_STANDINS[2])
    _same_map(st, t_plain, t_sub, 'Cylinder subclass with the same fields', 'standin_shape_same_map')
    ctx.hit('shape stand-in: ' + SHAPE_STANDINS[2])
    st.maps.clear()
    st.case_descr = None
    return s


# ------------------------------------------------------- calling conventions ---
CALL_FORMS = ('map: all positional', 'map: all keywords in another order', 'map: mixed, default kind',
              'map: positional, default kind', 'map: kind as numpy.str_', 'map: kind as (str, Enum) member',
              'beam_intersection: keywords', 'beam_intersection: keywords in another order',
              'beam_intersection: mixed', 'beam_intersection: unbound method',
              'quadrature: keyword', 'quadrature: numpy.str_', 'quadrature: (str, Enum) member',
              'constructors: keywords', 'graph node: beam_intersection', 'graph node: attenuation_coefficient')


def convention_case(rng, st, mods, i):
    """(d) every calling convention the signatures allow and the bound methods as nodes of a
    transform_coords graph; (e) numpy / Enum strings for the quadrature kind."""
    import enum
    ctx = st.ctx
    Cylinder, Material, ScatteringParams, ctm = mods

    class Kind(str, enum.Enum):
        cheap = 'cheap'
        medium = 'medium'
        expensive = 'expensive'

    s = _moderate_solid(rng, ctx)
    U = s['U']
    st.case_descr = {'kind': 'calling conventions'}
    c, e = _outer_call(st, 'Cylinder(**fields)', lambda: Cylinder(
        height=sc.scalar(s['h'], unit=U), radius=sc.scalar(s['r'], unit=s['rU']),
        center_of_base=sc.vector(s['base'], unit=U), symmetry_line=sc.vector(s['axis'])),
        form='constructors: keywords')
    lam_A, lam, D, det, beam = _scene(rng, s, 3, 2)
    plain = _plain_material(mods, s, lam_A, float(rng.uniform(0.4, 2.5)))
    m, e2 = _outer_call(st, 'Material(**fields)', lambda: Material(
        effective_sample_number_density=plain.effective_sample_number_density,
        scattering_params=plain.scattering_params), form='constructors: keywords')
    ctx.hit('call form: constructors: keywords')
    if c is None or m is None:
        return s
    bv = sc.vector(beam)

    def run_map(label, f, ref=None):
        st.case_descr = {'kind': 'calling conventions', 'form': label}
        st.maps.clear()
        _outer_call(st, label, f, form=label)
        ctx.hit('call form: ' + label)
        ctx.case(('call form', label, U))
        t = _last_T(st)
        if ref is not None:
            _same_map(st, ref, t, label, 'call_form_same_map')
        return t

    ref = run_map(CALL_FORMS[0], lambda: ctm(c, m, bv, lam, det, 'medium'))
    run_map(CALL_FORMS[1], lambda: ctm(quadrature_kind='medium', detector_position=det, wavelength=lam,
                                       beam_direction=bv, sample_material=m, sample_shape=c), ref)
    run_map(CALL_FORMS[2], lambda: ctm(c, m, bv, wavelength=lam, detector_position=det), ref)
    run_map(CALL_FORMS[3], lambda: ctm(c, m, bv, lam, det), ref)
    run_map(CALL_FORMS[4], lambda: ctm(c, m, bv, lam, det, np.str_('medium')), ref)
    run_map(CALL_FORMS[5], lambda: ctm(c, m, bv, lam, det, quadrature_kind=Kind.medium), ref)
    # beam_intersection
    P, N, classes = gen_rays(rng, s, 14, ctx)
    sp = sc.vectors(dims=['ray'], values=P, unit=U)
    dr = sc.vectors(dims=['ray'], values=N)
    forms = ((CALL_FORMS[6], lambda: c.beam_intersection(start_point=sp, direction=dr)),
             (CALL_FORMS[7], lambda: c.beam_intersection(direction=dr, start_point=sp)),
             (CALL_FORMS[8], lambda: c.beam_intersection(sp, direction=dr)),
             (CALL_FORMS[9], lambda: Cylinder.beam_intersection(c, sp, dr)),
             (CALL_FORMS[10], lambda: c.quadrature(kind=KINDS[i % 3])),
             (CALL_FORMS[11], lambda: c.quadrature(np.str_(KINDS[(i + 1) % 3]))),
             (CALL_FORMS[12], lambda: c.quadrature(list(Kind)[(i + 2) % 3])))
    for label, f in forms:
        st.case_descr = {'kind': 'calling conventions', 'form': label}
        st.ray_classes = classes if label.startswith('beam') else None
        _outer_call(st, label, f, form=label)
        st.ray_classes = None
        ctx.hit('call form: ' + label)
        ctx.case(('call form', label, U))
    # the bound methods as nodes of a coordinate-transformation graph: every parameter of the node is
    # looked up as a coordinate of that name
    st.case_descr = {'kind': 'calling conventions', 'form': CALL_FORMS[14]}
    da = sc.DataArray(sc.ones(dims=['ray'], shape=[len(P)]), coords={'start_point': sp, 'direction': dr})
    st.ray_classes = classes
    out, e = _outer_call(st, CALL_FORMS[14],
                         lambda: da.transform_coords('path_length', graph={'path_length': c.beam_intersection}),
                         form=CALL_FORMS[14])
    st.ray_classes = None
    direct, _ = _outer_call(st, 'beam_intersection: positional', lambda: c.beam_intersection(sp, dr),
                            form='beam_intersection: positional')
    if out is not None and direct is not None:
        ctx.event('graph_node.result')
        got = out.coords.get('path_length')
        if got is None or not sc.identical(got, direct):
            ctx.violation('graph_node_result', 'transform_coords with Cylinder.beam_intersection as a node: the '
                          'new coordinate is not what the direct call returns',
                          {'monitor': 'graph node', 'case': st.case_descr}, form=CALL_FORMS[14])
    ctx.hit('call form: ' + CALL_FORMS[14])
    ctx.case(('call form', CALL_FORMS[14], U))
    st.case_descr = {'kind': 'calling conventions', 'form': CALL_FORMS[15]}
    dl = sc.DataArray(sc.ones(dims=['wavelength'], shape=[lam.sizes['wavelength']]), coords={'wavelength': lam})
    out, e = _outer_call(st, CALL_FORMS[15],
                         lambda: dl.transform_coords('mu', graph={'mu': m.attenuation_coefficient},
                                                     rename_dims=False, keep_inputs=True),
                         form=CALL_FORMS[15])
    direct, _ = _outer_call(st, 'attenuation_coefficient: keyword',
                            lambda: m.attenuation_coefficient(wavelength=lam),
                            form='attenuation_coefficient: keyword')
    if out is not None and direct is not None:
        ctx.event('graph_node.result')
        got = out.coords.get('mu')
        if got is None or not sc.identical(got, direct):
            ctx.violation('graph_node_result', 'transform_coords with Material.attenuation_coefficient as a '
                          'node: the new coordinate is not what the direct call returns',
                          {'monitor': 'graph node', 'case': st.case_descr}, form=CALL_FORMS[15])
    ctx.hit('call form: ' + CALL_FORMS[15])
    ctx.case(('call form', CALL_FORMS[15], U))
    st.maps.clear()
    st.case_descr = None
    return s


# ------------------------------------------- second use, display / copy between calls ---
REUSE_STEPS = ('repr / str / == / copy / deepcopy of the objects and of the result between two calls',
               'coordinates of the result fed back as inputs',
               'arrays returned by quadrature() modified in place',
               'array returned by beam_intersection() modified in place',
               'returned map modified in place',
               'after exceptions raised and caught',
               'the same Material with another solid, the same solid with another Material')


def reuse_case(rng, st, mods, i):
    """(g) second use of the same objects / results fed back / repeat after a caught exception and
    (j) display, comparison and copies between two computational calls: none of it may change what
    the next call answers (every call is judged by the monitors; the maps are compared too)."""
    import copy
    ctx = st.ctx
    Cylinder, Material, ScatteringParams, ctm = mods
    s = _moderate_solid(rng, ctx)
    U = s['U']
    c = make_cylinder(Cylinder, s)
    lam_A, lam, D, det, beam = _scene(rng, s, 3, 2)
    m = _plain_material(mods, s, lam_A, float(rng.uniform(0.4, 2.5)))
    bv = sc.vector(beam)
    kind = KINDS[i % 3]
    P, N, classes = gen_rays(rng, s, 14, ctx)
    sp = sc.vectors(dims=['ray'], values=P, unit=U)
    dr = sc.vectors(dims=['ray'], values=N)

    def the_map(label, lam_=lam, det_=det, c_=c, m_=m):
        st.case_descr = {'kind': 'second use', 'step': label}
        st.maps.clear()
        try:
            res = ctm(c_, m_, bv, lam_, det_, kind)
        except Exception:  # noqa: BLE001  judged by the map monitor
            res = None
        ctx.case(('second use', label, kind, U))
        return res, _last_T(st)

    def rays(label):
        st.case_descr = {'kind': 'second use', 'step': label}
        st.ray_classes = classes
        try:
            return c.beam_intersection(sp, dr)
        except Exception:  # noqa: BLE001
            return None
        finally:
            st.ray_classes = None

    def harness(label, f):
        try:
            return f()
        except Exception:  # noqa: BLE001   the harness' own manipulation failed
            ctx.oracle_error(f'C18 second-use manipulation: {label}')
            return None

    res1, ref = the_map('first call')
    # (j) display / comparison / copies
    label = REUSE_STEPS[0]

    def display():
        repr(c), str(c), repr(m), str(m), repr(res1), str(res1)
        _ = (c == copy.deepcopy(c)), (m == copy.copy(m)), (c != c)
        copy.copy(c), copy.deepcopy(m)
        if res1 is not None:
            res1.copy(), copy.deepcopy(res1), sc.identical(res1, res1)
        return True
    harness(label, display)
    _, t = the_map(label)
    _same_map(st, ref, t, label, 'second_use_same_map')
    rays(label)
    ctx.hit('second use: ' + label)
    # (g) results fed back
    label = REUSE_STEPS[1]
    if res1 is not None:
        fed = harness(label, lambda: (res1.coords['wavelength'], res1.coords['detector_position']))
        if fed is not None:
            _, t = the_map(label, lam_=fed[0], det_=fed[1])
            _same_map(st, ref, t, label, 'second_use_same_map')
            ctx.hit('second use: ' + label)
    # returned arrays modified in place: the next call must not see it
    label = REUSE_STEPS[2]
    st.case_descr = {'kind': 'second use', 'step': label}
    try:
        pts, w = c.quadrature(kind)
    except Exception:  # noqa: BLE001
        pts = w = None
    if pts is not None:
        def spoil():
            pts.values[...] = 0.0
            w.values[...] = -1.0
            return True
        if harness(label, spoil):
            try:
                c.quadrature(kind)
            except Exception:  # noqa: BLE001
                pass
            _, t = the_map(label)
            _same_map(st, ref, t, label, 'second_use_same_map')
            ctx.hit('second use: ' + label)
    label = REUSE_STEPS[3]
    L = rays(label)
    if L is not None and harness(label, lambda: L.values.__setitem__(Ellipsis, -1.0) or True):
        rays(label)
        ctx.hit('second use: ' + label)
    label = REUSE_STEPS[4]
    if res1 is not None and harness(label, lambda: res1.values.__setitem__(Ellipsis, 2.0) or True):
        _, t = the_map(label)
        _same_map(st, ref, t, label, 'second_use_same_map')
        ctx.hit('second use: ' + label)
    # repeat after exceptions
    label = REUSE_STEPS[5]
    st.case_descr = {'kind': 'second use', 'step': label}
    for f in (lambda: c.quadrature('no such kind'),
              lambda: c.beam_intersection(sp, dr['ray', :5]),
              lambda: ctm(c, m, bv, lam, det, 'no such kind'),
              lambda: ctm(c, m, bv, lam.rename_dims(wavelength='det'), det, kind)):
        try:
            f()
            ctx.count('second use: call expected to raise returned')
        except Exception:  # noqa: BLE001
            ctx.count('second use: exception raised and caught')
    _, t = the_map(label)
    _same_map(st, ref, t, label, 'second_use_same_map')
    rays(label)
    try:
        c.quadrature(kind)
    except Exception:  # noqa: BLE001
        pass
    ctx.hit('second use: ' + label)
    # the same Material with another solid and the same solid with another Material
    label = REUSE_STEPS[6]
    s2 = dict(s, axis=_sphere(rng), r=s['r'] * 0.6, h=s['h'] * 1.7)
    c2 = make_cylinder(Cylinder, s2)
    the_map(label + ' (other solid)', c_=c2)
    m2 = _plain_material(mods, s, lam_A, float(rng.uniform(0.4, 2.5)), ss=0.0, sa=9.0)
    the_map(label + ' (other material)', m_=m2)
    _, t = the_map(label)
    _same_map(st, ref, t, label, 'second_use_same_map')
    ctx.hit('second use: ' + label)
    st.maps.clear()
    st.case_descr = None
    return s


# --------------------------------------------------------- operands with variances ---
VARIANCE_CLASSES = ('radius with variances', 'height with variances', 'radius and height with variances',
                    'wavelength with variances', 'density with variances',
                    'cross sections with variances')


def variances_case(rng, st, mods, i):
    """(a) scalar fields / wavelengths carrying variances: values are judged as always; variances are
    judged where first-order propagation is unambiguous (volume = pi r^2 h, mu linear in the
    wavelength); a VariancesError of scipp (broadcast of an operand with variances) is a refusal."""
    ctx = st.ctx
    Cylinder, Material, ScatteringParams, ctm = mods
    s = _moderate_solid(rng, ctx)
    U = s['U']
    lam_A, lam, D, det, beam = _scene(rng, s, 2, 3, ('angstrom', 'nm', 'm')[i % 3])
    m = _plain_material(mods, s, lam_A, float(rng.uniform(0.4, 2.5)))
    bv = sc.vector(beam)
    rel = 10.0 ** rng.uniform(-3, -1)
    P, N, classes = gen_rays(rng, s, 8, ctx)

    def shape_with(r_var, h_var):
        return Cylinder(sc.vector(s['axis']), sc.vector(s['base'], unit=U),
                        sc.scalar(s['r'], variance=(rel * s['r']) ** 2 if r_var else None, unit=U),
                        sc.scalar(s['h'], variance=(rel * s['h']) ** 2 if h_var else None, unit=U))

    for k, (r_var, h_var) in enumerate(((True, False), (False, True), (True, True))):
        label = VARIANCE_CLASSES[k]
        st.case_descr = {'kind': 'variances', 'operand': label, 'relative_sigma': rel}
        try:
            cv = shape_with(r_var, h_var)
        except Exception:  # noqa: BLE001
            ctx.oracle_error('C18 variances: building the solid')
            continue
        judge_props(st, cv, label)
        # scalar x scalar (no broadcast involved), then arrays, then the rules and the map
        for j in range(4):
            st.ray_classes = [classes[j]]
            try:
                cv.beam_intersection(sc.vector(P[j], unit=U), sc.vector(N[j]))
            except Exception:  # noqa: BLE001  judged by the monitor
                pass
        st.ray_classes = classes
        try:
            cv.beam_intersection(sc.vectors(dims=['ray'], values=P, unit=U), sc.vectors(dims=['ray'], values=N))
        except Exception:  # noqa: BLE001
            pass
        st.ray_classes = None
        try:
            cv.quadrature(KINDS[(i + k) % 3])
        except Exception:  # noqa: BLE001
            pass
        st.maps.clear()
        try:
            ctm(cv, m, bv, lam, det, 'cheap')
        except Exception:  # noqa: BLE001
            pass
        ctx.hit('variances: ' + label)
        ctx.case(('variances', label, U))
    # material side
    c = make_cylinder(Cylinder, s)
    lam_v = lam.copy()
    lam_v.variances = (rel * lam.values) ** 2
    label = VARIANCE_CLASSES[3]
    st.case_descr = {'kind': 'variances', 'operand': label, 'relative_sigma': rel}
    for w in (lam_v, lam_v['wavelength', 0], lam_v['wavelength', 1:]):
        try:
            m.attenuation_coefficient(w)
        except Exception:  # noqa: BLE001  judged by the monitor
            pass
    st.maps.clear()
    try:
        ctm(c, m, bv, lam_v, det, 'cheap')
    except Exception:  # noqa: BLE001
        pass
    ctx.hit('variances: ' + label)
    ctx.case(('variances', label, str(lam.unit)))
    n = m.effective_sample_number_density
    sp = m.scattering_params
    n_v = sc.scalar(float(n.value), variance=(rel * float(n.value)) ** 2, unit=n.unit)
    sp_v = ScatteringParams(
        'Fake', absorption_cross_section=sc.scalar(4.0, variance=(4.0 * rel) ** 2, unit='barn'),
        total_scattering_cross_section=sc.scalar(6.0, variance=(6.0 * rel) ** 2, unit='barn'))
    for label, mv in ((VARIANCE_CLASSES[4], Material(sp, n_v)), (VARIANCE_CLASSES[5], Material(sp_v, n))):
        st.case_descr = {'kind': 'variances', 'operand': label, 'relative_sigma': rel}
        for w in (lam['wavelength', 0], lam):
            try:
                mv.attenuation_coefficient(w)
            except Exception:  # noqa: BLE001
                pass
        st.maps.clear()
        try:
            ctm(c, mv, bv, lam, det['det', 0], 'cheap')
        except Exception:  # noqa: BLE001
            pass
        ctx.hit('variances: ' + label)
        ctx.case(('variances', label, U))
    st.maps.clear()
    st.case_descr = None
    return s


# ------------------------------------------- dim names / dtypes of the map operands ---
MAP_DIM_CLASSES = ("wavelength dim named 'row'", "wavelength dim named 'quad'", "wavelength dim named 'x'",
                   "wavelength dim named 'event'", "wavelength dim named 'det', detectors over 'wavelength'",
                   "detectors over ('row', 'quad2')", "detectors over ('vertex', 'wavelength'), wavelengths over 'lam'",
                   "detector dim named 'quad' (paired with the nodes: no meaning by label)",
                   'detector dim equal to the wavelength dim', 'wavelengths 0-d', 'wavelengths 2-d',
                   'wavelengths int64')


def map_dims_case(rng, st, mods, i):
    """(c) dims of the map operands named like names used inside the code ('row', 'quad', 'x', 'event',
    'wavelength' for something else ...) and integer wavelengths: the same pixels and wavelengths give
    the same map whatever the labels are; operands without a meaning by label may be refused."""
    ctx = st.ctx
    Cylinder, Material, ScatteringParams, ctm = mods
    s = _moderate_solid(rng, ctx)
    U = s['U']
    c = make_cylinder(Cylinder, s)
    lam_A, lam, D, det, beam = _scene(rng, s, 4, 3)
    m = _plain_material(mods, s, lam_A, float(rng.uniform(0.4, 2.5)))
    bv = sc.vector(beam)
    kind = KINDS[i % 2]
    grid = sc.vectors(dims=['a', 'b'], values=D.reshape(2, 2, 3), unit=U)

    def the_map(label, lam_, det_, ref=None):
        st.case_descr = {'kind': 'map operand dims', 'class': label}
        st.maps.clear()
        try:
            ctm(c, m, bv, lam_, det_, kind)
        except Exception:  # noqa: BLE001  judged by the map monitor
            pass
        ctx.hit('map operands: ' + label)
        ctx.case(('map dims', label, kind, U))
        t = _last_T(st)
        if ref is not None:
            _same_map(st, ref, t, label, 'map_dim_names_same_map')
        return t

    ref = the_map('standard names', lam, det)
    ref2 = the_map('standard names, 2-d detectors', lam, grid)
    C = MAP_DIM_CLASSES
    the_map(C[0], lam.rename_dims(wavelength='row'), det, ref)
    the_map(C[1], lam.rename_dims(wavelength='quad'), det, ref)
    the_map(C[2], lam.rename_dims(wavelength='x'), det, ref)
    the_map(C[3], lam.rename_dims(wavelength='event'), det, ref)
    the_map(C[4], lam.rename_dims(wavelength='det'), det.rename_dims(det='wavelength'), ref)
    the_map(C[5], lam, grid.rename_dims(a='row', b='quad2'), ref2)
    the_map(C[6], lam.rename_dims(wavelength='lam'), grid.rename_dims(a='vertex', b='wavelength'), ref2)
    the_map(C[7], lam, det.rename_dims(det='quad'))
    the_map(C[8], lam, det.rename_dims(det='wavelength'))
    the_map(C[9], lam['wavelength', 0], det)
    the_map(C[10], sc.array(dims=['a', 'wavelength'], values=np.stack([lam.values, lam.values * 1.1]),
                            unit=lam.unit), det)
    lam_i = sc.array(dims=['wavelength'], values=np.array([1, 3, 7 + i % 5], dtype=np.int64), unit='angstrom')
    the_map(C[11], lam_i, det)
    st.maps.clear()
    st.case_descr = None
    return s


# ------------------------------------------------------------- generic large sizes ---
def bulk_rays(rng, s, n):
    """n rays without a Python loop: origins in a box of 3 sample sizes around the solid (about a
    tenth inside), directions over the sphere with exact (anti)parallels and coordinate axes mixed in."""
    a = s['axis']
    e1, e2, _ = (np.asarray(e, dtype=np.float64) for e in cyl.frame(a))
    ph = rng.uniform(0, 2 * np.pi, size=n)
    inside = rng.random(n) < 0.5
    rho = np.where(inside, s['r'] * np.sqrt(rng.random(n)) * 0.999, s['r'] * rng.uniform(0, 3, size=n))
    z = np.where(inside, s['h'] * rng.uniform(0.001, 0.999, size=n), s['h'] * rng.uniform(-2, 3, size=n))
    P = (s['base'][None, :] + (rho * np.cos(ph))[:, None] * e1 + (rho * np.sin(ph))[:, None] * e2
         + z[:, None] * a)
    N = rng.normal(size=(n, 3))
    N /= np.linalg.norm(N, axis=1)[:, None]
    k = rng.integers(0, 16, size=n)
    N[k == 0] = a
    N[k == 1] = -a
    N[k == 2] = np.array([0.0, 0.0, 1.0])
    return P, N


SIZE_CLASSES = ('beam_intersection with 2**20 + 7 paired rays', 'beam_intersection with 3 x 400001 rays',
                'quadrature-like outer product 300 x 4001')


def sizes_case(rng, st, Cylinder):
    """(h) generic large operands in one call (no literal size threshold other than the 2e7 of the heavy
    case exists in the code): every table is thinned by dim label and judged entry by entry."""
    ctx = st.ctx
    s = _moderate_solid(rng, ctx)
    U = s['U']
    c = make_cylinder(Cylinder, s)
    n1 = 2 ** 20 + 7
    P, N = bulk_rays(rng, s, max(n1, 3 * 400001, 300 * 4001))
    calls = (
        (SIZE_CLASSES[0], lambda: (sc.vectors(dims=['ray'], values=P[:n1], unit=U),
                                   sc.vectors(dims=['ray'], values=N[:n1]))),
        (SIZE_CLASSES[1], lambda: (sc.vectors(dims=['row', 'ray'], values=P[:3 * 400001].reshape(3, 400001, 3),
                                              unit=U),
                                   sc.vectors(dims=['ray'], values=N[:400001]))),
        (SIZE_CLASSES[2], lambda: (sc.vectors(dims=['quad'], values=P[:4001], unit=U),
                                   sc.vectors(dims=['det', 'quad'], values=N[:300 * 4001].reshape(300, 4001, 3)))),
    )
    for label, build in calls:
        st.case_descr = {'kind': 'large operands', 'class': label}
        try:
            sp, dr = build()
        except Exception:  # noqa: BLE001
            ctx.oracle_error('C18 large operands')
            continue
        before = st.outer_returns
        try:
            c.beam_intersection(sp, dr)
        except Exception:  # noqa: BLE001  judged by the monitor
            pass
        if st.outer_returns > before:
            ctx.hit('sizes: ' + label)
        ctx.case(('sizes', label, U))
    st.case_descr = None
    return s


# ------------------------------------- sizes that coincide with internal sizes ---
DISK_NODES = {'cheap': 12, 'medium': 55, 'expensive': 256}   # workload only: nodes of the disk rules
COINCIDENCE_CLASSES = (
    'detectors 1-d: as many as the quadrature has nodes', 'detectors 1-d: one fewer than the quadrature has nodes',
    'detectors 1-d: one more than the quadrature has nodes',
    'detectors 2-d: first dim as long as the quadrature',
    'detectors 2-d: second dim as long as the quadrature',
    'wavelengths: as many as the quadrature has nodes', 'wavelengths: one fewer than the quadrature has nodes',
    'wavelengths: one more than the quadrature has nodes',
    'detectors 1-d: as many as the disk rule has nodes', 'detectors 1-d: as many as the axial rule has nodes',
    'detectors 1-d: as many as wavelengths', 'detectors 2-d square: each dim as long as the wavelengths',
    'detectors 1-d: 2, 3, 4 (length of a vector and one off)',
)
COINCIDENCE_KINDS = ('cheap', 'medium')
# which classes a shard runs for the larger rule (index % 3); the cheap rule runs all of them on every shard
COINCIDENCE_PARTS = ((0, 1, 2), (3, 4), (5, 6, 7, 8, 9, 10, 11, 12))
RAY_COINCIDENCE_CLASSES = ('rays: 3 paired (length of a vector)', 'rays: 3 x 3 outer product',
                           'rays: 2-d 3 x 3 starts, 3 directions over the first / the second dim',
                           'rays: 2 and 4 paired, 2 x 4 outer product')


def coincidence_case(rng, st, mods, i, kind, classes):
    """(p) operand dims exactly as long as something the code handles internally - the nodes of the
    quadrature in use (read from the quadrature the solid hands out), of its disk and axial factors,
    the 3 components of a vector, the number of wavelengths - one shorter and one longer: each map is
    judged by the map monitor (recomputed from the observed nodes); for the exact coincidence the same
    pixels are also evaluated in two batches, and the 2-d layouts are compared with the flat list of the
    same pixels (the layout of the detector operand is not part of the property)."""
    ctx = st.ctx
    Cylinder, Material, ScatteringParams, ctm = mods
    C = COINCIDENCE_CLASSES
    s = _moderate_solid(rng, ctx)
    mult, lo, hi = NODE_RULE[kind]
    # number of axial nodes aimed at (workload only): any for the cheap rule, the smaller ones otherwise (cost)
    k_target = lo + int(rng.integers(0, hi - lo + 1 if kind == 'cheap' else (3 if kind == 'medium' else 1)))
    s['h'] = float(s['r'] * (k_target + float(rng.uniform(-0.3, 0.3))) / mult)
    c = make_cylinder(Cylinder, s)
    U = s['U']
    st.case_descr = {'kind': 'coinciding sizes', 'quadrature': kind, 'step': 'quadrature read'}
    try:
        n_q = int(c.quadrature(kind)[1].sizes['quad'])
    except Exception:  # noqa: BLE001  judged by the quadrature monitor
        ctx.count('coinciding sizes: quadrature not available')
        return s
    n_disk = DISK_NODES[kind]
    n_ax = max(2, n_q // n_disk)
    wide = 3 if kind == 'cheap' else 2            # extent of the other dim of the 2-d layouts
    n_max = max(n_q + 1, wide * n_q) if (3 in classes or 4 in classes) else n_q + 1
    lam_A, lam, _, _, beam = _scene(rng, s, 1, 3)
    centre = s['base'] + s['axis'] * s['h'] / 2
    dirs = rng.normal(size=(n_max, 3))
    dirs /= np.linalg.norm(dirs, axis=1)[:, None]
    D = centre + dirs * ((s['r'] + s['h']) * 10.0 ** rng.uniform(0.5, 3, size=n_max))[:, None]
    m = _plain_material(mods, s, lam_A, float(rng.uniform(0.5, 2.5)))
    bv = sc.vector(beam)
    nl = lam.sizes['wavelength']

    def flat(n):
        return sc.vectors(dims=['det'], values=D[:n], unit=U)

    def the_map(label, lam_, det_, m_=m):
        st.case_descr = {'kind': 'coinciding sizes', 'quadrature': kind, 'nodes': n_q, 'class': label,
                         'detector_dims': dict(det_.sizes), 'wavelengths': int(lam_.size)}
        st.maps.clear()
        try:
            ctm(c, m_, bv, lam_, det_, kind)
        except Exception:  # noqa: BLE001  judged by the map monitor
            pass
        ctx.case(('coinciding sizes', label, kind, U))
        return _last_T(st)

    def done(label, t):
        if t is not None:
            ctx.hit(f'sizes [{kind}]: {label}')

    def batches(label, det_):
        """The whole operand, then the same pixels in two batches."""
        whole = the_map(label, lam, det_)
        d0 = det_.dims[0]
        half = det_.sizes[d0] // 2
        parts = [the_map(label + ' (first batch)', lam, det_[d0, :half].copy()),
                 the_map(label + ' (second batch)', lam, det_[d0, half:].copy())]
        if whole is None or any(p is None for p in parts):
            ctx.count('coinciding sizes: batches not compared')
        else:
            _same_map(st, np.concatenate(parts, axis=0), whole, label, 'map_same_pixels_in_batches')
        done(label, whole)

    if 0 in classes:
        batches(C[0], flat(n_q))
    if 1 in classes:
        done(C[1], the_map(C[1], lam, flat(n_q - 1)))
    if 2 in classes:
        done(C[2], the_map(C[2], lam, flat(n_q + 1)))
    if 3 in classes or 4 in classes:
        t_flat = the_map(f'flat list of {wide} n pixels', lam, flat(wide * n_q))
        for k, dims, shape in ((3, ['pixel', 'tube'], (n_q, wide)), (4, ['tube', 'pixel'], (wide, n_q))):
            if k in classes:
                g = sc.vectors(dims=dims, values=D[:wide * n_q].reshape(*shape, 3), unit=U)
                t = the_map(C[k], lam, g)
                _same_map(st, t_flat, t, C[k], 'map_same_pixels_in_batches')
                done(C[k], t)
    # wavelengths: n distinct values over 0.1 .. 20 angstrom, two pixels
    for k, n in ((5, n_q), (6, n_q - 1), (7, n_q + 1)):
        if k in classes:
            vals = np.exp(np.linspace(np.log(0.1), np.log(20.0), n)) * np.exp(rng.uniform(-1e-3, 1e-3, size=n))
            vals = np.clip(np.sort(vals), 0.1, 20.0)
            lam_n = sc.array(dims=['wavelength'], values=vals, unit='angstrom')
            m_n = _plain_material(mods, s, vals, float(rng.uniform(0.5, 2.5)))
            done(C[k], the_map(C[k], lam_n, flat(2), m_n))
    if 8 in classes:
        done(C[8], the_map(C[8], lam, flat(n_disk)))
    if 9 in classes:
        done(C[9], the_map(C[9], lam, flat(n_ax)))
    if 10 in classes:
        batches(C[10], flat(nl))
    if 11 in classes:
        t_sq_flat = the_map('flat list of n_lambda^2 pixels', lam, flat(nl * nl))
        t = the_map(C[11], lam, sc.vectors(dims=['row', 'col'], values=D[:nl * nl].reshape(nl, nl, 3), unit=U))
        _same_map(st, t_sq_flat, t, C[11], 'map_same_pixels_in_batches')
        done(C[11], t)
    if 12 in classes:
        ts = [the_map(C[12], lam, flat(n)) for n in (2, 3, 4)]
        done(C[12], None if any(t is None for t in ts) else ts[0])
    st.maps.clear()
    st.case_descr = None
    return s


def ray_coincidence_case(rng, st, Cylinder, i):
    """(p) for beam_intersection: operand dims of length 3 (the components of a vector), 2 and 4, paired,
    as outer products and as a 3 x 3 table against 3 directions over either dim; every entry judged."""
    ctx = st.ctx
    s = _moderate_solid(rng, ctx)
    U = s['U']
    c = make_cylinder(Cylinder, s)
    P, N = bulk_rays(rng, s, 24)
    R = RAY_COINCIDENCE_CLASSES

    def S(dims, shape, off=0):
        n = int(np.prod(shape))
        return sc.vectors(dims=list(dims), values=P[off:off + n].reshape(*shape, 3), unit=U)

    def Dr(dims, shape, off=0):
        n = int(np.prod(shape))
        return sc.vectors(dims=list(dims), values=N[off:off + n].reshape(*shape, 3))

    calls = ((R[0], S(['ray'], [3]), Dr(['ray'], [3])),
             (R[1], S(['a'], [3]), Dr(['b'], [3], 3)),
             (R[2], S(['a', 'b'], [3, 3]), Dr(['a'], [3], 9)),
             (R[2], S(['a', 'b'], [3, 3], 9), Dr(['b'], [3], 3)),
             (R[3], S(['ray'], [2]), Dr(['ray'], [2], 5)),
             (R[3], S(['ray'], [4], 3), Dr(['ray'], [4], 7)),
             (R[3], S(['a'], [2], 11), Dr(['b'], [4], 13)))
    for label, sp, dr in calls:
        st.case_descr = {'kind': 'coinciding sizes', 'class': label}
        st.layout, st.ray_classes = label, None
        before = st.outer_returns
        try:
            c.beam_intersection(sp, dr)
        except Exception:  # noqa: BLE001  judged by the monitor
            pass
        st.layout = None
        if st.outer_returns > before:
            ctx.hit('sizes: ' + label)
        ctx.case(('coinciding sizes', label, U))
    st.case_descr = None


# ------------------------- in-place modification between calls, aliasing of results ---
INPLACE_STEPS = ('start points: a slice overwritten in place', 'directions: all values overwritten in place',
                 'wavelengths: one value overwritten in place', 'wavelengths: unit replaced in place (nm <-> angstrom)',
                 'detector positions: a slice overwritten in place', 'beam direction: value overwritten in place',
                 'density: value overwritten in place')
ALIAS_ENTRIES = ('beam_intersection, array operands', 'beam_intersection, 0-d operands', 'quadrature',
                 'compute_transmission_map', 'compute_transmission_map, 0-d detector',
                 'compute_transmission_map, zero density')


def _vals(v):
    """A private copy of the numbers a Variable holds now."""
    return np.array(v.values, dtype=np.float64, copy=True)


def _put(v, a):
    if v.ndim == 0 and v.dtype != sc.DType.vector3:
        v.value = float(a)
    elif v.ndim == 0:
        v.value = np.asarray(a, dtype=np.float64)
    else:
        v.values = np.asarray(a, dtype=np.float64)


def _same_bits(a, b):
    return a.shape == b.shape and bool(np.array_equal(a, b, equal_nan=True))


def inplace_alias_case(rng, st, mods, i):
    """(k) the very same operand objects with their contents modified in place between two calls: the
    second call answers for the new contents (judged by the monitors, which read the operands at the
    return of the call; the map is also compared with a call on fresh copies of the modified operands);
    (l) results do not share memory with arguments: writing into an argument leaves a result obtained
    earlier as it was, writing into a result leaves the arguments as they were and a repeated call gives
    the first result again.  The coordinates of the returned DataArray ARE the inputs (scipp DataArray
    semantics, documented sharing): only its data are checked."""
    ctx = st.ctx
    Cylinder, Material, ScatteringParams, ctm = mods
    s = _moderate_solid(rng, ctx)
    U = s['U']
    c = make_cylinder(Cylinder, s)
    n_det = 4
    lam_nm = np.sort(rng.uniform(1.0, 2.0, size=3))        # 10..20 angstrom as nm, 1..2 angstrom as angstrom
    lam_nm[1:] = np.maximum(lam_nm[1:], lam_nm[:-1] * 1.05)
    _, _, D, det, beam = _scene(rng, s, 2 * n_det, 1)
    det = sc.vectors(dims=['det'], values=D[:n_det], unit=U)
    lam = sc.array(dims=['wavelength'], values=lam_nm, unit='nm')
    m = _plain_material(mods, s, lam_nm * 10.0, float(rng.uniform(0.5, 2.0)))
    bv = sc.vector(beam)
    kind = KINDS[i % 2]
    P, N = bulk_rays(rng, s, 24)
    sp = sc.vectors(dims=['ray'], values=P[:12], unit=U)
    dr = sc.vectors(dims=['ray'], values=N[:12])

    def rays(label, sp_=None, dr_=None):
        st.case_descr = {'kind': 'in place / aliasing', 'step': label}
        st.ray_classes = None
        try:
            return c.beam_intersection(sp if sp_ is None else sp_, dr if dr_ is None else dr_)
        except Exception:  # noqa: BLE001  judged by the monitor
            return None

    def the_map(label, lam_=None, det_=None, m_=None, bv_=None, c_=None):
        st.case_descr = {'kind': 'in place / aliasing', 'step': label, 'quadrature': kind}
        st.maps.clear()
        try:
            res = ctm(c if c_ is None else c_, m if m_ is None else m_, bv if bv_ is None else bv_,
                      lam if lam_ is None else lam_, det if det_ is None else det_, kind)
        except Exception:  # noqa: BLE001  judged by the map monitor
            res = None
        ctx.case(('in place / aliasing', label, kind, U))
        return res, _last_T(st)

    def harness(label, f):
        try:
            f()
            return True
        except Exception:  # noqa: BLE001   the harness' own manipulation failed
            ctx.oracle_error(f'C18 in-place manipulation: {label}')
            return False

    # ---- (k) beam_intersection
    rays('first call')
    for label, f in ((INPLACE_STEPS[0], lambda: sp.values.__setitem__(slice(0, None, 2), P[12:18])),
                     (INPLACE_STEPS[1], lambda: dr.values.__setitem__(Ellipsis, N[12:24]))):
        if not harness(label, f):
            continue
        got = rays(label)
        fresh = rays(label + ' (fresh copies)', sp.copy(), dr.copy())
        if got is not None and fresh is not None:
            ctx.event('inplace.same_objects_vs_fresh_copies')
            if not _same_bits(_vals(got), _vals(fresh)):
                ctx.violation('inplace_operand_not_seen',
                              f'{label}: the call on the same objects differs from the call on fresh copies '
                              'of their current contents',
                              {'monitor': 'in place', 'case': st.case_descr, 'got': _vals(got).tolist()[:6],
                               'fresh': _vals(fresh).tolist()[:6]}, entry='beam_intersection')
            ctx.hit('in place: ' + label)
    # ---- (k) compute_transmission_map
    the_map('first call')
    dens = m.effective_sample_number_density
    steps = ((INPLACE_STEPS[2], lambda: lam.values.__setitem__(1, float(lam.values[1]) * 1.02)),
             (INPLACE_STEPS[3], lambda: setattr(lam, 'unit', sc.Unit('angstrom'))),
             (INPLACE_STEPS[4], lambda: det.values.__setitem__(slice(0, None, 2), D[n_det:n_det + 2])),
             (INPLACE_STEPS[5], lambda: setattr(bv, 'value', -beam)),
             (INPLACE_STEPS[6], lambda: setattr(dens, 'value', float(dens.value) * 1.7)))
    for label, f in steps:
        if not harness(label, f):
            continue
        _, t = the_map(label)
        m_f = Material(m.scattering_params, dens.copy())
        _, t_f = the_map(label + ' (fresh copies)', lam.copy(), det.copy(), m_f, bv.copy())
        _same_map(st, t_f, t, label, 'inplace_same_objects_vs_fresh_copies')
        if t is not None:
            ctx.hit('in place: ' + label)

    # ---- (l) aliasing
    def alias(entry, call, args, result_arrays, other_call=None):
        """call() -> result; args: the Variables handed in (incl. the fields of the objects);
        result_arrays(result) -> the writable Variables of the result; other_call: the same entry point on
        the same objects with other operands of the same shape."""
        st.case_descr = {'kind': 'in place / aliasing', 'step': 'aliasing', 'entry': entry}
        try:
            r1 = call()
        except Exception:  # noqa: BLE001  judged by the monitors
            ctx.count('aliasing: call raised')
            return
        outs = result_arrays(r1)
        snap_out = [_vals(o) for o in outs]
        snap_in = [_vals(a) for a in args]
        # (0) a later call with other operands: the earlier result stays what it was
        if other_call is not None:
            try:
                other_call()
                called = True
            except Exception:  # noqa: BLE001  judged by the monitors
                called = False
            if called:
                ctx.event('aliasing.result_after_later_call')
                if not all(_same_bits(x, _vals(o)) for x, o in zip(snap_out, outs, strict=True)):
                    ctx.violation('result_shares_memory_with_later_result',
                                  f'{entry}: a result obtained earlier changed when the entry point was called '
                                  'again with other operands', {'monitor': 'aliasing', 'case': st.case_descr},
                                  entry=entry)
                    snap_out = [_vals(o) for o in outs]
        # (1) write into every argument: the earlier result stays what it was
        try:
            for a, v in zip(args, snap_in, strict=True):
                _put(a, v * 1.25 + 0.5)
            after = [_vals(o) for o in outs]
            for a, v in zip(args, snap_in, strict=True):
                _put(a, v)
        except Exception:  # noqa: BLE001
            ctx.oracle_error('C18 aliasing: writing into the arguments')
            return
        ctx.event('aliasing.result_after_argument_write')
        if not all(_same_bits(x, y) for x, y in zip(snap_out, after, strict=True)):
            ctx.violation('result_shares_memory_with_argument',
                          f'{entry}: a result obtained earlier changed when the arguments were overwritten in '
                          'place', {'monitor': 'aliasing', 'case': st.case_descr}, entry=entry,
                          direction='argument write seen in result')
        # (2) write into the result: the arguments stay what they were, the call repeats
        try:
            for o in outs:
                _put(o, _vals(o) * 0.0 - 7.0)
            now_in = [_vals(a) for a in args]
        except Exception:  # noqa: BLE001
            ctx.oracle_error('C18 aliasing: writing into the result')
            return
        ctx.event('aliasing.arguments_after_result_write')
        if not all(_same_bits(x, y) for x, y in zip(snap_in, now_in, strict=True)):
            ctx.violation('result_shares_memory_with_argument',
                          f'{entry}: the arguments changed when the result was overwritten in place',
                          {'monitor': 'aliasing', 'case': st.case_descr}, entry=entry,
                          direction='result write seen in argument')
            try:
                for a, v in zip(args, snap_in, strict=True):
                    _put(a, v)
            except Exception:  # noqa: BLE001
                ctx.oracle_error('C18 aliasing: restoring the arguments')
                return
        try:
            r2 = call()
            again = [_vals(o) for o in result_arrays(r2)]
        except Exception:  # noqa: BLE001
            ctx.count('aliasing: repeated call raised')
            return
        ctx.event('aliasing.repeat_after_result_write')
        d = max((float(np.max(np.abs(x - y))) if x.shape == y.shape and x.size else
                 (0.0 if x.shape == y.shape else float('inf'))) for x, y in zip(snap_out, again, strict=True))
        scale = max([1.0] + [float(np.max(np.abs(x))) for x in snap_out if x.size])
        if not d <= 1e-12 * scale:
            ctx.violation('repeat_after_result_write',
                          f'{entry}: after the first result was overwritten in place the same call gives a result '
                          f'that differs by {d:.3g}', {'monitor': 'aliasing', 'case': st.case_descr}, entry=entry)
        ctx.hit('aliasing: ' + entry)
        ctx.case(('aliasing', entry, kind, U))

    fields = [c.symmetry_line, c.center_of_base, c.radius, c.height]
    # the axis is rescaled by the argument write (v * 1.25 + 0.5 is no unit vector): nothing is CALLED while
    # the arguments hold those values, they are restored first
    E = ALIAS_ENTRIES
    sp_o = sc.vectors(dims=['ray'], values=P[12:24], unit=U)
    dr_o = sc.vectors(dims=['ray'], values=np.roll(N[:12], 5, axis=0))
    alias(E[0], lambda: c.beam_intersection(sp, dr), [sp, dr, *fields], lambda r: [r],
          lambda: c.beam_intersection(sp_o, dr_o))
    sp0, dr0 = sp['ray', 1].copy(), dr['ray', 1].copy()
    alias(E[1], lambda: c.beam_intersection(sp0, dr0), [sp0, dr0, *fields], lambda r: [r],
          lambda: c.beam_intersection(sp_o['ray', 3].copy(), dr_o['ray', 4].copy()))
    alias(E[2], lambda: c.quadrature(kind), fields, lambda r: [r[0], r[1]])
    mat_fields = [dens, m.scattering_params.total_scattering_cross_section,
                  m.scattering_params.absorption_cross_section]
    det_o = sc.vectors(dims=['det'], values=D[n_det:2 * n_det], unit=U)
    alias(E[3], lambda: ctm(c, m, bv, lam, det, kind), [lam, det, bv, *fields, *mat_fields],
          lambda r: [r.data], lambda: ctm(c, m, bv, lam, det_o, kind))
    det0 = det['det', 0].copy()
    alias(E[4], lambda: ctm(c, m, bv, lam, det0, kind), [lam, det0, bv, *fields, *mat_fields],
          lambda r: [r.data])
    m0 = Material(m.scattering_params, sc.scalar(0.0, unit=dens.unit))
    alias(E[5], lambda: ctm(c, m0, bv, lam, det, kind),
          [lam, det, bv, *fields, m0.effective_sample_number_density], lambda r: [r.data])
    ctx.count('aliasing: coordinates of the map are the inputs (scipp DataArray semantics, not judged)')
    st.maps.clear()
    st.case_descr = None
    return s


# ------------------------------------------------ strings that are not NFC / NFKC ---
UNICODE_PAIRS = (
    ('e + U+0301 / U+00E9', 'e\u0301', '\u00e9'),
    ('ANGSTROM SIGN U+212B / U+00C5', '\u212b', '\u00c5'),
    ('KELVIN SIGN U+212A / K', '\u212a', 'K'),
    ('OHM SIGN U+2126 / U+03A9', '\u2126', '\u03a9'),
    ('MICRO SIGN U+00B5 / U+03BC', '\u00b5', '\u03bc'),
    ('fullwidth det / det', '\uff44\uff45\uff54', 'det'),
    ('ligature U+FB01 / fi', '\ufb01', 'fi'),
    ('conjoining jamo U+1100 U+1161 / U+AC00', '\u1100\u1161', '\uac00'),
    ('GREEK QUESTION MARK U+037E / semicolon', '\u037e', ';'),
)
UNICODE_KIND_FORMS = ('fullwidth letters', 'mathematical bold letters')


def _kind_lookalike(kind, form):
    if form == 'fullwidth letters':
        return ''.join(chr(ord(ch) - ord('a') + 0xff41) for ch in kind)
    return ''.join(chr(ord(ch) - ord('a') + 0x1d41a) for ch in kind)


def unicode_case(rng, st, mods, i):
    """(n) dimension labels that are not in NFC / NFKC form, used in pairs that normalise to the same
    text: they are two dims; the map / the table carries exactly the labels that were given (code point
    by code point) and the numbers are those of the call with plain labels.  A quadrature kind that only
    normalises to the name of a kind is not that kind: it is refused like any unknown name."""
    import unicodedata
    ctx = st.ctx
    Cylinder, Material, ScatteringParams, ctm = mods
    s = _moderate_solid(rng, ctx)
    U = s['U']
    c = make_cylinder(Cylinder, s)
    lam_A, lam, D, det, beam = _scene(rng, s, 6, 2)
    m = _plain_material(mods, s, lam_A, float(rng.uniform(0.4, 2.5)))
    bv = sc.vector(beam)
    kind = 'cheap'
    P, N = bulk_rays(rng, s, 8)
    grid = sc.vectors(dims=['a', 'b'], values=D.reshape(2, 3, 3), unit=U)

    def the_map(label, lam_, det_):
        st.case_descr = {'kind': 'unicode labels', 'class': label,
                         'dims': [[hex(ord(ch)) for ch in d] for d in (*lam_.dims, *det_.dims)]}
        st.maps.clear()
        try:
            res = ctm(c, m, bv, lam_, det_, kind)
        except Exception:  # noqa: BLE001  judged by the map monitor
            res = None
        ctx.case(('unicode labels', label, U))
        return res, _last_T(st)

    _, ref = the_map('plain labels', lam, det)
    _, ref2 = the_map('plain labels, 2-d detectors', lam, grid)
    for k, (label, a, b) in enumerate(UNICODE_PAIRS):
        if unicodedata.normalize('NFKC', a) != unicodedata.normalize('NFKC', b) or a == b:
            ctx.oracle_error('C18 unicode pair is not a pair of distinct equivalent strings')
            continue
        if (i + k) % 2:
            a, b = b, a
        res, t = the_map(label, lam.rename_dims(wavelength=a), det.rename_dims(det=b))
        _same_map(st, ref, t, label, 'unicode_labels_same_map')
        ok = res is not None
        if res is not None:
            ctx.event('unicode.labels_exact')
            if dict(res.sizes) != {a: lam.sizes['wavelength'], b: det.sizes['det']}:
                ok = False
                ctx.violation('unicode_label_changed',
                              f'{label}: dims of the map {[[hex(ord(ch)) for ch in d] for d in res.dims]} are not '
                              'the labels that were given, code point by code point',
                              {'monitor': 'unicode labels', 'case': st.case_descr}, entry='compute_transmission_map')
        res, t = the_map(label + ' (2-d detectors)', lam, grid.rename_dims(a=a, b=b))
        _same_map(st, ref2, t, label, 'unicode_labels_same_map')
        if res is not None:
            ctx.event('unicode.labels_exact')
            if dict(res.sizes) != {a: 2, b: 3, 'wavelength': lam.sizes['wavelength']}:
                ok = False
                ctx.violation('unicode_label_changed',
                              f'{label}: dims of the map {[[hex(ord(ch)) for ch in d] for d in res.dims]} are not '
                              'the labels that were given, code point by code point',
                              {'monitor': 'unicode labels', 'case': st.case_descr}, entry='compute_transmission_map')
        # one such label alone (nothing it could collide with)
        for lab in (a, b):
            if unicodedata.normalize('NFC', lab) == lab and unicodedata.normalize('NFKC', lab) == lab:
                continue
            res, t = the_map(label + ' (one label alone)', lam, det.rename_dims(det=lab))
            _same_map(st, ref, t, label, 'unicode_labels_same_map')
            if res is not None:
                ctx.event('unicode.labels_exact')
                if dict(res.sizes) != {lab: det.sizes['det'], 'wavelength': lam.sizes['wavelength']}:
                    ok = False
                    ctx.violation('unicode_label_changed',
                                  f'{label}: dims of the map {[[hex(ord(ch)) for ch in d] for d in res.dims]} are '
                                  'not the labels that were given, code point by code point',
                                  {'monitor': 'unicode labels', 'case': st.case_descr},
                                  entry='compute_transmission_map')
        # beam_intersection: start points over one label, directions over the equivalent one
        st.case_descr = {'kind': 'unicode labels', 'class': label, 'entry': 'beam_intersection'}
        st.layout, st.ray_classes = 'outer product over two labels that normalise to the same text', None
        before = st.outer_returns
        try:
            c.beam_intersection(sc.vectors(dims=[a], values=P[:3], unit=U), sc.vectors(dims=[b], values=N[3:7]))
        except Exception:  # noqa: BLE001  judged by the monitor (dims of the table against the broadcast by label)
            pass
        st.layout = None
        if ok and st.outer_returns > before:
            ctx.hit('unicode dims: ' + label)
    # kind names
    for form in UNICODE_KIND_FORMS:
        for kn in KINDS:
            name = _kind_lookalike(kn, form)
            if unicodedata.normalize('NFKC', name) != kn or name == kn:
                ctx.oracle_error('C18 unicode kind look-alike')
                continue
            st.case_descr = {'kind': 'unicode kind name', 'form': form, 'normalises_to': kn,
                             'code_points': [hex(ord(ch)) for ch in name]}
            for entry, f in (('quadrature', lambda name=name: c.quadrature(name)),
                             ('compute_transmission_map', lambda name=name: ctm(c, m, bv, lam, det, name))):
                st.maps.clear()
                try:
                    f()
                    returned = True
                except Exception as e:  # noqa: BLE001
                    returned = False
                    ctx.count(f'refused:kind_name_that_only_normalises_to_a_kind:{type(e).__name__}')
                ctx.event('unicode.kind_name')
                if returned:
                    ctx.violation('kind_name_not_exact',
                                  f'{entry}: a kind written in {form} (it only normalises to {kn!r}) was accepted',
                                  {'monitor': 'unicode kind name', 'case': st.case_descr}, entry=entry)
            ctx.case(('unicode kind name', form, kn))
        ctx.hit('unicode kind name: ' + form)
    st.maps.clear()
    st.case_descr = None
    return s


# --------------------------------------------- first call in a fresh interpreter ---
FRESH_MODES = ('cylinder module only, beam_intersection first', 'base module, compute_transmission_map first',
               'cylinder module only, quadrature first', 'base module, compute_transmission_map first (other hash seed)')
FRESH_LAYOUTS = (('flat', ('det',), None), ('2-d', ('row', 'col'), (2, 3)), ('2-d', ('tube', 'pixel'), (3, 2)),
                 ('2-d', ('y', 'x'), (2, 3)), ('2-d', ('pixel', 'tube'), (3, 2)),
                 ('3-d', ('bank', 'tube', 'pixel'), (1, 3, 2)), ('3-d', ('a', 'b', 'c'), (3, 1, 2)))

_FRESH_SCRIPT = r'''
import json, sys
d = json.load(sys.stdin)
import numpy as np
import scipp as sc
fh = float.fromhex
def arr(x):
    return np.array([fh(v) for v in x['hex']], dtype=np.float64).reshape(x['shape'])
def vecs(x):
    a = arr(x)
    if not x['dims']:
        return sc.vector(a.reshape(3), unit=x['unit'])
    return sc.vectors(dims=x['dims'], values=a, unit=x['unit'])
def scal(x):
    a = arr(x)
    if not x['dims']:
        return sc.scalar(float(a.reshape(())), unit=x['unit'])
    return sc.array(dims=x['dims'], values=a, unit=x['unit'])
def out(v):
    a = np.asarray(v.values, dtype=np.float64)
    return {'dims': list(v.dims), 'shape': list(a.shape), 'unit': str(v.unit),
            'hex': [float(t).hex() for t in a.ravel()]}
rep = {'results': [], 'import_exc': None}
try:
    if d['mode'] == 'cylinder':
        import scippneutron.absorption.cylinder as M
        Cylinder = M.Cylinder
    else:
        import scippneutron.absorption.base as M
        from scippneutron.absorption.cylinder import Cylinder
        from scippneutron.absorption.material import Material
    rep['file'] = M.__file__
except Exception as e:
    rep['import_exc'] = repr(e)
if rep['import_exc'] is None:
    c = Cylinder(vecs(d['axis']), vecs(d['base']), scal(d['radius']), scal(d['height']))
    for call in d['calls']:
        try:
            if call['f'] == 'beam_intersection':
                r = out(c.beam_intersection(vecs(call['start_point']), vecs(call['direction'])))
            elif call['f'] == 'quadrature':
                p, w = c.quadrature(call['kind'])
                r = {'points': out(p), 'weights': out(w)}
            elif call['f'] == 'volume':
                r = out(c.volume)
            else:
                class Params:
                    pass
                sp = Params()
                sp.total_scattering_cross_section = scal(call['sigma_s'])
                sp.absorption_cross_section = scal(call['sigma_a'])
                mat = Material(sp, scal(call['density']))
                res = M.compute_transmission_map(c, mat, vecs(call['beam']), scal(call['wavelength']),
                                                 vecs(call['detector_position']), call['kind'])
                r = out(res.data)
            rep['results'].append({'ok': r})
        except Exception as e:
            rep['results'].append({'exc': repr(e)})
rep['hash_seed'] = __import__('os').environ.get('PYTHONHASHSEED')
rep['flags'] = [sys.flags.optimize]
sys.stdout.write('RVJSON' + json.dumps(rep))
'''


def _enc(v):
    a = np.asarray(v.values, dtype=np.float64)
    return {'dims': list(v.dims), 'shape': list(a.shape), 'unit': str(v.unit),
            'hex': [float(t).hex() for t in a.ravel()]}


def _dec(x):
    a = np.array([float.fromhex(t) for t in x['hex']], dtype=np.float64).reshape(x['shape'])
    return list(x['dims']), a, x['unit']


def fresh_process_case(rng, st, mods, mode_index, shard):
    """(o) a subprocess that imports only the module of the entry point (plus the modules of the classes
    of its arguments), under a hash seed other than the worker's, calls it once (then the other entry
    points): it must answer what the worker process answers for the same inputs (those calls are judged by
    the monitors here).  The 2-d / 3-d detector layouts make the order of sets of dim labels visible."""
    import json
    import os
    import subprocess
    import sys
    ctx = st.ctx
    Cylinder, Material, ScatteringParams, ctm = mods
    mode = FRESH_MODES[mode_index]
    s = _moderate_solid(rng, ctx)
    U = s['U']
    c = make_cylinder(Cylinder, s)
    lam_A, lam, D, det, beam = _scene(rng, s, 6, 2)
    m = _plain_material(mods, s, lam_A, float(rng.uniform(0.4, 2.5)))
    bv = sc.vector(beam)
    kind = KINDS[mode_index % 2]
    P, N = bulk_rays(rng, s, 10)
    sp = sc.vectors(dims=['ray'], values=P, unit=U)
    dr = sc.vectors(dims=['ray'], values=N)
    calls, local = [], []
    beam_call = {'f': 'beam_intersection', 'start_point': _enc(sp), 'direction': _enc(dr)}
    quad_call = {'f': 'quadrature', 'kind': kind}
    if mode_index in (0, 2):
        order = (beam_call, quad_call) if mode_index == 0 else (quad_call, beam_call)
        calls.extend(order)
        calls.append({'f': 'volume'})
    else:
        spar = m.scattering_params
        for name, dims, shape in FRESH_LAYOUTS:
            dv = det if shape is None else sc.vectors(dims=list(dims), values=D.reshape(*shape, 3), unit=U)
            calls.append({'f': 'map', 'kind': kind, 'beam': _enc(bv), 'wavelength': _enc(lam),
                          'detector_position': _enc(dv), 'density': _enc(m.effective_sample_number_density),
                          'sigma_s': _enc(spar.total_scattering_cross_section),
                          'sigma_a': _enc(spar.absorption_cross_section)})
            local.append(dv)
        calls.extend((quad_call, beam_call))
    hash_seed = 1 + (shard['seed'] * 7919 + shard['index'] * 104729 + mode_index) % 4_000_000
    payload = {'mode': 'cylinder' if mode_index in (0, 2) else 'base', 'axis': _enc(c.symmetry_line),
               'base': _enc(c.center_of_base), 'radius': _enc(c.radius), 'height': _enc(c.height), 'calls': calls}
    env = dict(os.environ, PYTHONHASHSEED=str(hash_seed))
    st.case_descr = {'kind': 'fresh interpreter', 'mode': mode, 'hash_seed': hash_seed, 'quadrature': kind}
    try:
        p = subprocess.run([sys.executable, '-c', _FRESH_SCRIPT], input=json.dumps(payload), env=env,
                           capture_output=True, text=True, timeout=300)
        if p.returncode != 0 or 'RVJSON' not in p.stdout:
            ctx.inconclusive_because('C18 fresh-interpreter helper failed outside the calls under test: '
                                     + (p.stderr or '')[-300:])
            return s
        rep = json.loads(p.stdout.split('RVJSON', 1)[1])
    except subprocess.TimeoutExpired:
        ctx.inconclusive_because('C18 fresh-interpreter helper hit its watchdog')
        return s
    except Exception:  # noqa: BLE001
        ctx.oracle_error('C18 fresh-interpreter helper')
        return s
    case = {'monitor': 'fresh interpreter', 'case': st.case_descr}
    if rep.get('import_exc'):
        ctx.event('fresh_process.import')
        ctx.violation('fresh_process_import_failed',
                      f'{mode}: importing the module in a fresh interpreter raised {rep["import_exc"]}', case,
                      mode=payload['mode'])
        return s
    want_src = os.path.realpath(os.environ.get('RV_REPO_SRC', '/repo/src'))
    if not os.path.realpath(rep.get('file', '')).startswith(want_src + os.sep):
        ctx.inconclusive_because(f'C18 fresh interpreter imported {rep.get("file")}, not the tree under test')
        return s
    ctx.event('fresh_process.import')

    def compare(label, entry, got, ref_dims, ref_vals, scale):
        """got: encoded Variable of the subprocess; ref: what the worker answered."""
        dims, a, _unit = _dec(got)
        ctx.event('fresh_process.same_result')
        if set(dims) != set(ref_dims) or len(dims) != len(ref_dims):
            ctx.violation('fresh_process_differs', f'{label}: dims {dims} in the fresh interpreter, {ref_dims} here',
                          case, entry=entry)
            return
        if dims:
            a = np.transpose(a, [dims.index(d) for d in ref_dims] + list(range(len(dims), a.ndim)))
        d_ = float(np.max(np.abs(a - ref_vals))) if a.shape == ref_vals.shape and a.size else (
            0.0 if a.shape == ref_vals.shape else float('inf'))
        ctx.dev(f'fresh interpreter: |result - result in the worker| / scale [{entry}]', d_ / scale)
        if not d_ <= 1e-12 * scale:
            ctx.violation('fresh_process_differs',
                          f'{label}: the first call in a fresh interpreter (PYTHONHASHSEED={hash_seed}) differs '
                          f'from the same call in the worker by {d_:.3g}',
                          dict(case, fresh=a.ravel()[:6].tolist(), worker=ref_vals.ravel()[:6].tolist()),
                          entry=entry)

    k_map = 0
    for call, r in zip(calls, rep['results'], strict=False):
        f = call['f']
        label = f'{mode}: {f}'
        st.case_descr = dict(st.case_descr, call=f)
        st.maps.clear()
        st.ray_classes = None
        try:
            if f == 'beam_intersection':
                ref = c.beam_intersection(sp, dr)
            elif f == 'quadrature':
                ref = c.quadrature(kind)
            elif f == 'volume':
                ref = c.volume
                judge_props(st, c, 'fresh interpreter')
            else:
                dv = local[k_map]
                label += f' [{FRESH_LAYOUTS[k_map][0]} {"/".join(FRESH_LAYOUTS[k_map][1])}]'
                k_map += 1
                ref = ctm(c, m, bv, lam, dv, kind)
        except Exception:  # noqa: BLE001  judged by the monitors
            ref = None
        if ref is None:
            ctx.count('fresh interpreter: the call raised in the worker (judged there)')
            continue
        if 'exc' in r:
            ctx.event('fresh_process.same_result')
            ctx.violation('fresh_process_raised',
                          f'{label}: raised {r["exc"]} in a fresh interpreter (PYTHONHASHSEED={hash_seed}), '
                          'returned in the worker', case, entry=f)
            continue
        g = r['ok']
        if f == 'quadrature':
            compare(label + ' points', f, g['points'], list(ref[0].dims), _vals(ref[0]),
                    float(np.max(np.abs(_vals(ref[0])))) or 1.0)
            compare(label + ' weights', f, g['weights'], list(ref[1].dims), _vals(ref[1]),
                    float(np.max(np.abs(_vals(ref[1])))) or 1.0)
        elif f == 'beam_intersection':
            compare(label, f, g, list(ref.dims), _vals(ref), (s['r'] + s['h']))
        elif f == 'volume':
            compare(label, f, g, [], _vals(ref), float(ref.value))
        else:
            compare(label, 'compute_transmission_map', g, list(ref.data.dims), _vals(ref.data), 1.0)
        ctx.case(('fresh interpreter', mode, f, kind))
    if len(rep['results']) == len(calls):
        ctx.hit('fresh interpreter: ' + mode)
    st.maps.clear()
    st.case_descr = None
    return s


# ------------------------------------------- every field of ScatteringParams populated ---
# The documented attenuation law names two fields of the material's ScatteringParams (total
# scattering and absorption cross-section).  Real parameter sets carry seven more (coherent /
# incoherent cross-sections, four scattering lengths); the law does not read them.  Each field the
# law names takes every kind of value it can have (exactly 0, tiny, ordinary), the fields it does not
# name carry large unrelated values in every arrangement a parameter set allows.
LAW_VALUE_CLASSES = ('exactly 0', 'tiny', 'ordinary')
LAW_FIELD_CLASSES = tuple(f'total scattering {a} x absorption {b}'
                          for a in LAW_VALUE_CLASSES for b in LAW_VALUE_CLASSES)
OTHER_FIELD_CLASSES = (
    'every field populated, large unrelated values, other units',
    'table isotope (ScatteringParams.for_isotope), law fields replaced',
    'coherent cross-section only (others None)',
    'incoherent cross-section only (others None)',
    'coherent and incoherent cross-sections exactly 0, total not their sum',
    'fields outside the law carry variances',
    'negative / complex-part scattering lengths, cross-sections in one unit',
)
TABLE_ISOTOPES = ('V', 'H', 'Cd', '3He', 'Gd', 'Ni', '10B', 'Al')
FULL_KIND = 'every field of ScatteringParams'


def _full_tag(st):
    d = st.case_descr
    return isinstance(d, dict) and d.get('kind') == FULL_KIND


def full_fields_case(rng, st, mods, i):
    """Materials from real ScatteringParams with every field populated: the attenuation coefficient
    (judge_mu) and the map (judge_map) follow the law in the two fields it names, whatever the other
    fields hold; the map is the one of the parameter set that has the two named fields only."""
    import dataclasses
    ctx = st.ctx
    Cylinder, Material, ScatteringParams, ctm = mods
    s = _moderate_solid(rng, ctx)
    c = make_cylinder(Cylinder, s)
    lam_A, lam, D, det, beam = _scene(rng, s, 3, 3, ('angstrom', 'nm')[i % 2])
    size_m = (s['r'] + s['h']) * float(si.factor(sc.Unit(s['U'])))
    tau = float(rng.uniform(0.4, 2.5))
    # density: optical depth tau across the solid for a cross-section of 10 barn, whatever the fields
    # are (so that a material WITHOUT attenuation has an ordinary density and ordinary other fields)
    d_u = DENS_UNITS[int(rng.integers(0, len(DENS_UNITS)))]
    n_si = tau / (size_m * 10.0e-28)
    dens = sc.scalar(n_si / float(si.factor(sc.Unit(d_u))), unit=d_u)

    def xs(value_si, unit, variance=False):
        v = value_si / float(si.factor(sc.Unit(unit)))
        return sc.scalar(v, variance=(0.05 * v) ** 2, unit=unit) if variance else sc.scalar(v, unit=unit)

    def law_value(cls, top_barn, k):
        if cls == 'exactly 0':
            return -0.0 if (i + k) % 4 == 3 else 0.0
        if cls == 'tiny':
            return 1e-28 * 10.0 ** rng.uniform(-150, -20)
        return 1e-28 * float(rng.uniform(0.2, 1.0)) * top_barn

    def length(scale=1.0, variance=False):
        v = float(rng.choice([-1.0, 1.0]) * 10.0 ** rng.uniform(0, 2.5)) * scale
        return sc.scalar(v, variance=(0.1 * v) ** 2, unit='fm') if variance else sc.scalar(v, unit='fm')

    def others(profile, u_law):
        """The seven fields the law does not name, by arrangement."""
        u_other = XS_UNITS[(XS_UNITS.index(u_law) + 1 + int(rng.integers(0, 3))) % len(XS_UNITS)]
        big = lambda: 1e-28 * 10.0 ** rng.uniform(0.7, 2.7)       # noqa: E731   5 .. 500 barn
        if profile == 0:
            return dict(coherent_scattering_length_re=length(), coherent_scattering_length_im=length(),
                        incoherent_scattering_length_re=length(), incoherent_scattering_length_im=length(),
                        coherent_scattering_cross_section=xs(big(), u_other),
                        incoherent_scattering_cross_section=xs(big(), XS_UNITS[int(rng.integers(0, 4))]))
        if profile == 2:
            return dict(coherent_scattering_cross_section=xs(big(), u_other))
        if profile == 3:
            return dict(incoherent_scattering_cross_section=xs(big(), u_other))
        if profile == 4:
            return dict(coherent_scattering_length_re=sc.scalar(0.0, unit='fm'),
                        coherent_scattering_length_im=sc.scalar(0.0, unit='fm'),
                        incoherent_scattering_length_re=sc.scalar(0.0, unit='fm'),
                        incoherent_scattering_length_im=sc.scalar(0.0, unit='fm'),
                        coherent_scattering_cross_section=sc.scalar(0.0, unit=u_other),
                        incoherent_scattering_cross_section=sc.scalar(0.0, unit=u_law))
        if profile == 5:
            return dict(coherent_scattering_length_re=length(variance=True),
                        coherent_scattering_length_im=length(variance=True),
                        incoherent_scattering_length_re=length(variance=True),
                        incoherent_scattering_length_im=length(variance=True),
                        coherent_scattering_cross_section=xs(big(), u_other, variance=True),
                        incoherent_scattering_cross_section=xs(big(), u_law, variance=True))
        return dict(coherent_scattering_length_re=-abs(length()), coherent_scattering_length_im=-abs(length(0.01)),
                    incoherent_scattering_length_re=-abs(length()), incoherent_scattering_length_im=length(0.01),
                    coherent_scattering_cross_section=xs(big(), u_law),
                    incoherent_scattering_cross_section=xs(big(), u_law))

    def build(profile, total, absorption, u_law, k):
        if profile == 1:
            name = TABLE_ISOTOPES[(i + k) % len(TABLE_ISOTOPES)]
            try:
                base = ScatteringParams.for_isotope(name)
            except Exception:  # noqa: BLE001   the table is not a C18 matter
                ctx.count('every_field:table_lookup_failed')
                return None
            return dataclasses.replace(base, total_scattering_cross_section=total,
                                       absorption_cross_section=absorption)
        return ScatteringParams('Model', total_scattering_cross_section=total,
                                absorption_cross_section=absorption, **others(profile, u_law))

    def mu_call(m, label):
        try:
            m.attenuation_coefficient(lam)
        except Exception:  # noqa: BLE001  judged by the monitor
            pass
        ctx.case(('every field', 'mu', label))

    def map_call(m, label):
        st.maps.clear()
        try:
            ctm(c, m, sc.vector(beam), lam, det, 'cheap')
        except Exception:  # noqa: BLE001  judged by the map monitor
            pass
        ctx.case(('every field', 'map', label, s['U']))
        return _last_T(st)

    n_prof = len(OTHER_FIELD_CLASSES)
    for k, law_cls in enumerate(LAW_FIELD_CLASSES):
        ca, cb = LAW_VALUE_CLASSES[k // 3], LAW_VALUE_CLASSES[k % 3]
        u_tot = XS_UNITS[int(rng.integers(0, len(XS_UNITS)))]
        u_abs = XS_UNITS[int(rng.integers(0, len(XS_UNITS)))] if k % 2 else u_tot
        # ordinary values: total up to 6 barn, absorption up to 4 barn x lambda / lambda_ref at the longest
        total = xs(law_value(ca, 6.0, k), u_tot)
        absorption = xs(law_value(cb, 4.0 * 1.7982 / float(lam_A[-1]), k + 1), u_abs)
        descr = {'kind': FULL_KIND, 'law_fields': law_cls, 'total': [repr(float(total.value)), u_tot],
                 'absorption': [repr(float(absorption.value)), u_abs], 'lam_angstrom': lam_A.tolist()}
        bare = Material(ScatteringParams('Bare', total_scattering_cross_section=total.copy(),
                                         absorption_cross_section=absorption.copy()), dens.copy())
        mats = {}
        for p, other_cls in enumerate(OTHER_FIELD_CLASSES):
            try:
                sp = build(p, total.copy(), absorption.copy(), u_tot, k)
            except Exception:  # noqa: BLE001
                ctx.oracle_error('C18 every-field parameter set')
                continue
            if sp is None:
                continue
            mats[p] = Material(sp, dens.copy())
            st.case_descr = dict(descr, other_fields=other_cls)
            mu_call(mats[p], f'{law_cls} / {other_cls}')
            ctx.hit('fields outside the law: ' + other_cls)
        # the map: two arrangements per class of law fields (the pairing moves with the shard), against
        # the map of the parameter set that has only the two fields the law names
        st.case_descr = dict(descr, other_fields='None (only the two fields of the law)')
        t_bare = map_call(bare, f'{law_cls} / bare')
        for p in dict.fromkeys(((i + k) % n_prof, (i + 2 * k + 1) % n_prof)):
            if p not in mats:
                continue
            st.case_descr = dict(descr, other_fields=OTHER_FIELD_CLASSES[p])
            t_full = map_call(mats[p], f'{law_cls} / {OTHER_FIELD_CLASSES[p]}')
            _same_map(st, t_bare, t_full, law_cls, 'fields_outside_the_law_same_map')
        if mats:
            ctx.hit('law fields: ' + law_cls)
    st.maps.clear()
    st.case_descr = None
    return s



# ---------------------------------------------------------------------- driver ---
def plan(tier, seed):
    # the one heavy case of a run has the last shard for itself (quick) / rides on it (thorough)
    # the generic large operands ride on the last regular shard (quick) / on shard 14 (thorough)
    # round-7 classes: sizes coinciding with internal sizes, in-place modification / aliasing, labels that are
    # not NFC on every shard; the 'expensive' rule with as many pixels as nodes once per run; the fresh
    # interpreters (one subprocess each, four modes / hash seeds) on shards 1..4
    if tier == 'quick':
        return [{'rays': 60, 'quads': 48, 'trans': 8, 'state': 5, 'mat_state': 4, 'layouts': 3,
                 'det_layouts': 1, 'units': 1, 'poly': 1, 'conv': 1, 'reuse': 1, 'var': 1, 'map_dims': 1,
                 'coin': 1, 'coin_expensive': i == 13, 'alias': 1, 'unicode': 1, 'fields': 1,
                 'fresh': i - 1 if 1 <= i <= 4 else None,
                 'sizes': i == 14, 'heavy': False}
                for i in range(15)] + [
            {'rays': 0, 'quads': 0, 'trans': 0, 'state': 0, 'mat_state': 0, 'heavy': True}]
    return [{'rays': 3000, 'quads': 2250, 'trans': 200, 'state': 150, 'mat_state': 50,
             'layouts': 150, 'det_layouts': 30, 'units': 9, 'poly': 25, 'conv': 10, 'reuse': 10, 'var': 10,
             'map_dims': 10, 'coin': 6, 'coin_expensive': i in (3, 13), 'alias': 12, 'unicode': 4, 'fields': 6,
             'fresh': i % 4 if i < 12 else None,
             'sizes': i == 14, 'heavy': i == 15} for i in range(16)]


def requirements(tier):
    ev = {
        'beam_intersection.direct': 200, 'beam_intersection.in_situ': 200,
        'oracle.sampled_selfcheck': 400,
        'helper.positive_interval': 200, 'helper.slab': 200, 'helper.infinite_cylinder': 200,
        'quadrature.nodes': 300, 'quadrature.rigid_image': 300, 'select_quadrature_points': 300,
        'transmission.value': 100, 'transmission.zero_density': 20, 'transmission.monotone': 20,
        'transmission.rigid_motion': 20, 'transmission.other_end': 20,
        'attenuation_coefficient': 100, 'single_scatter_distance': 100,
        'integrate.normalisation': 100,
        'state.exercised': 300, 'state.volume': 300, 'state.center': 300,
        'transmission.loop_vs_vectorised': 4,
        'beam_intersection.dims.direct': 400, 'beam_intersection.dims.in_situ': 200,
        'beam_intersection.layout': 40 * (len(LAYOUTS) - 3), 'transmission.detector_layout': 50,
        'units.exercised': 300,
        'standin.map_called': 200, 'transmission.monotone_wavelength': 100,
        'standin_shape_same_map': 20, 'call_form_same_map': 60, 'graph_node.result': 20,
        'second_use_same_map': 60, 'map_dim_names_same_map': 80,
        'attenuation_coefficient.variances': 30, 'state.volume.variances': 30,
        'map_same_pixels_in_batches': 60, 'inplace.same_objects_vs_fresh_copies': 20,
        'inplace_same_objects_vs_fresh_copies': 60, 'aliasing.result_after_argument_write': 60,
        'aliasing.arguments_after_result_write': 60, 'aliasing.repeat_after_result_write': 60,
        'aliasing.result_after_later_call': 30,
        'unicode_labels_same_map': 200, 'unicode.labels_exact': 200, 'unicode.kind_name': 100,
        'fresh_process.import': 4, 'fresh_process.same_result': 20,
        'attenuation_coefficient.every_field_populated': 800,
        'attenuation_coefficient.every_field_populated.law_fields_zero': 90,
        'transmission.value.every_field_populated': 200,
        'transmission.zero_attenuation.every_field_populated': 20,
        'fields_outside_the_law_same_map': 100,
    }
    forced = list(FORCED_AXIS.values()) + [
        'axis z<0', 'axis in the xy-plane at a generic angle',
        'axis in the xy-plane, float64 norm rounds above 1', 'base at +-1e3', 'origin inside', 'origin outside', 'origin on surface',
        'dir exactly parallel', 'dir parallel within 1e-9', 'dir parallel to rounding', 'dir tangent',
        'dir through edge', 'wavelength 0.1 and 20 angstrom', 'detector in forward/backward direction',
        'quadrature with h/r at a node-count threshold', 'axis just above the no-rotation tilt of 1e-10',
        'dir around the parallel-line tilt sqrt(eps)',
        'field reassigned on a live object', 'live Cylinder: field Variable modified in place',
        'Cylinder from dataclasses.replace', 'Cylinder from copy / deepcopy', 'live Material: field reassigned',
        'per-detector loop branch observed (flat list above the threshold)',
        'per-detector loop branch observed (2-d array above the threshold)',
        'vectorised branch observed (flat list just below the threshold)',
        'vectorised branch observed (small subset)']
    forced += [f'live Cylinder: {f} reassigned' for f in CYL_FIELDS]
    forced += [f'operands: {name}' for name in LAYOUTS]
    forced += ['detectors: ' + name for name in (
        'flat list', '2-d array', 'transposed view of a 2-d array', 'strided slice',
        'one pixel, length-1 array', 'one pixel, 0-d vector')]
    forced += list(UNIT_CLASSES)
    forced += ['material stand-in: ' + x for x in MATERIAL_STANDINS]
    forced += ['stand-in law: ' + x for x in LAWS]
    forced += ['stand-in fields: ' + x for x in FIELD_PROFILES]
    forced += ['shape stand-in: ' + x for x in SHAPE_STANDINS]
    forced += ['call form: ' + x for x in CALL_FORMS]
    forced += ['second use: ' + x for x in REUSE_STEPS]
    forced += ['variances: ' + x for x in VARIANCE_CLASSES]
    forced += ['map operands: ' + x for x in MAP_DIM_CLASSES]
    forced += ['sizes: ' + x for x in SIZE_CLASSES]
    forced += [f'sizes [{k}]: {x}' for k in COINCIDENCE_KINDS for x in COINCIDENCE_CLASSES]
    forced += [f'sizes [expensive]: {COINCIDENCE_CLASSES[0]}']
    forced += ['sizes: ' + x for x in RAY_COINCIDENCE_CLASSES]
    forced += ['in place: ' + x for x in INPLACE_STEPS]
    forced += ['aliasing: ' + x for x in ALIAS_ENTRIES]
    forced += ['unicode dims: ' + x[0] for x in UNICODE_PAIRS]
    forced += ['unicode kind name: ' + x for x in UNICODE_KIND_FORMS]
    forced += ['fresh interpreter: ' + x for x in FRESH_MODES]
    forced += ['law fields: ' + x for x in LAW_FIELD_CLASSES]
    forced += ['fields outside the law: ' + x for x in OTHER_FIELD_CLASSES]
    if tier == 'thorough':
        forced.append('per-detector loop branch observed (2-d array with rows above the threshold)')
        forced.append('per-detector loop branch observed (2-d array of many thin rows)')
    return {'events': ev, 'forced': forced,
            'counters': {'rays_decided': 10000, 'layout:entries_decided_with_nonzero_path': 2000,
                         'refused:operand_extents_conflict': 40,
                         'map_judged_from_nodes_of_overriding_subclass': 20}}


def _mp_selftest(ctx):
    """Path oracle against mpmath (50 digits, frame-free formulation) on a fixed sample that
    includes far origins, thin and flat solids and directions close to the axis."""
    try:
        import mpmath as mp
    except ImportError:
        ctx.inconclusive_because('mpmath not importable for the oracle self-test')
        return None
    mp.mp.dps = 50
    rng = np.random.Generator(np.random.PCG64(18))
    worst = 0.0
    n_cases = 120
    for k in range(n_cases):
        a = _sphere(rng)
        b = rng.uniform(-10, 10, size=3)
        r, h = 10.0 ** rng.uniform(-3, 3, size=2)
        far = 10.0 ** rng.uniform(0, 3) if k % 3 == 0 else 1.0
        p = b + rng.normal(size=3) * (r + h) * far
        if k % 4 == 1:
            p = b + a * h * rng.random() + _unit(np.cross(a, _sphere(rng))) * r * rng.random()
        n = _sphere(rng)
        if k % 5 == 2:
            n = _unit(a + 10.0 ** rng.uniform(-12, -3) * _sphere(rng))
        elif k % 5 == 3:
            tgt = b + a * h * rng.random() + _unit(np.cross(a, _sphere(rng))) * r * rng.random()
            n = _unit(tgt - p)
        res = cyl.path(cyl.frame(a), b, r, h, p, n)
        got = float(res['L'])
        A = mp.matrix(a.tolist())
        A = A / mp.sqrt(sum(x * x for x in A))
        w = mp.matrix(p.tolist()) - mp.matrix(b.tolist())
        nn = mp.matrix(n.tolist())
        wz, nz = sum(w[j] * A[j] for j in range(3)), sum(nn[j] * A[j] for j in range(3))
        wp, npp = w - wz * A, nn - nz * A
        qa = sum(x * x for x in npp)
        qb = sum(wp[j] * npp[j] for j in range(3))
        qc = sum(x * x for x in wp) - mp.mpf(r) ** 2
        disc = qb * qb - qa * qc
        if disc < 0:
            want = mp.mpf(0)
        else:
            lo = max(mp.mpf(0), (-qb - mp.sqrt(disc)) / qa, min(-wz / nz, (mp.mpf(h) - wz) / nz))
            hi = min((-qb + mp.sqrt(disc)) / qa, max(-wz / nz, (mp.mpf(h) - wz) / nz))
            want = max(mp.mpf(0), hi - lo) * mp.sqrt(sum(x * x for x in nn))
        scale = mp.mpf(r + h) + mp.sqrt(sum(x * x for x in w))
        # tangent-like rays: compare in the sqrt sense through the enclosure width
        slack = mp.mpf(float(res['L_out'] - res['L_in'])) * mp.mpf('1e-3')
        worst = max(worst, float(max(mp.mpf(0), abs(mp.mpf(got) - want) - slack) / scale))
    if worst > 1e-17:
        ctx.inconclusive_because(f'path oracle vs mpmath self-test off by {worst:.3g} (|p-b|+r+h)')
    return {'samples': n_cases, 'max_abs_diff_over_scale': worst}


def _safe(st, name, f):
    """A handler must never raise into the code under test."""
    def h(ev):
        try:
            f(st, ev)
        except Exception:  # noqa: BLE001
            st.ctx.oracle_error(f'C18 handler {name}')
    return h


def run(shard, ctx):
    import scippneutron.absorption.base as B
    import scippneutron.absorption.cylinder as CY
    from scippneutron.absorption import Cylinder, Material, compute_transmission_map
    from scippneutron.atoms import ScatteringParams

    bad = si.self_test()
    if bad:
        ctx.inconclusive_because('unit table cross-check failed: ' + '; '.join(bad))
        return
    st = State(ctx, shard)
    rng = np.random.Generator(np.random.PCG64([shard['seed'], shard['index'], 18]))
    tr = Tracer()
    tr.watch(Cylinder.beam_intersection, 'Cylinder.beam_intersection',
             on_return=_safe(st, 'judge_beam', judge_beam))
    tr.watch(CY._positive_interval_intersection, '_positive_interval_intersection',
             on_return=_safe(st, 'judge_positive_interval', judge_positive_interval))
    tr.watch(CY._line_slab_intersection, '_line_slab_intersection',
             on_return=_safe(st, 'judge_slab', judge_slab))
    tr.watch(CY._line_infinite_cylinder_intersection, '_line_infinite_cylinder_intersection',
             on_return=_safe(st, 'judge_infinite_cylinder', judge_infinite_cylinder))
    tr.watch(Cylinder.quadrature, 'Cylinder.quadrature',
             on_return=_safe(st, 'on_quadrature_return', on_quadrature_return))
    tr.watch(Cylinder._select_quadrature_points, 'Cylinder._select_quadrature_points',
             on_return=_safe(st, 'judge_select', judge_select))
    tr.watch(B.compute_transmission_map, 'compute_transmission_map',
             on_return=_safe(st, 'judge_map', judge_map))
    tr.watch(B._single_scatter_distance_through_sample, '_single_scatter_distance_through_sample',
             on_return=_safe(st, 'judge_single_scatter', judge_single_scatter))
    tr.watch(B._integrate_transmission_fraction, '_integrate_transmission_fraction',
             on_start=_safe(st, 'on_integrate_start', on_integrate_start),
             on_return=_safe(st, 'on_integrate_return', on_integrate_return))
    tr.watch(Material.attenuation_coefficient, 'Material.attenuation_coefficient',
             on_return=_safe(st, 'judge_mu', judge_mu))
    mods = (Cylinder, Material, ScatteringParams, compute_transmission_map)
    with tr:
        st.origin = 'direct'
        for i in range(shard['rays']):
            before = ctx.n_violations
            s = ray_case(rng, st, Cylinder, i)
            if i < 1 or ctx.n_violations > before:
                ctx.sample({'case': 'rays', 'solid': _solid_descr(s)})
        st.origin = 'quadrature'
        for i in range(shard['quads']):
            before = ctx.n_violations
            s = quad_case(rng, st, Cylinder, i)
            if i < 1 or ctx.n_violations > before:
                ctx.sample({'case': 'quadrature', 'kind': KINDS[i % 3], 'solid': _solid_descr(s)})
        st.origin = 'transmission'
        for i in range(shard['trans']):
            before = ctx.n_violations
            s = transmission_case(rng, st, mods, i, shard.get('tier'))
            if i < 1 or ctx.n_violations > before:
                ctx.sample({'case': 'transmission', 'detail': st.case_descr, 'solid': _solid_descr(s)})
        st.origin = 'state'
        for i in range(shard.get('state', 0)):
            before = ctx.n_violations
            s = state_case(rng, st, mods, i + 7 * shard['index'])
            if i < 1 or ctx.n_violations > before:
                ctx.sample({'case': 'state', 'final_solid': _solid_descr(s)})
        for i in range(shard.get('mat_state', 0)):
            material_state_case(rng, st, mods, i)
        # the later additions draw from a stream of their own (the cases above stay what they were)
        rng2 = np.random.Generator(np.random.PCG64([shard['seed'], shard['index'], 1818]))
        st.origin = 'direct'
        for i in range(shard.get('layouts', 0)):
            before = ctx.n_violations
            s = layout_case(rng2, st, Cylinder, i + 3 * shard['index'])
            if i < 1 or ctx.n_violations > before:
                ctx.sample({'case': 'operand layouts', 'solid': _solid_descr(s)})
        st.origin = 'transmission'
        for i in range(shard.get('det_layouts', 0)):
            detector_layout_case(rng2, st, mods, i + shard['index'])
        st.origin = 'state'
        for i in range(shard.get('units', 0)):
            units_case(rng2, st, mods, i + shard['index'])
        # round-6 classes: a third stream
        rng3 = np.random.Generator(np.random.PCG64([shard['seed'], shard['index'], 181818]))
        st.origin = 'transmission'
        if shard.get('poly', 0):
            SI = make_standins(mods)
        for i in range(shard.get('poly', 0)):
            before = ctx.n_violations
            s = poly_case(rng3, st, mods, SI, i + shard['index'])
            if i < 1 or ctx.n_violations > before:
                ctx.sample({'case': 'stand-ins', 'solid': _solid_descr(s)})
        for i in range(shard.get('conv', 0)):
            convention_case(rng3, st, mods, i + shard['index'])
        for i in range(shard.get('reuse', 0)):
            reuse_case(rng3, st, mods, i + shard['index'])
        st.origin = 'state'
        for i in range(shard.get('var', 0)):
            variances_case(rng3, st, mods, i + shard['index'])
        st.origin = 'transmission'
        for i in range(shard.get('map_dims', 0)):
            map_dims_case(rng3, st, mods, i + shard['index'])
        # round-7 classes: a fourth stream
        rng4 = np.random.Generator(np.random.PCG64([shard['seed'], shard['index'], 18181818]))
        for i in range(shard.get('coin', 0)):
            st.origin = 'transmission'
            every = tuple(range(len(COINCIDENCE_CLASSES)))
            coincidence_case(rng4, st, mods, i + shard['index'], 'cheap', every)
            coincidence_case(rng4, st, mods, i + shard['index'], 'medium',
                             COINCIDENCE_PARTS[(i + shard['index']) % len(COINCIDENCE_PARTS)])
            st.origin = 'direct'
            ray_coincidence_case(rng4, st, Cylinder, i + shard['index'])
        st.origin = 'transmission'
        if shard.get('coin_expensive'):
            coincidence_case(rng4, st, mods, shard['index'], 'expensive', (0,))
        for i in range(shard.get('alias', 0)):
            inplace_alias_case(rng4, st, mods, i + shard['index'])
        for i in range(shard.get('unicode', 0)):
            unicode_case(rng4, st, mods, i + shard['index'])
        if shard.get('fresh') is not None:
            fresh_process_case(rng4, st, mods, int(shard['fresh']), shard)
        # round-8 class: a fifth stream
        rng5 = np.random.Generator(np.random.PCG64([shard['seed'], shard['index'], 1818181818]))
        st.origin = 'transmission'
        for i in range(shard.get('fields', 0)):
            before = ctx.n_violations
            s = full_fields_case(rng5, st, mods, i + shard['index'])
            if i < 1 or ctx.n_violations > before:
                ctx.sample({'case': 'every field of ScatteringParams', 'solid': _solid_descr(s)})
        if shard.get('sizes'):
            st.origin = 'direct'
            sizes_case(rng3, st, Cylinder)
        if shard.get('heavy'):
            st.origin = 'transmission'
            heavy_case(rng, st, mods, shard.get('tier'))
    if shard['index'] == 0:
        ctx.extra['mpmath_selftest'] = _mp_selftest(ctx)


def _solid_descr(s):
    return {'axis_class': s['axis_cls'], 'symmetry_line': [repr(float(x)) for x in s['axis']],
            'center_of_base': [repr(float(x)) for x in s['base']], 'unit': s['U'],
            'radius': [s['r'], s['rU']], 'height': [s['h'], s['U']]}


# -------------------------------------------------------------- known findings ---
_ROTATION_KINDS = {'quad_node_outside', 'quad_rigid_image', 'transmission_rigid_motion',
                   'transmission_other_end'}


def _rotation_negative_z(v):
    """asin(|z x a|) is the wrong angle: axis with negative z-component and a rotation applied."""
    k = v.get('keys') or {}
    return (v.get('kind') in _ROTATION_KINDS and k.get('axis_z_negative') is True
            and k.get('rotation_applied') is True)


def _rotation_near_equator(v):
    """asin at |z x a| ~ 1 (axis within 1e-3 of the xy-plane): NaN nodes when the norm rounds
    above 1 (either sign of z), else (z >= 0) nodes displaced by at most ~sqrt(eps) (r + h)."""
    k = v.get('keys') or {}
    if not (k.get('axis_near_equator') is True and k.get('rotation_applied') is True):
        return False
    if v.get('kind') in {'quad_nonfinite', 'transmission_nonfinite'}:
        return True
    return (v.get('kind') in {'quad_node_outside', 'quad_rigid_image'}
            and k.get('axis_z_negative') is False and k.get('small_displacement') is True)


_NEAR_AXIS_KINDS = {'path_length', 'single_scatter_distance', 'transmission_value',
                    'transmission_rigid_motion', 'transmission_other_end'}


def _near_axis_ray(v):
    """Every failing ray (or the beam / a scattering direction of the failing map element) is
    within 1/64 rad of the axis direction without being bitwise parallel to it."""
    k = v.get('keys') or {}
    return v.get('kind') in _NEAR_AXIS_KINDS and k.get('near_axis') is True


FINDING_PREDICATES = {
    'quadrature.rotation_angle_asin.axis_z_negative': _rotation_negative_z,
    'quadrature.rotation_angle_asin.axis_near_equator': _rotation_near_equator,
    'beam_intersection.direction_near_axis': _near_axis_ray,
}

TECHNIQUE = ('runtime monitors (sys.monitoring) on beam_intersection + helpers, quadrature, '
             '_select_quadrature_points, compute_transmission_map and its helpers; long-double own-frame '
             'geometry oracle with shrunk/grown-solid enclosure, canonical-pose multiset comparison, '
             'transmission recomputed from observed nodes with oracle paths; stateful object sequences judged against '
             'the fields current at each call; looped vs vectorised evaluation compared elementwise; harness-owned '
             'subclasses / stand-ins with declared laws and nodes; call-form, second-use and dim-name variants '
             'compared with the first call')
LEVEL_TEXT = ('exploration: every observed path length (direct calls in forced ray classes and all calls '
              'made inside compute_transmission_map) is compared with the clipping of the ray against '
              'rho<=r, 0<=z<=h in a Gram-Schmidt frame; every observed quadrature is judged node by node '
              'and as a rigid image of the canonical rule; every observed transmission map is recomputed. '
              'Sampling of a continuous input space: held on the decided executions reported, not a proof.')
LEVEL_NOTE = ('trusted: numpy long double (sampled inside test per call, mpmath self-test per run), the '
              'independent SI table (cross-checked against sc.to_unit), scipp containers/broadcasting and '
              'unit conversion, the 1/v attenuation law as stated in C20')
DESIGN_REF = 'DESIGN.md section 4, C18; section 4a row C18; section 6 item 11'
