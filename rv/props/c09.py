"""C09 Computations never modify their arguments; results do not depend on call history."""

from __future__ import annotations

import glob
import importlib
import io
import itertools
import json
import os
import subprocess
import sys
import tempfile
import time

import numpy as np
import scipp as sc

from rv.ctx import Ctx
from rv.mutmon import MutationMonitor
from rv.snap import describe, fp
from rv.trace import Tracer

ID = 'C09'
LEVEL = 'exploration'
RULE = (
    'oracle A (mutation): every function/method of the computational modules is observed through its code '
    'object; at the outermost observed frame all argument objects are fingerprinted bit-exactly at entry and at '
    'return. Workloads: (1) the hostile workloads of the other property modules re-run with this monitor riding '
    'along, (2) an aliasing grid: entry points called with arguments already in the unit/dtype the function '
    'converts to (so internal copy=False conversions alias), as plain arrays and as slices of '
    'larger caller-owned arrays, (2b) a value grid: every computational entry point called with caller-owned '
    'arguments that are NOT in canonical form in every way the code normalises / sorts / clips / wraps / rescales '
    '(vectors of any length and direction, unsorted / reversed arrays, windows in any order or beyond the data, '
    'angles beyond one turn, negative frequencies and frequencies in other units, swapped min/max, far-away '
    'positions, zero / non-finite / masked values), each facet a forced class, each argument as a plain object, as a '
    'contiguous slice (scalars: a 0-d element) and as a strided slice of a larger caller-owned buffer whose '
    'fingerprint is compared as well; (2c) the same grid over the other things a caller owns or chooses: '
    'CONFIGURATION OBJECTS (FitParameters / FitRequirements fields holding negative, zero, in-range, one, above-one, '
    'large, NaN, inf values and other numeric types; Cylinder / Material / user-made ScatteringParams; Person / '
    'Beamline / Source / Software models and CIF schemas handed to the CIF builder; SQW model dataclasses), VALUE '
    'CLASSES OF VARIANCES (some / all negative, zero, NaN, inf, subnormal / huge; float64 and float32) and MASKS '
    '(all-False, all-True, several; per-pixel, bin-level and event-level on binned data) for every entry point that '
    'takes data, operands / coordinates with variances, caller dims named like dims used inside the package, every '
    'calling convention of the signature and the kernels as transform_coords graph nodes, numpy scalars / str-Enum / '
    'IntEnum members for str / int / bool parameters, one-shot iterators for collections, results fed back and the '
    'same objects used again, stand-in subclasses / duck types overriding the polymorphic methods, and display / '
    'copy / deepcopy / pickle / == of package objects between two identical computations (object unchanged and same '
    'result); every case is run a SECOND time with the very same objects in one of its layouts (also after a call '
    'that raised); one shard holds the sizes beyond the thresholds in the code (20_000_000 points x detectors, SQW '
    'pixel chunks of 8192) and generic large sizes (2**20+7, 3x400001); PASS-THROUGH STAND-INS (caller-defined Model / '
    'SampleShape / Material / DiskChopper classes whose methods hand back, unchanged, an argument or stored state: '
    'f(x;c)=c, f(x)=x, a table on the grid of x, a view of a longer table, stored quadrature / path lengths / '
    'coefficients / opening times) in every operand position of every combinator that consumes the return value, with '
    'operand shapes that coincide (0-d x, lengths 1, 2, 3, 4, 11, per-point parameters) and that broadcast; a CONTENTS '
    'PROBE on every kernel, model and method that computes new values (arguments scaled in place after the call: the '
    'earlier result keeps its bits; the call repeated with the same objects equals the call with fresh copies; contents '
    'put back: first result again; result scaled in place: arguments keep their bits and the call still gives the first '
    'result), also with operand values that make an internal step a no-op (unit vectors, zero offsets); prefixes and '
    'isotope names that are not in NFC / NFKC form; the Monte-Carlo quadrature with numpy\'s global random state pinned by '
    'the caller before each call; FRESH INTERPRETER: ten calls, each in a subprocess that imported only the module of the '
    'entry point, equal bit for bit to the same call in a worker with a history; a fingerprint probe changes one field of '
    'every kind of object handed over and demands a different fingerprint (else inconclusive), '
    '(3) thorough only: the repository test-suite with the monitor armed. '
    'oracle B (history): for each family of factories/lookups a pristine reference is taken, then ALL sequences '
    'of length <= 3 over {call factory i, mutate the k-th earlier result through its public surface, display / copy / '
    'pickle / compare the k-th earlier result} are '
    'enumerated and after each sequence every factory must still return its pristine value. '
    'distinct = (function, argument layout) for A, sequences for B'
)
ASSUMPTIONS = [
    'a stand-in object (instance of a class defined by the caller that overrides methods the package calls) is judged '
    'by the state its package base class declares or maintains (dataclass / model fields, slots, attributes assigned '
    'by the base class methods), a pure duck type by its scipp / numpy valued attributes: what the caller\'s own '
    'overriding methods keep on the instance is the caller\'s doing, not a modification by the package',
    'file-like objects and explicitly documented sinks/self-mutators (builders add_*, __init__, setters) are exempt',
    'the history oracle covers the object kinds the property names: graph factories, model and builder '
    'combinators, bundled-table lookups; persistent sharing inside FrameSequence is reported, not judged',
]
REUSE = ['c01', 'c02', 'c03', 'c04', 'c05', 'c06', 'c07', 'c08', 'c10', 'c11', 'c12', 'c13', 'c14', 'c15', 'c16',
         'c17', 'c18', 'c19', 'c20']
try:
    import matplotlib

    matplotlib.use('Agg')
    _HAVE_MPL = True
except Exception:  # noqa: BLE001
    _HAVE_MPL = False


def _close_fig(res):
    import matplotlib.pyplot as plt

    plt.close('all')
    return res


HISTORY_FAMILIES = ['graphs', 'atoms', 'models', 'cif', 'frames']
PYTEST_DIRS = ['tests/conversion', 'tests/convert_test.py', 'tests/beamline_components_test.py', 'tests/chopper',
               'tests/tof', 'tests/peaks', 'tests/absorption', 'tests/io', 'tests/atoms', 'tests/metadata']


# =============================================================== oracle A ===
_KNOWN_LIBS = {'scippneutron', 'scipp', 'scippnexus', 'numpy', 'builtins', 'pydantic', 'pydantic_core', 'types', 'collections',
               'datetime', 'pathlib', 'io', 'enum', 'decimal', 'fractions', 'uuid', 'typing', 'functools', 'itertools',
               'h5py', 'matplotlib', 'scipy', 'tempfile', '_io', 'array', 'dataclasses', 'abc', 'os', 'posixpath'}


def _is_stand_in(obj):
    """An instance of a class defined by the caller (here: by a workload), not by the package or a library."""
    t = type(obj)
    return (getattr(t, '__module__', None) or 'builtins').split('.')[0] not in _KNOWN_LIBS


_DECLARED = {}


def _declared_fields(t):
    """Names of the instance state the package's own classes among the bases of ``t`` declare or maintain: dataclass
    fields, pydantic model fields, slots, and every attribute one of their methods assigns (``self.x = ...``)."""
    import dataclasses
    import dis
    import types

    if t in _DECLARED:
        return _DECLARED[t]
    names = set()
    for base in t.__mro__:
        if (getattr(base, '__module__', '') or '').split('.')[0] != 'scippneutron':
            continue
        if dataclasses.is_dataclass(base):
            names.update(f.name for f in dataclasses.fields(base))
        names.update(getattr(base, 'model_fields', ()) or ())
        slots = base.__dict__.get('__slots__', ())
        names.update([slots] if isinstance(slots, str) else slots)
        for member in base.__dict__.values():
            for f in (member, getattr(member, '__func__', None), getattr(member, 'fget', None), getattr(member, 'fset', None)):
                if isinstance(f, types.FunctionType):
                    names.update(i.argval for i in dis.get_instructions(f.__code__) if i.opname == 'STORE_ATTR')
    _DECLARED[t] = sorted(names)
    return _DECLARED[t]


def judged_view(obj, depth=0):
    """What of an argument is the package's business.  The package calls the methods of the objects it is given; a
    stand-in (a caller-defined subclass or duck type overriding such a method) runs the CALLER's code there, and what
    that code keeps on its own instance (a call counter, a record of what it returned) is not a modification made
    by the package.  For a stand-in derived from a package class the judged state is the state the package class
    declares or maintains (see _declared_fields); for a pure duck type it is every scipp / numpy valued attribute it
    carries.  Everything else -- package objects, scipp objects, containers, plain values -- is judged in full."""
    if depth > 3:
        return obj
    if type(obj) in (list, tuple):
        return type(obj)(judged_view(x, depth + 1) for x in obj)
    if type(obj) is dict:
        return {k: judged_view(v, depth + 1) for k, v in obj.items()}
    if isinstance(obj, sc.Variable | sc.DataArray | sc.Dataset | sc.DataGroup | np.ndarray) or not _is_stand_in(obj):
        return obj
    t = type(obj)
    declared = _declared_fields(t)
    state = {}
    if declared:
        for nme in declared:
            try:
                state[nme] = judged_view(object.__getattribute__(obj, nme), depth + 1)
            except AttributeError:
                state[nme] = '<unset>'
    else:
        for nme, v in sorted((getattr(obj, '__dict__', None) or {}).items()):
            if isinstance(v, sc.Variable | sc.DataArray | sc.Dataset | sc.DataGroup | np.ndarray):
                state[nme] = v
    return ('stand-in', t.__qualname__, state)


def fpv(obj):
    return fp(judged_view(obj))


class _Monitor(MutationMonitor):
    """rv.mutmon.MutationMonitor with stand-in objects fingerprinted through judged_view()."""

    def _mk_start(self, qn):
        def on_start(ev):
            self.events += 1
            self.reached.add(qn)
            if ev.depth != 0:
                return None
            pre = {}
            for k, v in ev.args.items():
                if hasattr(v, '__next__'):  # a one-shot iterator: being consumed is what it is handed over for
                    pre[k] = None
                    continue
                try:
                    pre[k] = fpv(v)
                except Exception:  # noqa: BLE001
                    pre[k] = None
            return pre
        return on_start

    def _mk_return(self, qn):
        from rv import mutmon as MM

        exempt_self = MM._self_exempt(qn)
        last = qn.rsplit('.', 1)[-1]

        def on_return(ev):
            pre = ev.upre
            if pre is None:
                return
            self.judged += 1
            for k, before in pre.items():
                if before is None or (exempt_self and k in ('self', 'cls')) or (last, k) in MM.SINKS:
                    continue
                try:
                    after = fpv(ev.args[k])
                except Exception:  # noqa: BLE001
                    continue
                if after != before:
                    self.report(
                        'argument_mutated',
                        f'{qn} modified its argument {k!r}' + (' (while raising)' if ev.exc is not None else ''),
                        {'function': qn, 'argument': k, 'origin': self.origin,
                         'after': describe(ev.args[k]), 'raised': repr(ev.exc) if ev.exc else None},
                        function=qn.split('scippneutron.')[-1], argument=k,
                    )
        return on_return


def make_monitor(ctx, origin):
    def report(kind, what, case, **keys):
        ctx.violation(kind, what, dict(case, workload=origin['v']), **keys)
    mm = _Monitor(report)
    mm.install()
    return mm


def reuse_shard(ctx, shard):
    """Re-run the first shards of another property's quick workload under the mutation monitor."""
    origin = {'v': 'reuse:' + shard['module']}
    mm = make_monitor(ctx, origin)
    try:
        try:
            mod = importlib.import_module('rv.props.' + shard['module'])
        except Exception as e:  # noqa: BLE001
            ctx.count('reuse module unavailable: ' + shard['module'])
            ctx.extra.setdefault('unavailable', []).append(f'{shard["module"]}: {e}')
            return
        plans = mod.plan('quick', shard['seed'])
        todo = plans[: shard.get('n_sub', 1)]
        for i, sh in enumerate(todo):
            sub = dict(sh, tier='quick', seed=shard['seed'], index=i)
            scratch = Ctx(shard['module'], 'quick', shard['seed'], sub)
            e0, j0 = mm.events, mm.judged
            try:
                mod.run(sub, scratch)
            except Exception as e:  # noqa: BLE001
                ctx.count('reuse workload crashed: ' + shard['module'])
                ctx.extra.setdefault('crashed', []).append(f'{shard["module"]}: {type(e).__name__}: {e}')
            ctx.event('mutation_monitor.judged_calls', mm.judged - j0)
            ctx.event('mutation_monitor.observed_calls', mm.events - e0)
            ctx.case(('reuse', shard['module'], i), n=max(1, mm.judged - j0))
        for qn in mm.reached:
            ctx.classes.add('reached:' + qn)
        ctx.extra['functions_armed'] = len(mm.functions)
    finally:
        mm.uninstall()


def _views(rng, values, unit, dtype, dims=('x',)):
    """The same logical array as: plain, a slice of a larger caller-owned array, a strided slice."""
    values = np.asarray(values)
    out = []
    plain = sc.array(dims=list(dims), values=values, unit=unit, dtype=dtype)
    out.append(('plain', plain, None))
    pad = 3
    big = np.concatenate([np.full((pad,) + values.shape[1:], 7, dtype=values.dtype), values,
                          np.full((pad,) + values.shape[1:], 9, dtype=values.dtype)])
    owner = sc.array(dims=list(dims), values=big, unit=unit, dtype=dtype)
    out.append(('slice', owner[dims[0], pad:pad + len(values)], owner))
    return out


def alias_grid(ctx, shard):
    """Arguments already in the unit and dtype the function converts to."""
    import scippneutron as scn
    from scippneutron import peaks
    from scippneutron.absorption import Cylinder, Material, compute_transmission_map
    from scippneutron.atoms import ScatteringParams
    from scippneutron.chopper import DiskChopper
    from scippneutron.chopper import filtering
    from scippneutron.conversion import beamline as KB
    from scippneutron.conversion import tof as KT
    from scippneutron.io import cif, save_xye
    from scippneutron.tof import chopper_cascade as CC

    origin = {'v': 'alias_grid'}
    mm = make_monitor(ctx, origin)
    rng = np.random.Generator(np.random.PCG64([shard['seed'], shard['index'], 9]))
    tr = Tracer()
    n = 6

    def call(label, f, owners=()):
        before = [fp(o) for o in owners if o is not None]
        j0 = mm.judged
        try:
            f()
        except Exception as e:  # noqa: BLE001
            ctx.count(f'alias case raised: {label}: {type(e).__name__}')
        after = [fp(o) for o in owners if o is not None]
        # the part of a caller-owned buffer *outside* the slice that was passed must not change either
        if before != after:
            ctx.violation('owner_buffer_modified', f'{label}: a caller-owned object reachable from the call (owner of a sliced argument, or handed to an earlier builder call) changed',
                          {'label': label, 'workload': 'alias_grid'}, function=label)
        ctx.event('alias_case')
        ctx.case(('alias', label), n=max(1, mm.judged - j0))

    try:
        with tr:
            for rep in range(shard['reps']):
                for dt in ('float64', 'float32'):
                    # ---- gravity: beams in m, gravity in m/s^2  => the internal wavelength unit is m
                    b1 = sc.vector([0.0, 0.0, 10.0], unit='m')
                    g = sc.vector([0.0, -9.80665, 0.0], unit='m/s^2')
                    det = rng.normal(size=(n, 3)) + [0, 0.2, 4]
                    for lbl_b, b2, own_b in [('plain', sc.vectors(dims=['x'], values=det, unit='m'), None)] + [
                            ('slice', (ob := sc.vectors(dims=['x'], values=np.vstack([det, det]), unit='m'))['x', 2:2 + n], ob)]:
                        for lbl, lam, own in _views(rng, rng.uniform(1, 10, size=n) * 1e-10, 'm', dt):
                            for tilt in (0.0, 0.3):
                                bb = b1 if tilt == 0 else sc.vector([0.0, 10 * np.sin(tilt), 10 * np.cos(tilt)], unit='m')
                                call(f'scattering_angles_with_gravity[{dt},{lbl},{lbl_b},tilt={tilt}]',
                                     lambda bb=bb, b2=b2, lam=lam: KB.scattering_angles_with_gravity(
                                         incident_beam=bb, scattered_beam=b2, wavelength=lam, gravity=g), (own, own_b))
                            call(f'scattering_angle_in_yz_plane[{dt},{lbl},{lbl_b}]',
                                 lambda b2=b2, lam=lam: KB.scattering_angle_in_yz_plane(
                                     incident_beam=b1, scattered_beam=b2, wavelength=lam, gravity=g), (own, own_b))
                        call(f'two_theta[{lbl_b}]', lambda b2=b2: KB.two_theta(incident_beam=b2, scattered_beam=b2),
                             (own_b,))
                        call(f'L2[{lbl_b}]', lambda b2=b2: KB.L2(scattered_beam=b2), (own_b,))
                    # binned wavelength in the internal unit
                    from rv import operands as ops
                    sizes = rng.integers(0, 4, size=n)
                    lamb = ops.make_binned((rng.uniform(1, 10, size=int(sizes.sum())) * 1e-10).astype(dt), sizes,
                                           ['x'], (n,), 'm', dtype=dt)
                    call(f'scattering_angles_with_gravity[{dt},binned]',
                         lambda: KB.scattering_angles_with_gravity(
                             incident_beam=b1, scattered_beam=sc.vectors(dims=['x'], values=det, unit='m'),
                             wavelength=lamb, gravity=g))
                    # ---- tof kernels with operands in the unit of the folded constant
                    for lbl, tof, own in _views(rng, rng.uniform(1e3, 1e4, size=n), 'us', dt):
                        L = sc.array(dims=['x'], values=rng.uniform(10, 20, size=n), unit='m', dtype=dt)
                        tt = sc.array(dims=['x'], values=rng.uniform(0.1, 3, size=n), unit='rad', dtype=dt)
                        E = sc.array(dims=['x'], values=rng.uniform(10, 20, size=n), unit='meV', dtype=dt)
                        call(f'wavelength_from_tof[{dt},{lbl}]', lambda: KT.wavelength_from_tof(tof=tof, Ltotal=L), (own,))
                        call(f'dspacing_from_tof[{dt},{lbl}]', lambda: KT.dspacing_from_tof(tof=tof, Ltotal=L, two_theta=tt), (own,))
                        call(f'energy_from_tof[{dt},{lbl}]', lambda: KT.energy_from_tof(tof=tof, Ltotal=L), (own,))
                        call(f'energy_transfer_direct[{dt},{lbl}]',
                             lambda: KT.energy_transfer_direct_from_tof(tof=tof * 10, L1=L, L2=L, incident_energy=E), (own,))
                        call(f'energy_transfer_indirect[{dt},{lbl}]',
                             lambda: KT.energy_transfer_indirect_from_tof(tof=tof * 10, L1=L, L2=L, final_energy=E), (own,))
                    for lbl, lam, own in _views(rng, rng.uniform(1, 10, size=n), 'angstrom', dt):
                        tt = sc.array(dims=['x'], values=rng.uniform(0.1, 3, size=n), unit='rad', dtype=dt)
                        call(f'energy_from_wavelength[{dt},{lbl}]', lambda: KT.energy_from_wavelength(wavelength=lam), (own,))
                        call(f'Q_from_wavelength[{dt},{lbl}]', lambda: KT.Q_from_wavelength(wavelength=lam, two_theta=tt), (own,))
                        call(f'dspacing_from_wavelength[{dt},{lbl}]', lambda: KT.dspacing_from_wavelength(wavelength=lam, two_theta=tt), (own,))
                        Q = KT.Q_from_wavelength(wavelength=lam, two_theta=tt).copy()
                        call(f'wavelength_from_Q[{dt},{lbl}]', lambda: KT.wavelength_from_Q(Q=Q, two_theta=tt))
                        call(f'propagate_times[{dt},{lbl}]', lambda: CC.propagate_times(
                            sc.array(dims=['x'], values=rng.uniform(0, 1e-3, size=n), unit='s', dtype=dt), lam,
                            sc.scalar(10.0, unit='m')), (own,))
                    for lbl, en, own in _views(rng, rng.uniform(1, 100, size=n), 'meV', dt):
                        tt = sc.array(dims=['x'], values=rng.uniform(0.1, 3, size=n), unit='rad', dtype=dt)
                        call(f'wavelength_from_energy[{dt},{lbl}]', lambda: KT.wavelength_from_energy(energy=en), (own,))
                        call(f'dspacing_from_energy[{dt},{lbl}]', lambda: KT.dspacing_from_energy(energy=en, two_theta=tt), (own,))
                # ---- chopper cascade: Subframe keeps time in s / wavelength in angstrom without copying
                t = sc.array(dims=['vertex'], values=[0.0, 3e-3, 3e-3, 0.0], unit='s')
                w = sc.array(dims=['vertex'], values=[1.0, 1.0, 8.0, 8.0], unit='angstrom')
                fr = CC.Frame(distance=sc.scalar(0.0, unit='m'), subframes=[CC.Subframe(time=t, wavelength=w)])
                ch = CC.Chopper(distance=sc.scalar(8.0, unit='m'),
                                time_open=sc.array(dims=['cutout'], values=[5e-3, 15e-3], unit='s'),
                                time_close=sc.array(dims=['cutout'], values=[9e-3, 20e-3], unit='s'))
                call('Frame.chop', lambda: fr.chop(ch))
                call('Frame.propagate_to', lambda: fr.propagate_to(sc.scalar(20.0, unit='m')))
                chopped = fr.chop(ch)
                call('Frame.bounds', lambda: chopped.bounds())
                call('Frame.subbounds', lambda: chopped.subbounds())
                fs = CC.FrameSequence.from_source_pulse(time_min=sc.scalar(0.0, unit='s'), time_max=sc.scalar(3e-3, unit='s'),
                                                        wavelength_min=sc.scalar(1.0, unit='angstrom'),
                                                        wavelength_max=sc.scalar(8.0, unit='angstrom'))
                call('FrameSequence.chop', lambda: fs.chop([ch]))
                call('FrameSequence.propagate_to', lambda: fs.propagate_to(sc.scalar(30.0, unit='m')))
                call('FrameSequence.__getitem__', lambda: fs.chop([ch])[sc.scalar(12.0, unit='m')])
                call('Chopper.__getitem__', lambda: ch['cutout', 0:1])
                call('Chopper.__getitem__[int]', lambda: fr.chop(ch['cutout', 1:2]))
                if _HAVE_MPL:
                    seq = fs.chop([ch]).propagate_to(sc.scalar(30.0, unit='m'))
                    call('FrameSequence.acceptance_diagram', lambda: _close_fig(seq.acceptance_diagram()), (seq,))
                    call('FrameSequence.draw', lambda: _close_fig(seq.draw()), (seq,))
                # ---- disk chopper with angles already in rad float64
                dc = DiskChopper(axle_position=sc.vector([0, 0, 8.0], unit='m'), frequency=sc.scalar(14.0, unit='Hz'),
                                 beam_position=sc.scalar(0.0, unit='rad'), phase=sc.scalar(0.5, unit='rad'),
                                 slit_begin=sc.array(dims=['slit'], values=[0.0, 2.0], unit='rad'),
                                 slit_end=sc.array(dims=['slit'], values=[1.0, 3.0], unit='rad'))
                pf = sc.scalar(14.0, unit='Hz')
                call('DiskChopper.time_offset_open', lambda: dc.time_offset_open(pulse_frequency=pf))
                call('DiskChopper.time_offset_close', lambda: dc.time_offset_close(pulse_frequency=pf))
                call('DiskChopper.open_duration', lambda: dc.open_duration(pulse_frequency=pf))
                call('Chopper.from_disk_chopper', lambda: CC.Chopper.from_disk_chopper(dc, pulse_frequency=pf, npulses=2))
                # ---- peaks
                x = sc.linspace('x', 0.0, 10.0, 200, unit='angstrom')
                y = 5 * sc.exp(-((x - sc.scalar(4.0, unit='angstrom')) / sc.scalar(0.3, unit='angstrom')) ** 2) + sc.scalar(1.0)
                noise = sc.array(dims=['x'], values=rng.normal(size=200) * 0.05)
                da = sc.DataArray((y + noise), coords={'x': x})
                da.variances = np.full(200, 0.05**2)
                est = sc.array(dims=['x'], values=[4.0], unit='angstrom')
                res_box = {}
                call('fit_peaks', lambda: res_box.setdefault('r', peaks.fit_peaks(
                    da, peak_estimates=est, windows=sc.scalar(2.0, unit='angstrom'), background='linear', peak='gaussian')))
                if 'r' in res_box:
                    nv = sc.DataArray(sc.values(da.data), coords={'x': x})
                    call('remove_peaks', lambda: peaks.remove_peaks(nv, res_box['r']))
                gm = peaks.model.GaussianModel(prefix='g_')
                pm = peaks.model.PolynomialModel(degree=2, prefix='p_')
                gp = {'g_amplitude': sc.scalar(2.0), 'g_loc': sc.scalar(4.0, unit='angstrom'), 'g_scale': sc.scalar(0.3, unit='angstrom')}
                pp = {'p_a0': sc.scalar(1.0, unit='1/angstrom'), 'p_a1': sc.scalar(0.1, unit='1/angstrom^2'), 'p_a2': sc.scalar(0.01, unit='1/angstrom^3')}
                call('GaussianModel.__call__', lambda: gm(x, **gp))
                call('PolynomialModel.__call__', lambda: pm(x, **pp))
                call('CompositeModel.__call__', lambda: (gm + pm)(x, **gp, **pp))
                call('Model.guess', lambda: gm.guess(da))
                call('Model.fwhm', lambda: gm.fwhm(gp))
                # ---- absorption
                cyl = Cylinder(symmetry_line=sc.vector([0, 1.0, 0]), center_of_base=sc.vector([0, -0.5, 0], unit='cm'),
                               radius=sc.scalar(1.0, unit='cm'), height=sc.scalar(1.0, unit='cm'))
                start = sc.vectors(dims=['x'], values=rng.normal(size=(n, 3)) * 0.2, unit='cm')
                direction = sc.vectors(dims=['x'], values=(lambda v: v / np.linalg.norm(v, axis=1, keepdims=True))(rng.normal(size=(n, 3))))
                call('Cylinder.beam_intersection', lambda: cyl.beam_intersection(start, direction))
                call('Cylinder.quadrature', lambda: cyl.quadrature('cheap'))
                mat = Material(scattering_params=ScatteringParams.for_isotope('V'), effective_sample_number_density=sc.scalar(0.07, unit='1/angstrom^3'))
                wl = sc.linspace('wavelength', 0.5, 5.0, 4, unit='angstrom')
                call('Material.attenuation_coefficient', lambda: mat.attenuation_coefficient(wl))
                dets = sc.vectors(dims=['x'], values=rng.normal(size=(n, 3)) * 100, unit='cm')
                call('compute_transmission_map', lambda: compute_transmission_map(
                    cyl, mat, beam_direction=sc.vector([0, 0, 1.0]), wavelength=wl, detector_position=dets, quadrature_kind='cheap'))
                # ---- filtering
                tcoord = sc.arange('time', 50.0, unit='s')
                lvl = np.repeat([1.0, 5.0, 2.0, 2.0, 7.0], 10) + rng.normal(size=50) * 1e-4
                sig = sc.DataArray(sc.array(dims=['time'], values=lvl, unit='Hz'), coords={'time': tcoord})
                box = {}
                call('find_plateaus', lambda: box.setdefault('p', filtering.find_plateaus(sig, atol=sc.scalar(0.01, unit='Hz/s'), min_n_points=3)))
                if 'p' in box:
                    call('collapse_plateaus', lambda: box.setdefault('c', filtering.collapse_plateaus(box['p'])))
                if 'c' in box:
                    call('filter_in_phase', lambda: filtering.filter_in_phase(box['c'], reference=sc.scalar(1.0, unit='Hz'), rtol=sc.scalar(0.05)))
                # ---- io: CIF / XYE writers must not touch the data they are given
                pd = sc.DataArray(sc.array(dims=['tof'], values=rng.random(5), variances=rng.random(5) * 0.01),
                                  coords={'tof': sc.arange('tof', 5.0, unit='us')})
                call('CIF.with_reduced_powder_data+save', lambda: cif.CIF('a').with_reduced_powder_data(pd).save(io.StringIO()))
                call('save_xye', lambda: save_xye(io.StringIO(), pd))
                chunk = cif.Chunk({'a.b': 1, 'a.c': 'text'}, comment='chunk comment')
                loop = cif.Loop({'l.x': sc.arange('i', 3.0, unit='m'), 'l.y': sc.arange('i', 3.0)}, comment='loop comment')
                call('Block.add(Chunk, comment)', lambda: cif.Block('holder').add(chunk, comment='another comment'))
                call('Block.add(Loop, comment)', lambda: cif.Block('holder').add(loop, comment='another comment'))
                call('Block(name, [Chunk, Loop])', lambda: cif.save_cif(io.StringIO(), cif.Block('holder', [chunk, loop], comment='c')))
                call('save_cif([Block, Block])', lambda: cif.save_cif(io.StringIO(), [cif.Block('b1', [chunk]), cif.Block('b2', [loop])], comment='file'))
                blk = cif.Block('b', [{'x.y': sc.scalar(1.5, variance=0.01, unit='m')}])
                call('Block.write', lambda: cif.save_cif(io.StringIO(), blk))
                # ---- SQW writer: caller-owned metadata already in canonical unit/dtype, every byte order
                from scippneutron.io.sqw import EnergyMode, Sqw, SqwIXExperiment, SqwIXSample
                npx = 5
                for order in ('native', 'little', 'big'):
                    exps = [SqwIXExperiment(
                        run_id=r, efix=sc.scalar(1.5 + r, unit='meV'), emode=EnergyMode.direct,
                        en=sc.array(dims=['energy_transfer'], values=[1.0, 2.5, 4.0], unit='meV'),
                        psi=sc.scalar(0.3, unit='rad'), u=sc.vector([0.0, 1.0, 0.5]), v=sc.vector([1.0, 1.0, 0.0]),
                        omega=sc.scalar(0.1, unit='rad'), dpsi=sc.scalar(0.2, unit='rad'), gl=sc.scalar(0.3, unit='rad'),
                        gs=sc.scalar(-0.4, unit='rad'), filename=f'run{r}.nxspe', filepath='/data') for r in range(2)]
                    pix = sc.DataArray(
                        sc.array(dims=['obs'], values=rng.random(npx), variances=rng.random(npx), unit='count'),
                        coords={**{f'u{i}': sc.array(dims=['obs'], values=rng.random(npx), unit='1/angstrom') for i in (1, 2, 3)},
                                'u4': sc.array(dims=['obs'], values=rng.random(npx), unit='meV'),
                                **{k: sc.array(dims=['obs'], values=np.arange(npx) % 2, unit=None, dtype='int64')
                                   for k in ('idet', 'irun', 'ien')}})
                    sample = SqwIXSample(name='s', lattice_spacing=sc.vector([2.0, 3.0, 4.0], unit='angstrom'),
                                         lattice_angle=sc.vector([90.0, 90.0, 120.0], unit='deg'))

                    def build_sqw(order=order, exps=exps, pix=pix, sample=sample):
                        b = Sqw.build(io.BytesIO(), byteorder=order)
                        b = b.add_pixel_data(pix, experiments=exps).add_default_sample(sample)
                        b.create()
                    call(f'SqwBuilder.create[{order}]', build_sqw, (exps, pix, sample))
                # ---- convert with positions
                cda = sc.DataArray(sc.ones(dims=['x', 'tof'], shape=[n, 4]), coords={
                    'tof': sc.linspace('tof', 1e3, 1e4, 4, unit='us'),
                    'position': sc.vectors(dims=['x'], values=det, unit='m'),
                    'source_position': sc.vector([0, 0, -10.0], unit='m'), 'sample_position': sc.vector([0, 0, 0.0], unit='m')})
                for tgt in ('wavelength', 'dspacing', 'Q', 'energy'):
                    call(f'convert[{tgt}]', lambda tgt=tgt: scn.convert(cda, 'tof', tgt, scatter=True))
                call('two_theta(da)', lambda: scn.two_theta(cda))
        for qn in mm.reached:
            ctx.classes.add('reached:' + qn)
        ctx.event('mutation_monitor.judged_calls', mm.judged)
        ctx.event('mutation_monitor.observed_calls', mm.events)
        ctx.extra['functions_armed'] = len(mm.functions)
    finally:
        mm.uninstall()


# ================================================== oracle A: value axis ===
# The alias grid above varies unit / dtype / view-ness.  Whether a function writes into an argument can
# equally depend on the argument's VALUE: code that normalises, sorts, clips, wraps, takes the magnitude of
# or rescales an input has a branch (or a fast path) for inputs that are already in canonical form, and the
# write -- if there is one -- only happens for inputs that are not.  This grid calls every computational
# entry point with caller-owned arguments that are NOT in canonical form in every way the entry point (or a
# reasonable re-implementation of it) canonicalises: vectors of any length and direction, unsorted and
# reversed arrays, windows in any order / beyond the data range, angles beyond one turn and negative,
# negative frequencies and frequencies in other units, swapped min/max, positions far away and in other
# units, degenerate geometry.  Every argument is handed over once as a plain variable and once as a slice
# (for scalars: a 0-d element) of a larger caller-owned buffer.  The only expectation is the property
# itself: whatever the call does (including raising), every caller-owned object is bit-identical afterwards.
_N = 5
_LAY3 = ('plain', 'slice', 'strided')


class _Verdict(Exception):
    """Raised by a case that judged something itself (a result that changed between two identical calls)."""

    def __init__(self, kind, what, **keys):
        super().__init__(what)
        self.kind, self.what, self.keys = kind, what, keys


def _each(*thunks):
    """Run every thunk even if an earlier one raises; the first exception is re-raised at the end."""
    def run():
        first = None
        for t in thunks:
            try:
                t()
            except _Verdict:
                raise
            except Exception as e:  # noqa: BLE001
                first = first or e
        if first is not None:
            raise first
    return run


def _vec(v, unit='m'):
    return sc.vector(np.asarray(v, dtype=float), unit=unit)


def _vecs(v, unit='m', dim='x'):
    return sc.vectors(dims=[dim], values=np.asarray(v, dtype=float), unit=unit)


def _arr(v, unit, dim='x', dtype='float64'):
    return sc.array(dims=[dim], values=np.asarray(v), unit=unit, dtype=dtype)


def _s(v, unit):
    return sc.scalar(float(v), unit=unit)


def _lay(layout, obj):
    """obj as a caller-owned plain object, or as a slice / 0-d element of a larger caller-owned buffer."""
    if layout == 'plain':
        return obj.copy(), None
    if obj.ndim == 0:
        owner = sc.concat([obj, obj, obj], 'rv_buffer').copy()
        return owner['rv_buffer', 1], owner
    d = obj.dims[0]
    if layout == 'strided':  # every second element of a caller-owned buffer twice as long
        try:
            rest = [x for x in obj.dims if x != d]
            owner = sc.concat([obj, obj], 'rv_k').transpose([d, 'rv_k', *rest]).copy().flatten(dims=[d, 'rv_k'], to=d)
            return owner[d, 0::2], owner
        except Exception:  # noqa: BLE001  (layout not constructible for this kind of object: contiguous slice)
            pass
    pad = sc.concat([obj[d, 0:1], obj[d, 0:1]], d)
    owner = sc.concat([pad, obj, pad], d).copy()
    return owner[d, 2:2 + obj.sizes[d]], owner


def _scaled_rows(rng, scales):
    return rng.normal(size=(len(scales), 3)) * np.asarray(scales, dtype=float)[:, None]


def _value_cases():  # noqa: C901
    """[(entry point, non-canonical facet, build(P, A, O, rng) -> thunk)].  ``A(var)`` places a caller-owned
    Variable / DataArray in the current layout, ``O(obj)`` registers any other caller-owned object."""
    cases = []

    def case(entry, facet, layouts=None):
        def deco(f):
            # layouts=None: every buffer layout; a tuple: only those (cases whose caller-owned objects are
            # configuration objects / plain Python values, for which a buffer layout means nothing)
            f.layouts = layouts
            cases.append((entry, facet, f))
            return f
        return deco

    rot = itertools.count()

    def one_layout():
        """One buffer layout per case, cycling through all of them over the cases that ask for one."""
        return (_LAY3[next(rot) % len(_LAY3)],)

    g_std = [0.0, -9.80665, 0.0]
    gravities = {  # everything the gravity kernels do with `gravity` goes through gravity / |gravity|
        'gravity-unit-length': [0.0, -1.0, 0.0],
        'gravity-long': [0.0, -9806.65, 0.0],
        'gravity-short': [0.0, -1e-3, 0.0],
        'gravity-off-axis': [-3.0, -9.0, 0.0],   # still orthogonal to a beam along z
    }
    far = [1e-3, 1.0, 25.0, 1e3, 1e6]

    # ------------------------------------------------------------ conversion.beamline
    @case('L1', 'beam-any-length')
    def _(P, A, O, rng):
        b = A(_vec([0.3, -0.2, 25.0]))
        return lambda: P.KB.L1(incident_beam=b)

    @case('L2', 'beams-any-length')
    def _(P, A, O, rng):
        b = A(_vecs(_scaled_rows(rng, far)))
        return lambda: P.KB.L2(scattered_beam=b)

    @case('straight_incident_beam', 'positions-far-apart')
    def _(P, A, O, rng):
        src, smp = A(_vec([0.0, 0.0, -25e3], 'mm')), A(_vec([0.1, 0.2, 0.3], 'mm'))
        return lambda: P.KB.straight_incident_beam(source_position=src, sample_position=smp)

    @case('straight_scattered_beam', 'positions-far-apart')
    def _(P, A, O, rng):
        pos, smp = A(_vecs(_scaled_rows(rng, far))), A(_vec([0.1, 0.2, 0.3]))
        return lambda: P.KB.straight_scattered_beam(position=pos, sample_position=smp)

    @case('total_beam_length', 'lengths-any-magnitude')
    def _(P, A, O, rng):
        l1, l2 = A(_s(25.0, 'm')), A(_arr(rng.uniform(0, 1, _N) * far, 'm'))
        return lambda: P.KB.total_beam_length(L1=l1, L2=l2)

    @case('total_straight_beam_length_no_scatter', 'positions-far-apart')
    def _(P, A, O, rng):
        src, pos = A(_vec([0.0, 0.0, -25.0])), A(_vecs(_scaled_rows(rng, far)))
        return lambda: P.KB.total_straight_beam_length_no_scatter(source_position=src, position=pos)

    @case('two_theta', 'beams-any-length')
    def _(P, A, O, rng):
        b1, b2 = A(_vec([0.0, 0.0, 25.0])), A(_vecs(_scaled_rows(rng, far)))
        return lambda: P.KB.two_theta(incident_beam=b1, scattered_beam=b2)

    @case('two_theta', 'both-beams-arrays')
    def _(P, A, O, rng):
        b1, b2 = A(_vecs(_scaled_rows(rng, far[::-1]))), A(_vecs(_scaled_rows(rng, far)))
        return lambda: P.KB.two_theta(incident_beam=b1, scattered_beam=b2)

    @case('two_theta', 'incident-has-extra-dim')
    def _(P, A, O, rng):
        b1, b2 = A(_vecs(_scaled_rows(rng, [3.0, 25.0]), dim='y')), A(_vecs(_scaled_rows(rng, far)))
        return lambda: P.KB.two_theta(incident_beam=b1, scattered_beam=b2)

    @case('two_theta', 'parallel-and-antiparallel')
    def _(P, A, O, rng):
        b1 = A(_vec([0.0, 0.0, 25.0]))
        b2 = A(_vecs([[0, 0, 3.0], [0, 0, -3.0], [0, 0, 25.0], [0, 1e-12, 7.0], [0, 4.0, 0]]))
        return lambda: P.KB.two_theta(incident_beam=b1, scattered_beam=b2)

    @case('two_theta', 'beams-in-different-units')
    def _(P, A, O, rng):
        b1, b2 = A(_vec([0.0, 0.0, 25e3], 'mm')), A(_vecs(_scaled_rows(rng, far)))
        return lambda: P.KB.two_theta(incident_beam=b1, scattered_beam=b2)

    for facet, gv in {**gravities, 'gravity-not-orthogonal': [0.0, -9.0, 2.0]}.items():
        @case('beam_aligned_unit_vectors', facet)
        def _(P, A, O, rng, gv=gv):
            b, g = A(_vec([0.0, 0.0, 25.0])), A(_vec(gv, 'm/s^2'))
            return lambda: P.KB.beam_aligned_unit_vectors(incident_beam=b, gravity=g)

    @case('beam_aligned_unit_vectors', 'beam-parallel-to-gravity')
    def _(P, A, O, rng):
        b, g = A(_vec([0.0, -3.0, 0.0])), A(_vec(g_std, 'm/s^2'))
        return lambda: P.KB.beam_aligned_unit_vectors(incident_beam=b, gravity=g)

    @case('beam_aligned_unit_vectors', 'beam-off-axis-any-length')
    def _(P, A, O, rng):
        b, g = A(_vecs([[3e-3, 0, 4e-3], [30.0, 0, -40.0], [1e5, 0.0, 1.0]])), A(_vec(g_std, 'm/s^2'))
        return lambda: P.KB.beam_aligned_unit_vectors(incident_beam=b, gravity=g)

    def gravity_args(A, rng, gv, beam=(0.0, 0.0, 25.0), dt='float64', scales=far):
        # wavelength in the internal unit of the kernels (m), so that value x aliasing are crossed
        return dict(incident_beam=A(_vec(beam)), scattered_beam=A(_vecs(_scaled_rows(rng, scales) + [0, 0, 1e-2])),
                    wavelength=A(_arr(rng.uniform(1, 10, len(scales)) * 1e-10, 'm', dtype=dt)),
                    gravity=A(_vec(gv, 'm/s^2')))

    for facet, gv in gravities.items():
        @case('scattering_angles_with_gravity', facet)
        def _(P, A, O, rng, gv=gv):
            kw = gravity_args(A, rng, gv)
            return lambda: P.KB.scattering_angles_with_gravity(**kw)

        @case('scattering_angle_in_yz_plane', facet)
        def _(P, A, O, rng, gv=gv):
            kw = gravity_args(A, rng, gv)
            return lambda: P.KB.scattering_angle_in_yz_plane(**kw)

    @case('scattering_angles_with_gravity', 'gravity-not-orthogonal-any-length')
    def _(P, A, O, rng):
        kw = gravity_args(A, rng, [1.0, -90.0, 20.0], beam=(0.2, 0.1, 0.5), dt='float32')
        return lambda: P.KB.scattering_angles_with_gravity(**kw)

    @case('scattering_angle_in_yz_plane', 'gravity-not-orthogonal')
    def _(P, A, O, rng):
        kw = gravity_args(A, rng, [0.0, -9.0, 2.0])
        return lambda: P.KB.scattering_angle_in_yz_plane(**kw)

    @case('scattering_angles_with_gravity', 'beam-off-axis-any-length')
    def _(P, A, O, rng):
        kw = gravity_args(A, rng, g_std, beam=(-3e3, 0.0, 4e3))
        return lambda: P.KB.scattering_angles_with_gravity(**kw)

    @case('scattering_angles_with_gravity', 'wavelength-unsorted-zero-negative')
    def _(P, A, O, rng):
        kw = gravity_args(A, rng, g_std)
        kw['wavelength'] = A(_arr([9e-10, 0.0, -2e-10, 5e-10, 1e-10], 'm'))
        return lambda: P.KB.scattering_angles_with_gravity(**kw)

    @case('scattering_angle_in_yz_plane', 'wavelength-unsorted-zero-negative')
    def _(P, A, O, rng):
        kw = gravity_args(A, rng, g_std)
        kw['wavelength'] = A(_arr([9e-10, 0.0, -2e-10, 5e-10, 1e-10], 'm'))
        return lambda: P.KB.scattering_angle_in_yz_plane(**kw)

    # ------------------------------------------------------------ conversion.tof
    def unsorted(rng, lo, hi, extra=()):
        v = np.concatenate([np.sort(rng.uniform(lo, hi, _N - len(extra)))[::-1], np.asarray(extra, dtype=float)])
        return v

    angle_oor = [-0.5, 0.0, 3.5, 7.0, 400.0]  # negative, zero, beyond pi, beyond one turn, many turns

    @case('wavelength_from_tof', 'tof-unsorted-zero-negative')
    def _(P, A, O, rng):
        tof, L = A(_arr(unsorted(rng, 1e3, 1e4, [0.0, -5.0]), 'us')), A(_arr(unsorted(rng, 1, 100, [0.0]), 'm'))
        return lambda: P.KT.wavelength_from_tof(tof=tof, Ltotal=L)

    @case('energy_from_tof', 'tof-unsorted-zero-negative')
    def _(P, A, O, rng):
        tof, L = A(_arr(unsorted(rng, 1e3, 1e4, [0.0, -5.0]), 'us')), A(_arr(unsorted(rng, 1, 100, [0.0]), 'm'))
        return lambda: P.KT.energy_from_tof(tof=tof, Ltotal=L)

    @case('dspacing_from_tof', 'two_theta-out-of-range')
    def _(P, A, O, rng):
        tof, L = A(_arr(unsorted(rng, 1e3, 1e4), 'us')), A(_s(25.0, 'm'))
        tt = A(_arr(angle_oor, 'rad'))
        return lambda: P.KT.dspacing_from_tof(tof=tof, Ltotal=L, two_theta=tt)

    for mode, ekey in (('direct', 'incident_energy'), ('indirect', 'final_energy')):
        @case(f'energy_transfer_{mode}_from_tof', 'tof-below-and-above-t0')
        def _(P, A, O, rng, mode=mode, ekey=ekey):
            # t0 for 10 m at 15 meV is about 5.9 ms: both sides of the threshold, unsorted
            tof = A(_arr([2e4, 1e2, 5.9e3, 0.0, 9e3], 'us'))
            l1, l2, e = A(_s(10.0, 'm')), A(_arr(unsorted(rng, 9, 11), 'm')), A(_s(15.0, 'meV'))
            f = getattr(P.KT, f'energy_transfer_{mode}_from_tof')
            return lambda: f(tof=tof, L1=l1, L2=l2, **{ekey: e})

    @case('energy_from_wavelength', 'wavelength-unsorted-zero-negative')
    def _(P, A, O, rng):
        lam = A(_arr(unsorted(rng, 1, 10, [0.0, -2.0]), 'angstrom'))
        return lambda: P.KT.energy_from_wavelength(wavelength=lam)

    @case('wavelength_from_energy', 'energy-unsorted-zero-negative')
    def _(P, A, O, rng):
        en = A(_arr(unsorted(rng, 1, 100, [0.0, -2.0]), 'meV'))
        return lambda: P.KT.wavelength_from_energy(energy=en)

    for name, arg, unit in (('Q_from_wavelength', 'wavelength', 'angstrom'), ('wavelength_from_Q', 'Q', '1/angstrom'),
                            ('dspacing_from_wavelength', 'wavelength', 'angstrom'),
                            ('dspacing_from_energy', 'energy', 'meV')):
        @case(name, 'two_theta-out-of-range')
        def _(P, A, O, rng, name=name, arg=arg, unit=unit):
            x, tt = A(_arr(unsorted(rng, 1, 10), unit)), A(_arr(angle_oor, 'rad'))
            return lambda: getattr(P.KT, name)(**{arg: x}, two_theta=tt)

    @case('Q_elements_from_wavelength', 'beams-any-length')
    def _(P, A, O, rng):
        lam = A(_arr(unsorted(rng, 1, 10), 'angstrom'))
        b1, b2 = A(_vec([0.0, 0.0, 25.0])), A(_vecs(_scaled_rows(rng, far)))
        return lambda: P.KT.Q_elements_from_wavelength(wavelength=lam, incident_beam=b1, scattered_beam=b2)

    @case('Q_vec_from_Q_elements', 'components-any-magnitude')
    def _(P, A, O, rng):
        q = [A(_arr(rng.normal(size=_N) * far, '1/angstrom')) for _ in range(3)]
        return lambda: P.KT.Q_vec_from_Q_elements(Qx=q[0], Qy=q[1], Qz=q[2])

    def sheared(rng):
        return np.eye(3) * [2.0, 0.5, 30.0] + rng.normal(size=(3, 3)) * 0.3

    @case('ub_matrix_from_u_and_b', 'u-not-orthonormal')
    def _(P, A, O, rng):
        u = A(sc.spatial.linear_transform(value=sheared(rng)))
        b = A(sc.spatial.linear_transform(value=sheared(rng), unit='1/angstrom'))
        return lambda: P.KT.ub_matrix_from_u_and_b(u_matrix=u, b_matrix=b)

    @case('hkl_vec_from_Q_vec', 'rotation-not-orthonormal')
    def _(P, A, O, rng):
        q = A(_vecs(_scaled_rows(rng, far), '1/angstrom'))
        ub = A(sc.spatial.linear_transform(value=sheared(rng), unit='1/angstrom'))
        rot = A(sc.spatial.linear_transform(value=sheared(rng)))
        return lambda: P.KT.hkl_vec_from_Q_vec(Q_vec=q, ub_matrix=ub, sample_rotation=rot)

    @case('hkl_vec_from_Q_vec', 'rotation-quaternion-any-angle')
    def _(P, A, O, rng):
        q = A(_vecs(_scaled_rows(rng, far), '1/angstrom'))
        ub = A(sc.spatial.linear_transform(value=sheared(rng), unit='1/angstrom'))
        rot = A(sc.spatial.rotations_from_rotvecs(_vec([0.0, 7.5, -0.2], 'rad')))  # more than one turn
        return lambda: P.KT.hkl_vec_from_Q_vec(Q_vec=q, ub_matrix=ub, sample_rotation=rot)

    @case('hkl_elements_from_hkl_vec', 'components-any-magnitude')
    def _(P, A, O, rng):
        hkl = A(_vecs(_scaled_rows(rng, far), 'one'))
        return lambda: P.KT.hkl_elements_from_hkl_vec(hkl_vec=hkl)

    @case('time_at_sample_from_tof', 'tof-unsorted-zero-negative')
    def _(P, A, O, rng):
        pt = A(_arr(np.arange(_N)[::-1] * 0.071 + 1e6, 's'))
        tof = A(_arr([0.07, 0.0, -5e-9, 3e-3, 1e-8], 's'))
        l2, lam = A(_arr(unsorted(rng, 1, 100, [0.0]), 'm')), A(_arr(unsorted(rng, 1, 10, [0.0]), 'angstrom'))
        return lambda: P.KT.time_at_sample_from_tof(pulse_time=pt, tof=tof, L2=l2, wavelength=lam)

    # ------------------------------------------------------------ chopper.DiskChopper
    slit_sets = {  # (begin, end) in deg: the docs allow any order; slits live on a circle
        'slits-unsorted': ([200.0, 10.0, 100.0], [250.0, 60.0, 150.0]),
        'slits-beyond-one-turn': ([350.0, 380.0, 460.0], [370.0, 440.0, 500.0]),
        'slits-negative': ([-90.0, -20.0, 60.0], [-40.0, 10.0, 120.0]),
        'slits-many-turns': ([3600.0 + 10.0, 720.0 + 100.0], [3600.0 + 60.0, 720.0 + 150.0]),
    }

    def disk(P, A, begin, end, unit='deg', f=14.0, funit='Hz', phase=(0.5, 'rad'), beam=(0.0, 'rad'),
             axle=(0.0, 0.0, 8.0), **extra):
        conv = (lambda v: np.deg2rad(v)) if unit == 'rad' else (lambda v: np.asarray(v, dtype=float))
        return P.DiskChopper(
            axle_position=A(_vec(axle)), frequency=A(_s(f, funit)), beam_position=A(_s(*beam)), phase=A(_s(*phase)),
            slit_begin=A(_arr(conv(begin), unit, dim='slit')), slit_end=A(_arr(conv(end), unit, dim='slit')), **extra)

    for facet, (b, e) in slit_sets.items():
        for unit in ('deg', 'rad'):
            @case('DiskChopper', f'{facet}[{unit}]')
            def _(P, A, O, rng, b=b, e=e, unit=unit):
                def f():
                    dc = disk(P, A, b, e, unit=unit, f=-28.0, slit_height=A(_arr(rng.uniform(1, 5, len(b)), 'cm', dim='slit')),
                              radius=A(_s(35.0, 'cm')))
                    pf = A(_s(14.0, 'Hz'))
                    dc.time_offset_open(pulse_frequency=pf)
                    dc.time_offset_close(pulse_frequency=pf)
                    dc.open_duration(pulse_frequency=pf)
                    dc.make_svg()
                return f

    @case('DiskChopper', 'slits-overlapping')
    def _(P, A, O, rng):
        return lambda: disk(P, A, [10.0, 350.0], [60.0, 380.0])

    @case('DiskChopper', 'slits-inverted')
    def _(P, A, O, rng):
        return lambda: disk(P, A, [60.0, 100.0], [10.0, 150.0])

    freqs = {  # chopper frequency, unit, pulse frequency, unit
        'frequency-negative': (-14.0, 'Hz', 14.0, 'Hz'),
        'frequency-multiple-of-pulse': (56.0, 'Hz', 14.0, 'Hz'),
        'frequency-fraction-of-pulse': (-7.0, 'Hz', 14.0, 'Hz'),
        'frequency-per-minute': (-840.0, '1/min', 14.0, 'Hz'),
        'pulse-frequency-other-unit': (28.0, 'Hz', 0.014, 'kHz'),
        'frequencies-out-of-phase': (15.0, 'Hz', 14.0, 'Hz'),
        'pulse-frequency-negative': (14.0, 'Hz', -14.0, 'Hz'),
    }
    for facet, (f, fu, pf, pfu) in freqs.items():
        for meth in ('time_offset_open', 'time_offset_close', 'open_duration'):
            @case(f'DiskChopper.{meth}', facet)
            def _(P, A, O, rng, f=f, fu=fu, pf=pf, pfu=pfu, meth=meth):
                dc = O(disk(P, A, *slit_sets['slits-unsorted'], f=f, funit=fu, phase=(-400.0, 'deg'), beam=(7.0, 'rad')))
                p = A(_s(pf, pfu))
                return lambda: getattr(dc, meth)(pulse_frequency=p)

        @case('Chopper.from_disk_chopper', facet)
        def _(P, A, O, rng, f=f, fu=fu, pf=pf, pfu=pfu):
            dc = O(disk(P, A, *slit_sets['slits-beyond-one-turn'], unit='rad', f=f, funit=fu, phase=(-7.0, 'rad'),
                        axle=(3.0, -4.0, 12.0)))
            p = A(_s(pf, pfu))
            return lambda: P.CC.Chopper.from_disk_chopper(dc, pulse_frequency=p, npulses=3)

    for facet, mk in {
        'angle-beyond-one-turn[rad]': lambda: _arr([7.0, -0.5, 100.0, 0.0, 3.0], 'rad', dim='slit'),
        'angle-beyond-one-turn[deg]': lambda: _arr([400.0, -30.0, 7200.0, 0.0, 90.0], 'deg', dim='slit'),
        'angle-scalar': lambda: _s(-7.0, 'rad'),
        'angle-2d-unsorted': lambda: sc.array(dims=['k', 'slit'], values=[[3.0, 1.0, 2.0], [9.0, -8.0, 0.5]], unit='rad'),
    }.items():
        for f in (14.0, -14.0):
            @case('DiskChopper.time_offset_angle_at_beam', f'{facet},{"clockwise" if f < 0 else "anticlockwise"}')
            def _(P, A, O, rng, mk=mk, f=f):
                dc = O(disk(P, A, *slit_sets['slits-negative'], f=f))
                ang = A(mk())
                return lambda: dc.time_offset_angle_at_beam(angle=ang, n_repetitions=3)

    @case('DiskChopper.from_nexus', 'slit_edges-interleaved-unsorted')
    def _(P, A, O, rng):
        dg = O({'position': A(_vec([0.0, 0.0, 8.0])), 'rotation_speed': A(_s(-14.0, 'Hz')),
                'beam_position': A(_s(400.0, 'deg')), 'phase': A(_s(-30.0, 'deg')),
                'slit_edges': A(_arr([200.0, 250.0, 10.0, 60.0, 430.0, 440.0], 'deg', dim='slit')),
                'slit_height': A(_s(3.0, 'cm')), 'radius': A(_s(35.0, 'cm'))})
        return lambda: P.DiskChopper.from_nexus(dg)

    @case('extract_chopper_from_nexus', 'logs-unsorted')
    def _(P, A, O, rng):
        t = sc.datetimes(dims=['time'], values=np.array([5, 1, 3, 2]) * 10**9, unit='ns')
        log = sc.DataArray(_arr([14.0, -14.0, 13.9, 14.1], 'Hz', dim='time'), coords={'time': t})
        dg = O(sc.DataGroup({'position': A(_vec([0.0, 0.0, 8.0])),
                             'rotation_speed': sc.DataGroup({'value': A(log)}),
                             'top_dead_center': sc.DataGroup({'time': A(t)}),
                             'slit_edges': A(_arr([200.0, 250.0, 10.0, 60.0], 'deg', dim='slit'))}))
        return lambda: P.extract_chopper_from_nexus(dg)

    # ------------------------------------------------------------ chopper.filtering
    def signal(rng, order, unit='Hz', tunit='s'):
        lvl = np.repeat([1.0, 5.0, -2.0, -2.0, 7.0], 10) + rng.normal(size=50) * 1e-4
        t = np.arange(50.0)
        return sc.DataArray(_arr(lvl[order], unit, dim='time'), coords={'time': _arr(t[order], tunit, dim='time')})

    @case('find_plateaus', 'time-unsorted')
    def _(P, A, O, rng):
        sig, atol = A(signal(rng, rng.permutation(50))), A(_s(0.01, 'Hz/s'))
        return lambda: P.filtering.find_plateaus(sig, atol=atol, min_n_points=3)

    @case('find_plateaus', 'time-descending')
    def _(P, A, O, rng):
        sig, atol = A(signal(rng, np.arange(50)[::-1])), A(_s(0.01, 'Hz/s'))
        return lambda: P.filtering.find_plateaus(sig, atol=atol, min_n_points=3)

    @case('find_plateaus', 'atol-other-unit-and-variable-min-points')
    def _(P, A, O, rng):
        sig, atol = A(signal(rng, np.arange(50))), A(_s(0.6, '1/(s*min)'))
        npts = A(sc.scalar(3, unit=None))
        return lambda: P.filtering.find_plateaus(sig, atol=atol, min_n_points=npts)

    def plateaus(P, rng):
        return P.filtering.find_plateaus(signal(rng, np.arange(50)), atol=_s(0.01, 'Hz/s'), min_n_points=3)

    @case('collapse_plateaus', 'negative-and-repeated-levels')
    def _(P, A, O, rng):
        pl = A(plateaus(P, rng))
        return lambda: P.filtering.collapse_plateaus(pl)

    for facet, ref in {'reference-per-minute': (60.0, '1/min'), 'reference-negative': (-1.0, 'Hz'),
                       'reference-larger-than-data': (14.0, 'Hz')}.items():
        @case('filter_in_phase', facet)
        def _(P, A, O, rng, ref=ref):
            fr = A(P.filtering.collapse_plateaus(plateaus(P, rng)))
            r, rtol = A(_s(*ref)), A(sc.scalar(0.05))
            return lambda: P.filtering.filter_in_phase(fr, reference=r, rtol=rtol)

    # ------------------------------------------------------------ tof.chopper_cascade
    @case('propagate_times', 'distance-negative-range-other-unit')
    def _(P, A, O, rng):
        t, w = A(_arr(unsorted(rng, 0, 3e-3, [-1e-3]), 's', dim='vertex')), A(_arr(unsorted(rng, 1, 10, [0.0]), 'angstrom', dim='vertex'))
        d = A(_arr([30e3, -5e3, 0.0], 'mm', dim='distance'))
        return lambda: P.CC.propagate_times(t, w, d)

    vertex_orders = {  # the same rectangle, the walk starting anywhere and in either sense
        'vertices-clockwise': ([0.0, 0.0, 3e-3, 3e-3], [1.0, 8.0, 8.0, 1.0]),
        'vertices-start-at-max': ([3e-3, 0.0, 0.0, 3e-3], [8.0, 8.0, 1.0, 1.0]),
    }
    chopper_sets = {  # (distance, unit, open, close): windows in any order, overlapping, inverted, outside
        'windows-unsorted': (8.0, 'm', [15e-3, 5e-3, 40e-3], [20e-3, 9e-3, 45e-3]),
        'windows-overlapping': (8.0, 'm', [5e-3, 7e-3], [9e-3, 12e-3]),
        'windows-inverted': (8.0, 'm', [9e-3, 20e-3], [5e-3, 15e-3]),
        'windows-negative-and-far': (8.0, 'm', [-5e-3, 5.0], [-1e-3, 6.0]),
        'distance-other-unit': (8000.0, 'mm', [5e-3, 15e-3], [9e-3, 20e-3]),
        'distance-equal-to-frame': (0.0, 'm', [1e-3, 2.5e-3], [2e-3, 4e-3]),
        'distance-before-frame': (-2.0, 'm', [1e-3], [2e-3]),
    }

    def frame(P, A, order='vertices-clockwise'):
        t, w = vertex_orders[order]
        return P.CC.Frame(distance=A(_s(0.0, 'm')),
                          subframes=[P.CC.Subframe(time=A(_arr(t, 's', dim='vertex')),
                                                   wavelength=A(_arr(w, 'angstrom', dim='vertex')))])

    def chopper(P, A, d, du, o, c):
        return P.CC.Chopper(distance=A(_s(d, du)), time_open=A(_arr(o, 's', dim='cutout')),
                            time_close=A(_arr(c, 's', dim='cutout')))

    for facet, spec in chopper_sets.items():
        @case('Frame.chop', facet)
        def _(P, A, O, rng, spec=spec):
            fr, ch = O(frame(P, A)), O(chopper(P, A, *spec))
            return lambda: fr.chop(ch)

    for facet in vertex_orders:
        @case('Frame.chop', facet)
        def _(P, A, O, rng, facet=facet):
            fr, ch = O(frame(P, A, facet)), O(chopper(P, A, *chopper_sets['windows-unsorted']))
            return lambda: fr.chop(ch)

        @case('Frame.bounds+subbounds', facet)
        def _(P, A, O, rng, facet=facet):
            fr = O(frame(P, A, facet).chop(chopper(P, A, *chopper_sets['windows-unsorted'])))
            return lambda: (fr.bounds(), fr.subbounds())

    @case('Frame.bounds+subbounds', 'subframe-irregular')
    def _(P, A, O, rng):
        fr = O(P.CC.Frame(distance=A(_s(0.0, 'm')), subframes=[P.CC.Subframe(
            time=A(_arr([3e-3, 0.0, 1e-3, 2e-3], 's', dim='vertex')),
            wavelength=A(_arr([1.0, 8.0, 9.0, 0.5], 'angstrom', dim='vertex')))]))
        return lambda: (fr.bounds(), fr.subbounds())

    @case('Frame.propagate_to', 'distance-backwards-other-unit')
    def _(P, A, O, rng):
        fr, d = O(frame(P, A, 'vertices-start-at-max')), A(_s(-2500.0, 'mm'))
        return lambda: fr.propagate_to(d)

    def source(P, A, swapped=False, units=('s', 'angstrom')):
        tmin, tmax, wmin, wmax = 0.0, 3e-3, 1.0, 8.0
        ts = 1e3 if units[0] == 'ms' else 1.0
        ws = 0.1 if units[1] == 'nm' else 1.0
        if swapped:
            tmin, tmax, wmin, wmax = tmax, tmin, wmax, wmin
        return dict(time_min=A(_s(tmin * ts, units[0])), time_max=A(_s(tmax * ts, units[0])),
                    wavelength_min=A(_s(wmin * ws, units[1])), wavelength_max=A(_s(wmax * ws, units[1])))

    @case('FrameSequence.from_source_pulse', 'min-max-swapped')
    def _(P, A, O, rng):
        kw = source(P, A, swapped=True)
        return lambda: P.CC.FrameSequence.from_source_pulse(**kw)

    @case('FrameSequence.from_source_pulse', 'other-units')
    def _(P, A, O, rng):
        kw = source(P, A, units=('ms', 'nm'))
        return lambda: P.CC.FrameSequence.from_source_pulse(**kw)

    @case('FrameSequence.chop', 'choppers-not-sorted-by-distance')
    def _(P, A, O, rng):
        fs = O(P.CC.FrameSequence.from_source_pulse(**source(P, A)))
        chs = O([chopper(P, A, 15.0, 'm', [30e-3, 10e-3], [40e-3, 20e-3]),
                 chopper(P, A, 8.0, 'm', [15e-3, 5e-3], [20e-3, 9e-3]),
                 chopper(P, A, 8.0, 'm', [5e-3], [30e-3]),
                 chopper(P, A, 11.0, 'm', [5e-3], [30e-3])])
        return lambda: fs.chop(chs)

    @case('FrameSequence.chop', 'choppers-not-sorted-distances-in-different-units')
    def _(P, A, O, rng):
        fs = O(P.CC.FrameSequence.from_source_pulse(**source(P, A)))
        chs = O([chopper(P, A, 15.0, 'm', [30e-3, 10e-3], [40e-3, 20e-3]),
                 chopper(P, A, 8000.0, 'mm', [15e-3, 5e-3], [20e-3, 9e-3])])
        return lambda: fs.chop(chs)

    @case('FrameSequence.chop', 'choppers-as-tuple-in-reverse')
    def _(P, A, O, rng):
        fs = O(P.CC.FrameSequence.from_source_pulse(**source(P, A, swapped=True)))
        chs = O((chopper(P, A, 15.0, 'm', [10e-3], [20e-3]), chopper(P, A, 8.0, 'm', [5e-3], [9e-3])))
        return lambda: fs.chop(chs)

    for facet, d in {'distance-other-unit': (12e3, 'mm'), 'distance-before-source': (-1.0, 'm'),
                     'distance-far-beyond': (1e6, 'm'), 'distance-at-chopper': (8.0, 'm')}.items():
        @case('FrameSequence.__getitem__', facet)
        def _(P, A, O, rng, d=d):
            fs = O(P.CC.FrameSequence.from_source_pulse(**source(P, A)).chop(
                [chopper(P, A, 15.0, 'm', [10e-3], [20e-3]), chopper(P, A, 8.0, 'm', [5e-3], [9e-3])]))
            dist = A(_s(*d))
            return lambda: fs[dist]

        @case('FrameSequence.propagate_to', facet)
        def _(P, A, O, rng, d=d):
            fs = O(P.CC.FrameSequence.from_source_pulse(**source(P, A)).chop(
                [chopper(P, A, 8.0, 'm', [15e-3, 5e-3], [20e-3, 9e-3])]))
            dist = A(_s(*d))
            return lambda: fs.propagate_to(dist)

    # ------------------------------------------------------------ peaks
    def spectrum(rng, order=None, nan=False):
        x = np.linspace(0.0, 10.0, 120)
        y = 5 * np.exp(-((x - 4.0) / 0.3) ** 2) + 3 * np.exp(-((x - 6.5) / 0.25) ** 2) + 1.0 + rng.normal(size=120) * 0.05
        if nan:
            y[[7, 50]] = np.nan
        if order is not None:
            x, y = x[order], y[order]
        da = sc.DataArray(_arr(y, 'one'), coords={'x': _arr(x, 'angstrom')})
        da.variances = np.full(120, 0.05 ** 2)
        return da

    def win2d(rows, unit='angstrom'):
        return sc.array(dims=['x', 'range'], values=np.asarray(rows, dtype=float), unit=unit)

    fit_sets = {  # peak estimates, windows
        'windows-2d-beyond-data-range': ([4.0, 6.5], win2d([[-50.0, 5.0], [5.5, 1e3]])),
        'windows-2d-overlapping-unsorted': ([6.5, 4.0], win2d([[3.0, 9.0], [1.0, 7.0]])),
        'windows-2d-inverted': ([4.0, 6.5], win2d([[5.0, 3.0], [7.5, 5.5]])),
        'windows-2d-other-unit': ([4.0, 6.5], win2d([[0.3, 0.5], [0.55, 0.75]], 'nm')),
        'window-scalar-wider-than-data': ([4.0, 6.5], _s(500.0, 'angstrom')),
        'window-scalar-other-unit': ([4.0, 6.5], _s(0.2, 'nm')),
        'window-scalar-zero': ([4.0, 6.5], _s(0.0, 'angstrom')),
        'estimates-outside-data-range': ([-3.0, 4.0, 6.5, 40.0], _s(2.0, 'angstrom')),
        'estimates-unsorted': ([6.5, 4.0], _s(2.0, 'angstrom')),
        'estimates-closer-than-window': ([4.0, 4.2, 6.5], _s(3.0, 'angstrom')),
    }
    for facet, (est, win) in fit_sets.items():
        @case('fit_peaks', facet)
        def _(P, A, O, rng, est=est, win=win):
            da, e, w = A(spectrum(rng)), A(_arr(est, 'angstrom')), A(win)
            return lambda: P.peaks.fit_peaks(da, peak_estimates=e, windows=w, background='linear', peak='gaussian')

    for facet, kw in {'coordinate-descending': dict(order=np.arange(120)[::-1]), 'data-with-nan': dict(nan=True)}.items():
        @case('fit_peaks', facet)
        def _(P, A, O, rng, kw=kw):
            da, e, w = A(spectrum(rng, **kw)), A(_arr([4.0, 6.5], 'angstrom')), A(_s(2.0, 'angstrom'))
            return lambda: P.peaks.fit_peaks(da, peak_estimates=e, windows=w, background=['linear', 'quadratic'],
                                             peak=['lorentzian', 'gaussian'])

    for facet in ('windows-2d-beyond-data-range', 'windows-2d-overlapping-unsorted'):
        @case('remove_peaks', facet)
        def _(P, A, O, rng, facet=facet):
            est, win = fit_sets[facet]
            da = spectrum(rng)
            res = O(P.peaks.fit_peaks(da, peak_estimates=_arr(est, 'angstrom'), windows=win.copy(), background='linear',
                                      peak='gaussian'))
            nv = A(sc.DataArray(sc.values(da.data), coords={'x': da.coords['x']}))
            return lambda: P.peaks.remove_peaks(nv, res)

    @case('FitResult.eval', 'x-unsorted-beyond-window')
    def _(P, A, O, rng):
        est, win = fit_sets['windows-2d-beyond-data-range']
        res = O(P.peaks.fit_peaks(spectrum(rng), peak_estimates=_arr(est, 'angstrom'), windows=win.copy(),
                                  background='linear', peak='gaussian'))
        x = A(_arr(unsorted(rng, -50, 50), 'angstrom'))
        return lambda: [(r.eval_model(x), r.eval_peak(x), r.report()) for r in res]

    for mname in ('GaussianModel', 'LorentzianModel', 'PseudoVoigtModel'):
        @case(f'{mname}.__call__', 'x-unsorted-scale-negative')
        def _(P, A, O, rng, mname=mname):
            m = O(getattr(P.peaks.model, mname)(prefix='p_'))
            x = A(_arr(unsorted(rng, -5, 15, [4.0]), 'angstrom'))
            pr = {'p_amplitude': A(sc.scalar(-2.0)), 'p_loc': A(_s(4.0, 'angstrom')), 'p_scale': A(_s(-0.3, 'angstrom'))}
            if 'p_fraction' in m.param_names:
                pr['p_fraction'] = A(sc.scalar(1.7))
            pr = O(pr)
            return lambda: (m(x, **pr), m.fwhm(pr))

        @case(f'{mname}.guess', 'data-unsorted')
        def _(P, A, O, rng, mname=mname):
            m = O(getattr(P.peaks.model, mname)(prefix='p_'))
            da = A(spectrum(rng, order=rng.permutation(120)))
            return lambda: m.guess(da)

    @case('PolynomialModel', 'x-unsorted-negative')
    def _(P, A, O, rng):
        m = O(P.peaks.model.PolynomialModel(degree=2, prefix='b_'))
        x = A(_arr(unsorted(rng, -5, 15, [0.0]), 'angstrom'))
        pr = O({'b_a0': A(_s(-1.0, '1/angstrom')), 'b_a1': A(_s(0.0, '1/angstrom^2')), 'b_a2': A(_s(1e6, '1/angstrom^3'))})
        da = A(spectrum(rng, order=rng.permutation(120)))
        return lambda: (m(x, **pr), m.guess(da))

    # ------------------------------------------------------------ absorption
    axes = {  # symmetry line of the cylinder: the quadrature is rotated from z onto it
        'axis-y': [0.0, 1.0, 0.0], 'axis-z': [0.0, 0.0, 1.0], 'axis-minus-z': [0.0, 0.0, -1.0],
        'axis-tilted': [0.6, 0.0, 0.8], 'axis-not-normalised': [0.0, 3.0, 4.0],
    }
    beams = {  # beam_direction: documented as a direction, i.e. any length
        'beam-length-25': [0.0, 0.0, 25.0], 'beam-length-1e-3': [0.0, 0.0, 1e-3],
        'beam-off-axis-any-length': [0.3, -0.2, 2.0], 'beam-nearly-unit': [0.0, 0.0, 1.0 + 1e-4],
        'beam-along-cylinder-axis': [0.0, 7.0, 0.0], 'beam-reversed': [0.0, 0.0, -1.0],
    }

    def cylinder(P, A, axis='axis-y', unit='cm'):
        k = 1.0 if unit == 'cm' else 10.0
        return P.Cylinder(symmetry_line=A(_vec(axes[axis], 'one')), center_of_base=A(_vec([0.0, -0.5 * k, 0.0], unit)),
                          radius=A(_s(0.5 * k, unit)), height=A(_s(1.0 * k, unit)))

    def material(P, A):
        return P.Material(scattering_params=P.ScatteringParams.for_isotope('V'),
                          effective_sample_number_density=A(_s(0.07, '1/angstrom^3')))

    def transmission(P, A, O, rng, axis='axis-y', beam=(0.0, 0.0, 1.0), det=None, wl=None, cunit='cm'):
        cyl, mat = O(cylinder(P, A, axis, cunit)), O(material(P, A))
        b = A(_vec(beam, 'one'))
        w = A(wl if wl is not None else sc.linspace('wavelength', 0.5, 5.0, 3, unit='angstrom'))
        d = A(det if det is not None else _vecs(rng.normal(size=(4, 3)) * 100, 'cm'))
        return lambda: P.compute_transmission_map(cyl, mat, beam_direction=b, wavelength=w, detector_position=d,
                                                  quadrature_kind='cheap')

    for facet, bv in beams.items():
        @case('compute_transmission_map', facet)
        def _(P, A, O, rng, bv=bv):
            return transmission(P, A, O, rng, beam=bv)

    @case('compute_transmission_map', 'beam-from-positions')
    def _(P, A, O, rng):
        src, smp = _vec([0.0, 0.0, -25.0], 'one'), _vec([0.0, 0.0, 0.0], 'one')
        return transmission(P, A, O, rng, beam=(smp - src).value)

    for facet in axes:
        @case('compute_transmission_map', facet)
        def _(P, A, O, rng, facet=facet):
            return transmission(P, A, O, rng, axis=facet, beam=(0.0, 0.1, 3.0))

    for facet, mk in {
        'detectors-far-away': lambda rng: _vecs(_scaled_rows(rng, [1e3, 1e6, 1e9, 1e12]), 'cm'),
        'detectors-inside-sample-other-unit': lambda rng: _vecs(rng.normal(size=(4, 3)) * 1e-3, 'm'),
        'detectors-2d': lambda rng: sc.vectors(dims=['x', 'y'], values=rng.normal(size=(2, 3, 3)) * 50, unit='cm'),
    }.items():
        @case('compute_transmission_map', facet)
        def _(P, A, O, rng, mk=mk):
            return transmission(P, A, O, rng, beam=(0.0, 0.0, 25.0), det=mk(rng))

    for facet, wl in {'wavelength-unsorted-zero-negative': _arr([5.0, 0.0, -1.0, 2.0], 'angstrom', dim='wavelength'),
                      'wavelength-other-unit': _arr([0.5, 0.05, 0.2], 'nm', dim='wavelength')}.items():
        @case('compute_transmission_map', facet)
        def _(P, A, O, rng, wl=wl):
            return transmission(P, A, O, rng, beam=(0.0, 0.0, 25.0), wl=wl, cunit='mm')

    for facet, mk in {
        'direction-any-length': lambda rng: _vecs(_scaled_rows(rng, far), 'one'),
        'direction-parallel-and-perpendicular-to-axis': lambda rng: _vecs(
            [[0, 5.0, 0], [0, -1e-3, 0], [2.0, 0, 0], [0, 0, -3.0], [1e-9, 1.0, 0]], 'one'),
    }.items():
        @case('Cylinder.beam_intersection', facet)
        def _(P, A, O, rng, mk=mk):
            cyl = O(cylinder(P, A, 'axis-y'))
            start = A(_vecs(_scaled_rows(rng, [1e-3, 0.1, 0.3, 5.0, 1e3]), 'cm'))
            direction = A(mk(rng))
            return lambda: cyl.beam_intersection(start, direction)

    for facet in axes:
        @case('Cylinder.quadrature', facet)
        def _(P, A, O, rng, facet=facet):
            cyl = O(cylinder(P, A, facet, 'mm'))
            return lambda: (cyl.quadrature('cheap'), cyl.quadrature('medium'), cyl.center, cyl.volume)

    @case('Material.attenuation_coefficient', 'wavelength-unsorted-other-unit')
    def _(P, A, O, rng):
        mat, wl = O(material(P, A)), A(_arr([0.5, 0.0, -0.1, 0.05], 'nm', dim='wavelength'))
        return lambda: mat.attenuation_coefficient(wl)

    # ------------------------------------------------------------ io
    def powder(rng, coord='tof', unit='us', order=None, scale=1.0):
        nn = 6
        x = np.linspace(1.0, 9.0, nn) * scale
        y = rng.random(nn) - 0.3
        if order is not None:
            x, y = x[order], y[order]
        v = rng.random(nn) * 0.01
        v[0] = 0.0
        return sc.DataArray(sc.array(dims=[coord], values=y, variances=v), coords={coord: _arr(x, unit, dim=coord)})

    for facet, kw in {'coordinate-unsorted-negative-intensity': dict(order=[3, 0, 5, 1, 4, 2]),
                      'coordinate-descending-dspacing': dict(coord='dspacing', unit='angstrom', order=[5, 4, 3, 2, 1, 0]),
                      'coordinate-huge': dict(scale=1e12)}.items():
        @case('CIF.with_reduced_powder_data+save', facet)
        def _(P, A, O, rng, kw=kw):
            da = A(powder(rng, **kw))
            return lambda: P.cif.CIF('a').with_reduced_powder_data(da, comment='c').save(io.StringIO())

        @case('save_xye', facet)
        def _(P, A, O, rng, kw=kw):
            da = A(powder(rng, **kw))
            return lambda: P.save_xye(io.StringIO(), da)

    @case('CIF.with_powder_calibration+save', 'powers-unsorted-repeated')
    def _(P, A, O, rng):
        cal = A(sc.DataArray(sc.array(dims=['cal'], values=[3.0, -1.0, 0.0, 2.5], variances=[0.1, 0.0, 0.2, 0.1]),
                             coords={'power': sc.array(dims=['cal'], values=[2, 0, 1, 0])}))
        return lambda: P.cif.CIF('a').with_powder_calibration(cal).save(io.StringIO())

    @case('SqwBuilder.create', 'vectors-not-normalised-angles-beyond-turn')
    def _(P, A, O, rng):
        S = P.sqw
        npx = 5
        exps = O([S.SqwIXExperiment(
            run_id=r, efix=A(_s(1.5 + r, 'meV')), emode=S.EnergyMode.direct,
            en=A(_arr([4.0, -1.0, 2.5], 'meV', dim='energy_transfer')),
            psi=A(_s(7.0, 'rad')), u=A(_vec([0.0, 30.0, 0.5], 'one')), v=A(_vec([1e-3, 1e-3, 0.0], 'one')),
            omega=A(_s(-0.1, 'rad')), dpsi=A(_s(400.0, 'deg')), gl=A(_s(-7.0, 'rad')), gs=A(_s(0.0, 'rad')),
            filename=f'run{r}.nxspe', filepath='/data') for r in range(2)])
        pix = A(sc.DataArray(
            sc.array(dims=['obs'], values=rng.normal(size=npx), variances=rng.random(npx), unit='count'),
            coords={**{f'u{i}': _arr(rng.normal(size=npx) * far, '1/angstrom', dim='obs') for i in (1, 2, 3)},
                    'u4': _arr(unsorted(rng, -5, 5), 'meV', dim='obs'),
                    **{k: sc.array(dims=['obs'], values=(np.arange(npx)[::-1]) % 2, unit=None, dtype='int64')
                       for k in ('idet', 'irun', 'ien')}}))
        sample = O(S.SqwIXSample(name='s', lattice_spacing=A(_vec([4.0, 2.0, 3.0], 'angstrom')),
                                 lattice_angle=A(_vec([np.pi / 2, 2.0, 1.0], 'rad'))))

        def build():
            b = S.Sqw.build(io.BytesIO(), byteorder='big')
            b.add_pixel_data(pix, experiments=exps).add_default_sample(sample).create()
        return build

    # ------------------------------------------------------------ convert / beamline components
    def beamline_da(rng, tof, scale=1.0, unit='m', gravity=None):
        nn = len(far)
        coords = {'tof': tof,
                  'position': _vecs(_scaled_rows(rng, far) * scale + [0.1, 0.2, 0.3], unit),
                  'source_position': _vec(np.array([0.1, 0.2, -25.0]) * scale, unit),
                  'sample_position': _vec(np.array([0.1, 0.2, 0.3]) * scale, unit)}
        if gravity is not None:
            coords['gravity'] = _vec(gravity, 'm/s^2')
        return sc.DataArray(sc.ones(dims=['x', 'tof'], shape=[nn, tof.sizes['tof']]), coords=coords)

    tofs = {
        'tof-unsorted-zero-negative': lambda: _arr([9e3, 0.0, -5.0, 2e3], 'us', dim='tof'),
        'tof-descending-edges': lambda: _arr([9e3, 7e3, 4e3, 2e3, 1e3], 'us', dim='tof'),
    }
    for facet, mk in tofs.items():
        for tgt in ('wavelength', 'dspacing', 'Q', 'energy'):
            @case(f'convert[{tgt}]', facet + ',positions-far-off-origin')
            def _(P, A, O, rng, mk=mk, tgt=tgt):
                da = A(beamline_da(rng, mk(), scale=1e3, unit='mm'))
                return lambda: P.scn.convert(da, 'tof', tgt, scatter=True)

    for fname in ('position', 'source_position', 'sample_position', 'incident_beam', 'scattered_beam', 'L1', 'L2',
                  'two_theta'):
        @case(f'scn.{fname}', 'positions-far-off-origin')
        def _(P, A, O, rng, fname=fname):
            da = A(beamline_da(rng, tofs['tof-unsorted-zero-negative']()))
            return lambda: getattr(P.scn, fname)(da)

    @case('scn.Ltotal', 'positions-far-off-origin')
    def _(P, A, O, rng):
        da = A(beamline_da(rng, tofs['tof-unsorted-zero-negative']()))
        return lambda: (P.scn.Ltotal(da, scatter=True), P.scn.Ltotal(da, scatter=False))

    for facet, gv in gravities.items():
        @case('transform_coords[gravity graph]', facet)
        def _(P, A, O, rng, gv=gv):
            tof = _arr([9e3, 2e3, 4e3], 'us', dim='tof')
            da = A(beamline_da(rng, tof, gravity=gv))
            graph = {**P.GB.beamline(scatter=True), **P.GT.elastic_wavelength('tof'),
                     'two_theta': lambda incident_beam, scattered_beam, wavelength, gravity:
                         P.KB.scattering_angles_with_gravity(incident_beam, scattered_beam, wavelength, gravity)['two_theta']}
            graph = O(graph)
            return lambda: da.transform_coords(['two_theta'], graph=graph)

    # ------------------------------------------------ values a clean-up step would touch: non-finite, zero, masked
    nf = [np.nan, np.inf, -np.inf, 0.0, 3.0]
    nf_rows = [[0.0, 0.0, 0.0], [np.nan, 1.0, 1.0], [np.inf, 0.0, 1.0], [0.0, -0.0, -1e-300], [1.0, 2.0, 3.0]]

    @case('two_theta', 'zero-length-and-non-finite-beams')
    def _(P, A, O, rng):
        b1, b2 = A(_vec([0.0, 0.0, 25.0])), A(_vecs(nf_rows))
        return lambda: (P.KB.two_theta(incident_beam=b1, scattered_beam=b2), P.KB.L2(scattered_beam=b2))

    @case('two_theta', 'zero-length-incident-beam')
    def _(P, A, O, rng):
        b1, b2 = A(_vec([0.0, 0.0, 0.0])), A(_vecs(_scaled_rows(rng, far)))
        return lambda: P.KB.two_theta(incident_beam=b1, scattered_beam=b2)

    for fname in ('scattering_angles_with_gravity', 'scattering_angle_in_yz_plane'):
        @case(fname, 'gravity-zero')
        def _(P, A, O, rng, fname=fname):
            kw = gravity_args(A, rng, [0.0, 0.0, 0.0])
            return lambda: getattr(P.KB, fname)(**kw)

        @case(fname, 'non-finite-wavelength-and-beams')
        def _(P, A, O, rng, fname=fname):
            kw = gravity_args(A, rng, g_std)
            kw['wavelength'] = A(_arr(np.asarray(nf) * 1e-10, 'm'))
            kw['scattered_beam'] = A(_vecs(nf_rows))
            return lambda: getattr(P.KB, fname)(**kw)

    @case('beam_aligned_unit_vectors', 'gravity-zero-or-non-finite')
    def _(P, A, O, rng):
        b, g = A(_vec([0.0, 0.0, 25.0])), A(_vecs([[0.0, 0.0, 0.0], [0.0, np.nan, 0.0], [0.0, -np.inf, 0.0]], 'm/s^2'))
        return lambda: P.KB.beam_aligned_unit_vectors(incident_beam=b, gravity=g)

    kernels_1d = {  # kernel -> its arguments (name, unit); each gets non-finite / zero values in the canonical unit
        'wavelength_from_tof': [('tof', 'us'), ('Ltotal', 'm')],
        'energy_from_tof': [('tof', 'us'), ('Ltotal', 'm')],
        'dspacing_from_tof': [('tof', 'us'), ('Ltotal', 'm'), ('two_theta', 'rad')],
        'energy_transfer_direct_from_tof': [('tof', 'us'), ('L1', 'm'), ('L2', 'm'), ('incident_energy', 'meV')],
        'energy_transfer_indirect_from_tof': [('tof', 'us'), ('L1', 'm'), ('L2', 'm'), ('final_energy', 'meV')],
        'energy_from_wavelength': [('wavelength', 'angstrom')],
        'wavelength_from_energy': [('energy', 'meV')],
        'Q_from_wavelength': [('wavelength', 'angstrom'), ('two_theta', 'rad')],
        'wavelength_from_Q': [('Q', '1/angstrom'), ('two_theta', 'rad')],
        'dspacing_from_wavelength': [('wavelength', 'angstrom'), ('two_theta', 'rad')],
        'dspacing_from_energy': [('energy', 'meV'), ('two_theta', 'rad')],
    }
    for name, spec in kernels_1d.items():
        for dt in ('float64', 'float32'):
            @case(name, f'non-finite-and-zero[{dt}]')
            def _(P, A, O, rng, name=name, spec=spec, dt=dt):
                kw = {arg: A(_arr(rng.permutation(nf), unit, dtype=dt)) for arg, unit in spec}
                return lambda: getattr(P.KT, name)(**kw)

    @case('Q_elements_from_wavelength', 'zero-length-and-non-finite-beams')
    def _(P, A, O, rng):
        lam, b1, b2 = A(_arr(nf, 'angstrom')), A(_vec([0.0, 0.0, 0.0])), A(_vecs(nf_rows))
        return lambda: P.KT.Q_elements_from_wavelength(wavelength=lam, incident_beam=b1, scattered_beam=b2)

    @case('hkl_vec_from_Q_vec', 'singular-ub-matrix')
    def _(P, A, O, rng):
        q = A(_vecs(nf_rows, '1/angstrom'))
        ub = A(sc.spatial.linear_transform(value=[[1.0, 2.0, 3.0], [2.0, 4.0, 6.0], [0.0, 0.0, 0.0]], unit='1/angstrom'))
        rot = A(sc.spatial.rotations_from_rotvecs(_vec([0.0, 0.0, 0.0], 'rad')))
        return lambda: P.KT.hkl_vec_from_Q_vec(Q_vec=q, ub_matrix=ub, sample_rotation=rot)

    @case('propagate_times', 'non-finite-and-zero')
    def _(P, A, O, rng):
        t, w, d = A(_arr(nf, 's', dim='vertex')), A(_arr(nf[::-1], 'angstrom', dim='vertex')), A(_s(np.inf, 'm'))
        return lambda: P.CC.propagate_times(t, w, d)

    @case('Frame.chop', 'windows-non-finite')
    def _(P, A, O, rng):
        fr, ch = O(frame(P, A)), O(chopper(P, A, 8.0, 'm', [-np.inf, np.nan, 5e-3], [5e-3, 9e-3, np.inf]))
        return lambda: fr.chop(ch)

    @case('DiskChopper.time_offset_angle_at_beam', 'angle-non-finite')
    def _(P, A, O, rng):
        dc, ang = O(disk(P, A, *slit_sets['slits-unsorted'])), A(_arr(nf, 'rad', dim='slit'))
        return lambda: dc.time_offset_angle_at_beam(angle=ang, n_repetitions=2)

    @case('compute_transmission_map', 'beam-zero-length')
    def _(P, A, O, rng):
        return transmission(P, A, O, rng, beam=(0.0, 0.0, 0.0))

    @case('compute_transmission_map', 'beam-non-finite')
    def _(P, A, O, rng):
        return transmission(P, A, O, rng, beam=(0.0, np.nan, np.inf))

    @case('compute_transmission_map', 'detectors-and-wavelength-non-finite')
    def _(P, A, O, rng):
        return transmission(P, A, O, rng, beam=(0.0, 0.0, 25.0), det=_vecs(nf_rows, 'cm'),
                            wl=_arr([np.nan, np.inf, 0.0, 2.0], 'angstrom', dim='wavelength'))

    @case('Cylinder.beam_intersection', 'direction-zero-length-and-non-finite')
    def _(P, A, O, rng):
        cyl = O(cylinder(P, A, 'axis-not-normalised'))
        start, direction = A(_vecs(_scaled_rows(rng, [1e-3, 0.1, 0.3, 5.0, 1e3]), 'cm')), A(_vecs(nf_rows, 'one'))
        return lambda: cyl.beam_intersection(start, direction)

    def masked(da, rng, nan_at=()):
        d = da.dims[-1]
        da = da.copy()
        if nan_at:
            vals = da.values
            vals[..., list(nan_at)] = np.nan
        da.masks['m'] = sc.array(dims=[d], values=rng.random(da.sizes[d]) < 0.2)
        return da

    @case('find_plateaus', 'data-with-nan-and-masks')
    def _(P, A, O, rng):
        sig, atol = A(masked(signal(rng, np.arange(50)), rng, nan_at=(3, 27))), A(_s(0.01, 'Hz/s'))
        return lambda: P.filtering.find_plateaus(sig, atol=atol, min_n_points=3)

    @case('fit_peaks', 'data-with-masks')
    def _(P, A, O, rng):
        da, e, w = A(masked(spectrum(rng), rng)), A(_arr([4.0, 6.5], 'angstrom')), A(_s(2.0, 'angstrom'))
        return lambda: P.peaks.fit_peaks(da, peak_estimates=e, windows=w, background='linear', peak='gaussian')

    @case('remove_peaks', 'data-with-masks-and-nan')
    def _(P, A, O, rng):
        da = spectrum(rng)
        res = O(P.peaks.fit_peaks(da, peak_estimates=_arr([4.0, 6.5], 'angstrom'), windows=_s(2.0, 'angstrom'),
                                  background='linear', peak='gaussian'))
        nv = A(masked(sc.DataArray(sc.values(da.data), coords={'x': da.coords['x']}), rng, nan_at=(40, 41, 70)))
        return lambda: P.peaks.remove_peaks(nv, res)

    for tgt in ('wavelength', 'dspacing', 'Q', 'energy'):
        @case(f'convert[{tgt}]', 'masks-and-non-finite-tof')
        def _(P, A, O, rng, tgt=tgt):
            da = A(masked(beamline_da(rng, _arr([np.nan, 0.0, np.inf, 2e3], 'us', dim='tof')), rng, nan_at=(1,)))
            return lambda: P.scn.convert(da, 'tof', tgt, scatter=True)

    @case('save_xye', 'nan-and-masks')
    def _(P, A, O, rng):
        da = A(masked(powder(rng), rng, nan_at=(2,)))
        return lambda: P.save_xye(io.StringIO(), da)

    @case('CIF.with_reduced_powder_data+save', 'nan-and-masks')
    def _(P, A, O, rng):
        da = A(masked(powder(rng), rng, nan_at=(2,)))
        return lambda: P.cif.CIF('a').with_reduced_powder_data(da).save(io.StringIO())

    # ===================================================== configuration objects are arguments, too
    # Everything a caller hands over that is not a scipp object -- parameter / requirement dataclasses, shape and
    # material descriptions, metadata models, file-format model dataclasses -- is caller-owned state as well.  Code
    # that validates, clamps, normalises or fills in defaults of such an object only writes for field values that
    # are NOT already what it wants, so every field gets every kind of value a caller can put there.
    nan, inf = float('nan'), float('inf')
    config_values = {
        'negative': -0.5, 'zero': 0.0, 'in-range': 0.25, 'one': 1.0, 'just-above-one': 1.0 + 1e-9, 'large': 7.5,
        'nan': nan, 'inf': inf, 'np.float64-negative': np.float64(-0.25),
    }
    config_typed = {  # the same fields holding every numeric type a caller may use, signed zeros, -inf
        'FitParameters': [dict(guess_background_fraction=np.float32(0.5), neighbor_separation_factor=2),
                          dict(guess_background_fraction=True, neighbor_separation_factor=np.int64(-1)),
                          dict(guess_background_fraction=-0.0, neighbor_separation_factor=-inf),
                          dict(guess_background_fraction=1, neighbor_separation_factor=-1e-3)],
        'FitRequirements': [dict(min_p_value=np.float32(0.01), max_peak_width_factor=2, min_peak_width_factor=np.int64(1)),
                            dict(min_p_value=False, max_peak_width_factor=-0.0, min_peak_width_factor=-inf),
                            dict(min_p_value=0, max_peak_width_factor=np.float64(inf), min_peak_width_factor=True)],
    }
    config_fields = {'FitParameters': ('guess_background_fraction', 'neighbor_separation_factor'),
                     'FitRequirements': ('min_p_value', 'max_peak_width_factor', 'min_peak_width_factor')}

    def fit_with(P, A, O, rng, fpar, freq, estimates=(4.0, 6.5), **kw):
        """fit_peaks through both window paths (scalar width: windows are derived with the fit parameters;
        2d: windows are taken as given) with explicit, caller-owned configuration objects."""
        da, e = A(spectrum(rng)), A(_arr(list(estimates), 'angstrom'))
        w0 = A(_s(2.0, 'angstrom'))
        w2 = A(win2d([[c - 1.0, c + 1.0] for c in estimates]))
        kw = {'background': 'linear', 'peak': 'gaussian', **kw}
        return _each(*[lambda w=w: P.peaks.fit_peaks(da, peak_estimates=e, windows=w, fit_parameters=fpar,
                                                     fit_requirements=freq, **kw) for w in (w0, w2)])

    for cname, fields in config_fields.items():
        for field in fields:
            for vname, val in config_values.items():
                @case('fit_peaks', f'config:{cname}.{field}={vname}', layouts=one_layout())
                def _(P, A, O, rng, cname=cname, field=field, val=val):
                    fpar = O(P.peaks.FitParameters(**({field: val} if cname == 'FitParameters' else {})))
                    freq = O(P.peaks.FitRequirements(**({field: val} if cname == 'FitRequirements' else {})))
                    return fit_with(P, A, O, rng, fpar, freq)

    for cname, sets in config_typed.items():
        for i, kw in enumerate(sets):
            @case('fit_peaks', f'config:{cname}-fields-of-other-numeric-types-{i}', layouts=one_layout())
            def _(P, A, O, rng, cname=cname, kw=kw):
                fpar = O(P.peaks.FitParameters(**(kw if cname == 'FitParameters' else {})))
                freq = O(P.peaks.FitRequirements(**(kw if cname == 'FitRequirements' else {})))
                return fit_with(P, A, O, rng, fpar, freq)

    @case('fit_peaks', 'config:explicit-defaults-and-None')
    def _(P, A, O, rng):
        fpar, freq = O(P.peaks.FitParameters()), O(P.peaks.FitRequirements())
        return _each(fit_with(P, A, O, rng, fpar, freq), fit_with(P, A, O, rng, None, freq),
                     fit_with(P, A, O, rng, fpar, None))

    @case('fit_peaks', 'config:all-fields-out-of-range')
    def _(P, A, O, rng):
        fpar = O(P.peaks.FitParameters(guess_background_fraction=-3.0, neighbor_separation_factor=-2.0))
        freq = O(P.peaks.FitRequirements(min_p_value=-1.0, max_peak_width_factor=-1.0, min_peak_width_factor=1e9))
        return fit_with(P, A, O, rng, fpar, freq)

    @case('fit_peaks', 'config:subclass-and-duck-typed-stand-in')
    def _(P, A, O, rng):
        import types

        class MyParameters(P.peaks.FitParameters):  # a subclass has a __dict__ next to the slots
            def __init__(self, note, **kw):
                super().__init__(**kw)
                self.note = note

        sub = O(MyParameters('mine', neighbor_separation_factor=-0.5, guess_background_fraction=1.5))
        duck = O(types.SimpleNamespace(guess_background_fraction=-0.2, neighbor_separation_factor=1.5))
        duck_req = O(types.SimpleNamespace(min_p_value=2.0, max_peak_width_factor=-1.0, min_peak_width_factor=0.0))
        return _each(fit_with(P, A, O, rng, sub, O(P.peaks.FitRequirements())),
                     fit_with(P, A, O, rng, duck, duck_req))

    @case('fit_peaks', 'config:caller-owned-model-instances')
    def _(P, A, O, rng):
        M = P.peaks.model
        bkg = O([M.PolynomialModel(degree=1, prefix='mine_'), M.PolynomialModel(degree=2)])
        pk = O((M.GaussianModel(prefix='peak_'), M.LorentzianModel(prefix='')))
        single = O(M.GaussianModel(prefix='bkg_'))  # prefixed like the names fit_peaks hands out itself
        fpar, freq = O(P.peaks.FitParameters()), O(P.peaks.FitRequirements(min_p_value=0.999))  # the first model rarely suffices
        return _each(fit_with(P, A, O, rng, fpar, freq, background=bkg, peak=pk),
                     fit_with(P, A, O, rng, fpar, freq, background=bkg[0], peak=single))

    # ---- sample shape / material descriptions
    shape_sets = {  # radius, height (cm), centre unit, axis
        'cylinder-radius-zero': dict(radius=0.0), 'cylinder-radius-negative': dict(radius=-0.5),
        'cylinder-height-zero': dict(height=0.0), 'cylinder-height-negative': dict(height=-1.0),
        'cylinder-radius-nan': dict(radius=nan), 'cylinder-axis-zero-length': dict(axis=[0.0, 0.0, 0.0]),
        'cylinder-axis-with-length-unit': dict(axis=[0.0, 2.0, 0.0], axis_unit='cm'),
        'cylinder-mixed-units': dict(radius_unit='mm', height_unit='m', radius=5.0, height=0.01),
    }
    material_sets = {
        'material-density-negative': dict(density=-0.07), 'material-density-zero': dict(density=0.0),
        'material-density-nan': dict(density=nan), 'material-density-other-unit': dict(density=7e22, unit='1/cm^3'),
        'material-density-with-variance': dict(density=0.07, variance=1e-4),
        'material-user-made-scattering-params': dict(density=0.07, custom=True),
    }

    def cylinder2(P, A, radius=0.5, height=1.0, axis=(0.0, 1.0, 0.0), axis_unit='one', radius_unit='cm',
                  height_unit='cm', cls=None):
        return (cls or P.Cylinder)(symmetry_line=A(_vec(axis, axis_unit)), center_of_base=A(_vec([0.0, -0.5, 0.0], 'cm')),
                                   radius=A(_s(radius, radius_unit)), height=A(_s(height, height_unit)))

    def material2(P, A, O, density=0.07, unit='1/angstrom^3', variance=None, custom=False, cls=None):
        sp = P.ScatteringParams.for_isotope('V')
        if custom:  # a caller may describe a material that is not in the table
            sp = O(P.ScatteringParams(
                isotope='mine', coherent_scattering_length_re=A(sc.scalar(3.0, variance=0.01, unit='fm')),
                coherent_scattering_length_im=None, incoherent_scattering_length_re=None,
                incoherent_scattering_length_im=None, coherent_scattering_cross_section=A(_s(-1.0, 'barn')),
                incoherent_scattering_cross_section=A(sc.scalar(5.0, variance=0.2, unit='barn')),
                total_scattering_cross_section=A(_s(5.1, 'barn')),
                absorption_cross_section=A(sc.scalar(nan, variance=-1.0, unit='barn'))))
        d = sc.scalar(float(density), unit=unit) if variance is None else sc.scalar(float(density), variance=variance, unit=unit)
        return (cls or P.Material)(scattering_params=sp, effective_sample_number_density=A(d))

    def transmission2(P, A, O, rng, cyl, mat):
        cyl, mat = O(cyl), O(mat)
        b, w = A(_vec([0.0, 0.1, 3.0], 'one')), A(sc.linspace('wavelength', 0.5, 5.0, 3, unit='angstrom'))
        d = A(_vecs(rng.normal(size=(4, 3)) * 100, 'cm'))
        return lambda: P.compute_transmission_map(cyl, mat, beam_direction=b, wavelength=w, detector_position=d,
                                                  quadrature_kind='cheap')

    for facet, kw in shape_sets.items():
        @case('compute_transmission_map', 'config:' + facet)
        def _(P, A, O, rng, kw=kw):
            return transmission2(P, A, O, rng, cylinder2(P, A, **kw), material2(P, A, O))

        @case('Cylinder', 'config:' + facet, layouts=one_layout())
        def _(P, A, O, rng, kw=kw):
            cyl = O(cylinder2(P, A, **kw))
            start, direction = A(_vecs(rng.normal(size=(4, 3)) * 0.3, 'cm')), A(_vecs(rng.normal(size=(4, 3)), 'one'))
            return _each(lambda: cyl.beam_intersection(start, direction), lambda: cyl.quadrature('cheap'),
                         lambda: cyl.quadrature('medium'), lambda: (cyl.center, cyl.volume))

    for facet, kw in material_sets.items():
        @case('compute_transmission_map', 'config:' + facet)
        def _(P, A, O, rng, kw=kw):
            return transmission2(P, A, O, rng, cylinder2(P, A), material2(P, A, O, **kw))

        @case('Material.attenuation_coefficient', 'config:' + facet, layouts=one_layout())
        def _(P, A, O, rng, kw=kw):
            mat, wl = O(material2(P, A, O, **kw)), A(_arr([0.5, 1.8, 5.0], 'angstrom', dim='wavelength'))
            return lambda: mat.attenuation_coefficient(wl)

    @case('compute_transmission_map', 'config:subclasses-overriding-the-polymorphic-methods')
    def _(P, A, O, rng):
        seen = []

        class ThickCylinder(P.Cylinder):
            def beam_intersection(self, start, direction):
                seen.append('shape')
                return super().beam_intersection(start, direction) * 2.0

        class GreyMaterial(P.Material):
            def attenuation_coefficient(self, wavelength):
                seen.append('material')
                return super().attenuation_coefficient(wavelength) * 0.5

        return transmission2(P, A, O, rng, cylinder2(P, A, cls=ThickCylinder), material2(P, A, O, cls=GreyMaterial))

    # ---- metadata models handed to the CIF builder
    def people(P):
        Person = P.metadata.Person
        return {
            'plain': Person(name='Jane Doe'),
            'contact': Person(name='Doe, John', orcid_id='0000-0002-1825-0097', email='john@example.com',
                              corresponding=True, role='Principal investigator', address='1 Main St\nTown'),
            'non-ascii': Person(name='Žofia Ångström-Müller', affiliation='Laboratoire Léon', role='données', owner=False),
            'empty-strings': Person(name='', role='', address='', affiliation=''),
            'quotes': Person(name="O'Neil \"Q\" ; #x", role="it's", corresponding=True),
        }

    author_sets = {
        'one-regular': ['plain'], 'one-contact': ['contact'], 'contact-and-regular-with-roles': ['contact', 'non-ascii', 'plain'],
        'same-object-twice': ['contact', 'contact'], 'empty-strings-and-quotes': ['empty-strings', 'quotes'],
        'none': [],
    }
    for facet, names in author_sets.items():
        @case('CIF.with_authors+save', 'config:authors-' + facet, layouts=('plain',))
        def _(P, A, O, rng, names=names):
            ppl = people(P)
            authors = O([ppl[n] for n in names])
            base = O(P.cif.CIF('base', comment='c'))

            def f():
                c1 = base.with_authors(*authors)
                c2 = c1.with_authors(*authors[:1])  # builders derived from builders: the same objects again
                for c in (c1, c2, c1):
                    c.save(io.StringIO())
            return f

    def beamlines(P):
        B, S = P.metadata.Beamline, P.metadata.Source
        return {
            'minimal': (B(name='DREAM'), None),
            'full-with-ess-source': (B(name='DREAM', facility='ESS', site='Lund', revision='2.1'), P.metadata.ESS_SOURCE),
            'own-source-xray': (B(name='X', facility=None, site='S'),
                                S(name=None, source_type=P.metadata.SourceType.SynchrotronXraySource,
                                  probe=P.metadata.RadiationProbe.Xray)),
            'reactor-non-ascii': (B(name='Ünïcode', facility='Fäc'),
                                  S(name='Réacteur', source_type=P.metadata.SourceType.ReactorNeutronSource,
                                    probe=P.metadata.RadiationProbe.Neutron)),
        }

    for facet in ('minimal', 'full-with-ess-source', 'own-source-xray', 'reactor-non-ascii'):
        @case('CIF.with_beamline+save', 'config:beamline-' + facet, layouts=('plain',))
        def _(P, A, O, rng, facet=facet):
            bl, src = beamlines(P)[facet]
            O(bl)
            if src is not None:
                O(src)
            base = O(P.cif.CIF('base'))
            return _each(lambda: base.with_beamline(bl, src, comment='where').save(io.StringIO()),
                         lambda: base.with_beamline(bl, source=src).with_beamline(bl).save(io.StringIO()))

    @case('CIF.with_reducers+save', 'config:reducers-from-software-models', layouts=('plain',))
    def _(P, A, O, rng):
        sw = O([P.metadata.Software(name='ScippNeutron', version='24.11.0', url='https://example.org', doi=None),
                P.metadata.Software(name='ünï', version='')])
        names = O([s.name_version for s in sw] + [s.compact_repr for s in sw])
        base = O(P.cif.CIF('base'))
        return lambda: base.with_reducers(*names).with_reducers(names[0]).save(io.StringIO())

    @case('Chunk/Loop/Block', 'config:schemas-given-by-the-caller', layouts=('plain',))
    def _(P, A, O, rng):
        mine = O(P.cif.CIFSchema(name='mine.dic', version='0.0.1', location='https://example.org/mine.dic'))
        schemas = O({mine, P.cif.CORE_SCHEMA})
        aslist = O([mine, P.cif.PD_SCHEMA, mine])
        content = O({'mine.x': 1, 'mine.y': A(sc.scalar(1.5, variance=0.04, unit='m'))})

        def f():
            ch = P.cif.Chunk(content, schema=schemas)
            lp = P.cif.Loop({'mine.c': A(sc.arange('i', 3.0, unit='s'))}, schema=mine)
            P.cif.save_cif(io.StringIO(), P.cif.Block('b', [ch, lp], schema=aslist))
        return f

    # ---- SQW model dataclasses handed to the SQW builder
    def sqw_models(P, A, O, freq=14.0, n_bins=(3, 1, 2, 2), angles=(90.0, 90.0, 120.0), angle_unit='deg'):
        S = P.sqw
        src = O(S.SqwIXSource(name='src', target_name='tgt', frequency=A(_s(freq, 'Hz'))))
        inst = O(S.SqwIXNullInstrument(name='inst', source=src))
        sample = O(S.SqwIXSample(name='s', lattice_spacing=A(_vec([4.0, 2.0, 3.0], 'angstrom')),
                                 lattice_angle=A(_vec(angles, angle_unit))))
        dnd = O(S.SqwDndMetadata(
            axes=S.SqwLineAxes(
                title='axes', label=['x', 'y', 'z', 'dE'],
                img_scales=[A(_s(1.0, '1/angstrom')), A(_s(2.0, '1/nm')), A(_s(-0.5, '1/angstrom')), A(_s(0.2, 'eV'))],
                img_range=[A(_arr([540.0, -30.0], '1/nm', dim='range')), A(_arr([-0.5, 6.7], '1/angstrom', dim='range')),
                           A(_arr([-5.6, -2.4], '1/angstrom', dim='range')), A(_arr([6.0, 9.1], 'meV', dim='range'))],
                n_bins_all_dims=A(sc.array(dims=['axis'], values=list(n_bins), unit=None)),
                single_bin_defines_iax=A(sc.array(dims=['axis'], values=[False, True, True, True])),
                dax=A(sc.array(dims=['axis'], values=[2, 1, 0, 3], unit=None)),
                offset=[A(_s(1.0, '1/nm')), A(_s(50.0, '1/angstrom')), A(_s(0.0, '1/angstrom')), A(_s(0.0, 'meV'))],
                changes_aspect_ratio=True),
            proj=S.SqwLineProj(
                lattice_spacing=A(_vec([2.1, 2.1, 2.5], 'angstrom')), lattice_angle=A(_vec([np.pi / 2, 7.0, -1.0], 'rad')),
                offset=[A(_s(1.0, '1/nm')), A(_s(50.0, '1/angstrom')), A(_s(0.0, '1/angstrom')), A(_s(0.0, 'meV'))],
                title='proj', label=['x', 'y', 'z', 'dE'], u=A(_vec([0.0, 30.0, 0.0], '1/angstrom')),
                v=A(_vec([1e-3, 0.0, 0.0], '1/nm')), w=None, non_orthogonal=False, type='aaa')))
        return inst, sample, dnd

    def sqw_pixels(rng, npx=5, var=None, dim='obs'):
        v = rng.random(npx) if var is None else np.resize(np.asarray(var, dtype=float), npx)
        return sc.DataArray(
            sc.array(dims=[dim], values=rng.normal(size=npx), variances=v, unit='count'),
            coords={**{f'u{i}': _arr(rng.normal(size=npx), '1/angstrom', dim=dim) for i in (1, 2, 3)},
                    'u4': _arr(rng.normal(size=npx), 'meV', dim=dim),
                    **{k: sc.array(dims=[dim], values=np.arange(npx) % 2, unit=None, dtype='int64')
                       for k in ('idet', 'irun', 'ien')}})

    def sqw_experiments(P, A, n=2, run_id=int, en_dim='energy_transfer'):
        S = P.sqw
        return [S.SqwIXExperiment(
            run_id=run_id(r), efix=A(_s(1.5 + r, 'meV')), emode=S.EnergyMode.direct,
            en=A(_arr([1.0, 2.5, 4.0], 'meV', dim=en_dim)), psi=A(_s(0.3, 'rad')), u=A(_vec([0.0, 1.0, 0.5], 'one')),
            v=A(_vec([1.0, 1.0, 0.0], 'one')), omega=A(_s(0.1, 'rad')), dpsi=A(_s(0.2, 'rad')), gl=A(_s(0.3, 'rad')),
            gs=A(_s(-0.4, 'rad')), filename=f'run{r}.nxspe', filepath='/data') for r in range(n)]

    for facet, kw in {'full-builder': {}, 'source-frequency-negative': dict(freq=-14.0),
                      'source-frequency-nan': dict(freq=nan), 'single-bin-everywhere': dict(n_bins=(1, 1, 1, 1)),
                      'lattice-angles-beyond-turn[rad]': dict(angles=(7.0, -1.0, 400.0), angle_unit='rad')}.items():
        for order in ('native', 'big'):
            @case('SqwBuilder.create', f'config:{facet}[{order}]', layouts=one_layout())
            def _(P, A, O, rng, kw=kw, order=order):
                inst, sample, dnd = sqw_models(P, A, O, **kw)
                exps, pix = O(sqw_experiments(P, A)), A(sqw_pixels(rng))

                def build():
                    b = P.sqw.Sqw.build(io.BytesIO(), title='t', byteorder=order)
                    b = b.add_default_instrument(inst).add_default_sample(sample).add_pixel_data(pix, experiments=exps)
                    b.add_empty_dnd_data(dnd).add_empty_detector_params().create()
                return build

    # ===================================================== value classes of variances and masks
    # ``.values`` / ``.variances`` of a scipp object are WRITABLE numpy views of the caller's buffer: code that
    # cleans up what it reads through them (clip negative variances, replace non-finite errors, apply a mask by
    # zeroing) writes into the caller's data, and only for the values that need cleaning.  Every entry point that
    # takes data with variances gets every class of variance values; every one that takes a data array every class
    # of masks.
    var_classes = {
        'some-negative': [0.7, -3e-9, 0.5, 0.0, -1e-12],
        'some-negative-none-zero': [0.7, -3e-9, 0.5, -1e-12, 0.05],
        'all-negative': [-1.0, -0.25, -1e-300, -7.0],
        'all-zero': [0.0, -0.0],
        'nan': [0.1, nan, 0.3],
        'inf': [0.1, inf, 0.3, -inf],
        'subnormal-and-huge': [5e-324, 1e308, 1e-310],
    }

    def with_var(obj, cls, dtype='float64'):
        obj = obj.copy()
        if str(obj.dtype) != dtype:
            obj = obj.astype(dtype)
        obj.variances = np.resize(np.asarray(var_classes[cls]).astype(dtype), obj.shape)
        return obj

    mask_classes = {
        'all-false': lambda n, rng: {'m': np.zeros(n, bool)},
        'all-true': lambda n, rng: {'m': np.ones(n, bool)},
        'several-masks': lambda n, rng: {'a': rng.random(n) < 0.3, 'b': np.arange(n) % 7 == 0, 'none': np.zeros(n, bool)},
    }

    def with_masks(da, cls, rng, dim=None):
        da = da.copy()
        dim = dim or da.dims[-1]
        for k, m in mask_classes[cls](da.sizes[dim], rng).items():
            da.masks[k] = sc.array(dims=[dim], values=m)
        return da

    def clean_fit(P, rng):
        da = spectrum(rng)
        return da, P.peaks.fit_peaks(da, peak_estimates=_arr([4.0, 6.5], 'angstrom'), windows=_s(2.0, 'angstrom'),
                                     background='linear', peak='gaussian')

    def calibration():
        return sc.DataArray(sc.array(dims=['cal'], values=[3.0, -1.0, 0.0, 2.5]),
                            coords={'power': sc.array(dims=['cal'], values=[2, 0, 1, 3])})

    # consumers of a 1d data array: name -> (make data, call)
    def consumers(P):
        def sqw_create(rng, pix, A, O):
            exps = O(sqw_experiments(P, A))
            return lambda: P.sqw.Sqw.build(io.BytesIO(), byteorder='little').add_pixel_data(
                pix, experiments=exps).create()

        return {
            'save_xye': (lambda rng: powder(rng), lambda rng, da, A, O: lambda: P.save_xye(io.StringIO(), da)),
            'CIF.with_reduced_powder_data+save': (
                lambda rng: powder(rng),
                lambda rng, da, A, O: lambda: P.cif.CIF('a').with_reduced_powder_data(da).save(io.StringIO())),
            'CIF.with_powder_calibration+save': (
                lambda rng: calibration(),
                lambda rng, da, A, O: lambda: P.cif.CIF('a').with_powder_calibration(da).save(io.StringIO())),
            'save_cif[Loop+Chunk]': (
                lambda rng: powder(rng),
                lambda rng, da, A, O: lambda: P.cif.save_cif(io.StringIO(), P.cif.Block('b', [
                    P.cif.Loop({'l.y': da.data, 'l.x': da.coords['tof']}), P.cif.Chunk({'c.first': da.data[0]})]))),
            'fit_peaks': (
                lambda rng: spectrum(rng),
                lambda rng, da, A, O: lambda: P.peaks.fit_peaks(
                    da, peak_estimates=_arr([4.0, 6.5], 'angstrom'), windows=_s(2.0, 'angstrom'),
                    background=['linear', 'quadratic'], peak=['gaussian', 'lorentzian'])),
            'remove_peaks': (
                lambda rng: spectrum(rng),
                lambda rng, da, A, O: (lambda res: lambda: P.peaks.remove_peaks(da, res))(O(clean_fit(P, rng)[1]))),
            'Model.guess': (
                lambda rng: spectrum(rng),
                lambda rng, da, A, O: _each(*[lambda m=m: m.guess(da) for m in (
                    P.peaks.model.GaussianModel(prefix='g_'), P.peaks.model.LorentzianModel(prefix='l_'),
                    P.peaks.model.PseudoVoigtModel(prefix='v_'), P.peaks.model.PolynomialModel(degree=2, prefix='p_'))])),
            'find_plateaus+collapse_plateaus+filter_in_phase': (
                lambda rng: signal(rng, np.arange(50)),
                lambda rng, da, A, O: lambda: P.filtering.filter_in_phase(P.filtering.collapse_plateaus(
                    P.filtering.find_plateaus(da, atol=_s(0.01, 'Hz/s'), min_n_points=3)),
                    reference=_s(1.0, 'Hz'), rtol=sc.scalar(0.05))),
            'SqwBuilder.create': (lambda rng: sqw_pixels(rng, 7), sqw_create),
        }

    consumer_names = ['save_xye', 'CIF.with_reduced_powder_data+save', 'CIF.with_powder_calibration+save',
                      'save_cif[Loop+Chunk]', 'fit_peaks', 'remove_peaks', 'Model.guess',
                      'find_plateaus+collapse_plateaus+filter_in_phase', 'SqwBuilder.create']
    for cons in consumer_names:
        for vc in var_classes:
            for dt in (('float64', 'float32') if cons.startswith(('save_', 'CIF.')) else ('float64',)):
                @case(cons, f'variances:{vc}[{dt}]')
                def _(P, A, O, rng, cons=cons, vc=vc, dt=dt):
                    mk, call = consumers(P)[cons]
                    da = A(with_var(mk(rng), vc, dt))
                    return call(rng, da, A, O)
        for mc in mask_classes:
            @case(cons, f'masks:{mc}')
            def _(P, A, O, rng, cons=cons, mc=mc):
                mk, call = consumers(P)[cons]
                da = A(with_masks(mk(rng), mc, rng))
                return call(rng, da, A, O)

    # ===================================================== (a) operands / coordinates carrying variances
    for name, spec in kernels_1d.items():
        for vc in ('some-negative', 'nan', 'all-zero'):
            for dt in ('float64', 'float32'):
                @case(name, f'operand-variances:{vc}[{dt}]')
                def _(P, A, O, rng, name=name, spec=spec, vc=vc, dt=dt):
                    # the first operand carries the variances (variances cannot be broadcast, all have one shape)
                    kw = {arg: A(_arr(rng.uniform(0.5, 3.0, _N), unit, dtype=dt)) for arg, unit in spec[1:]}
                    arg0, unit0 = spec[0]
                    kw[arg0] = A(with_var(_arr(rng.uniform(1e3, 1e4, _N), unit0, dtype=dt), vc, dt))
                    allv = {k: A(with_var(v, vc, dt)) for k, v in kw.items()}
                    f = getattr(P.KT, name)
                    return _each(lambda: f(**kw), lambda: f(**allv))

    for vc in ('some-negative', 'nan', 'all-zero'):
        @case('total_beam_length', f'operand-variances:{vc}')
        def _(P, A, O, rng, vc=vc):
            l1 = A(sc.scalar(25.0, variance=var_classes[vc][1 % len(var_classes[vc])], unit='m'))
            l2 = A(with_var(_arr(rng.uniform(1, 5, _N), 'm'), vc))
            l1n, l1a = A(_s(25.0, 'm')), A(with_var(_arr(rng.uniform(20, 30, _N), 'm'), vc))
            return _each(lambda: P.KB.total_beam_length(L1=l1, L2=l2), lambda: P.KB.total_beam_length(L1=l1n, L2=l2),
                         lambda: P.KB.total_beam_length(L1=l1a, L2=l2), lambda: P.KB.total_beam_length(L1=l1, L2=l1n))

        for fname in ('scattering_angles_with_gravity', 'scattering_angle_in_yz_plane'):
            @case(fname, f'operand-variances:{vc}')
            def _(P, A, O, rng, vc=vc, fname=fname):
                kw = gravity_args(A, rng, g_std)
                kw['wavelength'] = A(with_var(_arr(rng.uniform(1, 10, len(far)) * 1e-10, 'm'), vc))
                return lambda: getattr(P.KB, fname)(**kw)

        @case('propagate_times', f'operand-variances:{vc}')
        def _(P, A, O, rng, vc=vc):
            t = A(with_var(_arr(rng.uniform(0, 3e-3, 4), 's', dim='vertex'), vc))
            w = A(with_var(_arr(rng.uniform(1, 10, 4), 'angstrom', dim='vertex'), vc))
            d = A(sc.scalar(10.0, variance=0.1, unit='m'))
            return _each(lambda: P.CC.propagate_times(t, w, d), lambda: P.CC.propagate_times(sc.values(t), w, sc.values(d)))

        @case('DiskChopper.methods', f'operand-variances:{vc}')
        def _(P, A, O, rng, vc=vc):
            dc = O(disk(P, A, [10.0, 100.0], [60.0, 150.0]))       # a chopper without variances, arguments with
            pf = A(sc.scalar(14.0, variance=var_classes[vc][1 % len(var_classes[vc])], unit='Hz'))
            ang = A(with_var(_arr([0.3, 7.0, 1.0], 'rad', dim='slit'), vc))
            return _each(lambda: dc.time_offset_open(pulse_frequency=pf), lambda: dc.time_offset_close(pulse_frequency=pf),
                         lambda: dc.open_duration(pulse_frequency=pf), lambda: dc.time_offset_angle_at_beam(angle=ang, n_repetitions=2),
                         lambda: P.CC.Chopper.from_disk_chopper(dc, pulse_frequency=pf, npulses=2))

        @case('DiskChopper', f'operand-variances:{vc}')
        def _(P, A, O, rng, vc=vc):
            def f():
                dc = P.DiskChopper(
                    axle_position=A(_vec([0.0, 0.0, 8.0])), frequency=A(sc.scalar(14.0, variance=0.5, unit='Hz')),
                    beam_position=A(sc.scalar(0.1, variance=1e-4, unit='rad')), phase=A(sc.scalar(0.5, variance=-1.0, unit='rad')),
                    slit_begin=A(with_var(_arr([0.0, 2.0], 'rad', dim='slit'), vc)),
                    slit_end=A(with_var(_arr([1.0, 3.0], 'rad', dim='slit'), vc)))
                pf = A(sc.scalar(14.0, variance=0.5, unit='Hz'))
                _each(lambda: dc.time_offset_open(pulse_frequency=pf), lambda: dc.time_offset_close(pulse_frequency=pf),
                      lambda: dc.open_duration(pulse_frequency=pf),
                      lambda: dc.time_offset_angle_at_beam(angle=A(with_var(_arr([0.3, 7.0], 'rad', dim='slit'), vc))),
                      lambda: P.CC.Chopper.from_disk_chopper(dc, pulse_frequency=pf, npulses=2))()
            return f

        @case('Frame.chop', f'operand-variances:{vc}')
        def _(P, A, O, rng, vc=vc):
            fr = O(P.CC.Frame(distance=A(sc.scalar(0.0, variance=0.0, unit='m')), subframes=[P.CC.Subframe(
                time=A(with_var(_arr([0.0, 0.0, 3e-3, 3e-3], 's', dim='vertex'), vc)),
                wavelength=A(with_var(_arr([1.0, 8.0, 8.0, 1.0], 'angstrom', dim='vertex'), vc)))]))
            ch = O(P.CC.Chopper(distance=A(sc.scalar(8.0, variance=0.01, unit='m')),
                                time_open=A(with_var(_arr([5e-3, 15e-3], 's', dim='cutout'), vc)),
                                time_close=A(with_var(_arr([9e-3, 20e-3], 's', dim='cutout'), vc))))
            fr0 = O(P.CC.Frame(distance=A(_s(0.0, 'm')), subframes=[P.CC.Subframe(time=fr.subframes[0].time, wavelength=fr.subframes[0].wavelength)]))
            ch0 = O(P.CC.Chopper(distance=A(_s(8.0, 'm')), time_open=ch.time_open, time_close=ch.time_close))
            plain = O(frame(P, A))
            return _each(lambda: fr.chop(ch), lambda: fr.propagate_to(A(sc.scalar(20.0, variance=1.0, unit='m'))),
                         lambda: (fr.bounds(), fr.subbounds()), lambda: fr0.chop(ch0), lambda: plain.chop(ch0),
                         lambda: fr0.propagate_to(A(_s(20.0, 'm'))), lambda: (fr0.bounds(), fr0.subbounds()))

        @case('compute_transmission_map', f'operand-variances:{vc}')
        def _(P, A, O, rng, vc=vc):
            return transmission(P, A, O, rng, beam=(0.0, 0.0, 25.0),
                                wl=with_var(_arr([0.5, 1.8, 5.0], 'angstrom', dim='wavelength'), vc))

        for tgt in ('wavelength', 'dspacing', 'Q', 'energy'):
            @case(f'convert[{tgt}]', f'operand-variances:{vc}')
            def _(P, A, O, rng, vc=vc, tgt=tgt):
                da = beamline_da(rng, _arr([9e3, 2e3, 4e3, 7e3], 'us', dim='tof'))
                da.data = with_var(da.data, vc)                                            # data variances
                dac = da.copy()
                dac.coords['tof'] = with_var(dac.coords['tof'], vc)                        # coordinate variances
                da, dac = A(da), A(dac)
                return _each(lambda: P.scn.convert(da, 'tof', tgt, scatter=True),
                             lambda: P.scn.convert(dac, 'tof', tgt, scatter=True))

    # ===================================================== (b) masks: bin-level, event-level, per-pixel
    def binned_beamline_da(rng, outer='x', event='event', nev=40, weights_var='some-negative', masks=()):
        nn = len(far)
        table = sc.DataArray(
            with_var(_arr(rng.uniform(0.5, 2.0, nev), 'counts', dim=event), weights_var),
            coords={'tof': _arr(rng.uniform(1e3, 1e4, nev), 'us', dim=event),
                    'pulse_time': sc.datetimes(dims=[event], values=np.arange(nev) * 71_000_000, unit='ns')})
        if 'event' in masks:
            table.masks['em'] = sc.array(dims=[event], values=rng.random(nev) < 0.3)
            table.masks['em-none'] = sc.array(dims=[event], values=np.zeros(nev, bool))
        cuts = np.sort(rng.integers(0, nev + 1, size=nn - 1))
        begin = sc.array(dims=[outer], values=np.concatenate([[0], cuts]), unit=None, dtype='int64')
        end = sc.array(dims=[outer], values=np.concatenate([cuts, [nev]]), unit=None, dtype='int64')
        da = sc.DataArray(sc.bins(begin=begin, end=end, dim=event, data=table), coords={
            'position': _vecs(_scaled_rows(rng, far) + [0.1, 0.2, 0.3], dim=outer),
            'source_position': _vec([0.1, 0.2, -25.0]), 'sample_position': _vec([0.1, 0.2, 0.3])})
        if 'pixel' in masks:
            da.masks['pm'] = sc.array(dims=[outer], values=np.arange(nn) % 2 == 0)
            da.masks['pm-all'] = sc.array(dims=[outer], values=np.ones(nn, bool))
        return da

    for facet, masks in {'binned-no-masks': (), 'binned-per-pixel-masks': ('pixel',), 'binned-event-masks': ('event',),
                         'binned-pixel-and-event-masks': ('pixel', 'event')}.items():
        for tgt in ('wavelength', 'dspacing', 'Q', 'energy'):
            @case(f'convert[{tgt}]', f'masks:{facet}')
            def _(P, A, O, rng, masks=masks, tgt=tgt):
                da = A(binned_beamline_da(rng, masks=masks))
                return lambda: P.scn.convert(da, 'tof', tgt, scatter=True)

        @case('scn.beamline-components', f'masks:{facet}')
        def _(P, A, O, rng, masks=masks):
            da = A(binned_beamline_da(rng, masks=masks))
            return _each(*[lambda f=f: getattr(P.scn, f)(da) for f in ('L1', 'L2', 'two_theta', 'scattered_beam')],
                         lambda: P.scn.Ltotal(da, scatter=True))

    for mc in mask_classes:
        for tgt in ('wavelength', 'dspacing', 'Q', 'energy'):
            @case(f'convert[{tgt}]', f'masks:{mc}[tof]+[pixel]')
            def _(P, A, O, rng, mc=mc, tgt=tgt):
                da = with_masks(beamline_da(rng, _arr([1e3, 2e3, 4e3, 7e3], 'us', dim='tof')), mc, rng)
                da = A(with_masks(da, mc, rng, dim='x'))
                return lambda: P.scn.convert(da, 'tof', tgt, scatter=True)

    # ===================================================== (c) caller dims named like dims the code uses inside
    internal_dims = ['quad', 'row', 'range', 'vertex', 'cutout', 'slit', 'edge', 'bound', 'subframe', 'event', 'x',
                     'distance', 'time', 'plateau', 'schema', 'author', 'role', 'r', 'rv_buffer']

    for d in ('quad', 'row', 'wavelength'):
        @case('compute_transmission_map', f'dims:detector_position-dim-{d}')
        def _(P, A, O, rng, d=d):
            return transmission(P, A, O, rng, beam=(0.0, 0.1, 3.0), det=_vecs(rng.normal(size=(4, 3)) * 100, 'cm', dim=d))

    @case('compute_transmission_map', 'dims:wavelength-dim-quad')
    def _(P, A, O, rng):
        return transmission(P, A, O, rng, beam=(0.0, 0.1, 3.0), wl=_arr([0.5, 1.8, 5.0], 'angstrom', dim='quad'))

    for d in ('quad', 'row'):
        @case('Cylinder.beam_intersection', f'dims:points-dim-{d}')
        def _(P, A, O, rng, d=d):
            cyl = O(cylinder(P, A, 'axis-tilted'))
            start, direction = A(_vecs(rng.normal(size=(4, 3)) * 0.3, 'cm', dim=d)), A(_vecs(rng.normal(size=(4, 3)), 'one', dim=d))
            return lambda: cyl.beam_intersection(start, direction)

    for d in ('range', 'x', 'event', 'peak'):
        @case('fit_peaks', f'dims:data-dim-{d}')
        def _(P, A, O, rng, d=d):
            da = spectrum(rng).rename_dims({'x': d})
            da = A(sc.DataArray(da.data, coords={d: da.coords['x']}))
            e, w0 = A(_arr([4.0, 6.5], 'angstrom', dim=d)), A(_s(2.0, 'angstrom'))
            w2 = A(sc.array(dims=[d, 'range'] if d != 'range' else ['peak', 'range'], values=[[3.0, 5.0], [5.5, 7.5]], unit='angstrom'))

            def fit(w):
                res = P.peaks.fit_peaks(da, peak_estimates=e, windows=w, background='linear', peak='gaussian')
                P.peaks.remove_peaks(sc.DataArray(sc.values(da.data), coords=dict(da.coords)), res)
            return _each(lambda: fit(w0), lambda: fit(w2))

    for d in ('vertex', 'cutout', 'bound', 'subframe', 'distance'):
        @case('Frame.chop', f'dims:subframe-dim-{d}-cutout-dim-{d}')
        def _(P, A, O, rng, d=d):
            fr = O(P.CC.Frame(distance=A(_s(0.0, 'm')), subframes=[P.CC.Subframe(
                time=A(_arr([0.0, 0.0, 3e-3, 3e-3], 's', dim=d)), wavelength=A(_arr([1.0, 8.0, 8.0, 1.0], 'angstrom', dim=d)))]))
            ch = O(P.CC.Chopper(distance=A(_s(8.0, 'm')), time_open=A(_arr([5e-3, 15e-3], 's', dim=d)),
                                time_close=A(_arr([9e-3, 20e-3], 's', dim=d))))
            ch2 = O(chopper(P, A, *chopper_sets['windows-unsorted']))
            return _each(lambda: fr.chop(ch), lambda: fr.chop(ch2).subbounds(), lambda: fr.chop(ch2).bounds(),
                         lambda: fr.propagate_to(A(_s(20.0, 'm'))))

        @case('propagate_times', f'dims:all-dims-{d}')
        def _(P, A, O, rng, d=d):
            t, w = A(_arr(rng.uniform(0, 3e-3, 4), 's', dim=d)), A(_arr(rng.uniform(1, 10, 4), 'angstrom', dim=d))
            dist = A(_arr([5.0, 10.0, 20.0, 30.0], 'm', dim=d))
            return _each(lambda: P.CC.propagate_times(t, w, dist), lambda: P.CC.propagate_times(t, w, dist[d, 0]))

    for d in ('edge', 'cutout', 'vertex', 'x'):
        @case('DiskChopper', f'dims:slit-dim-{d}')
        def _(P, A, O, rng, d=d):
            def f():
                dc = P.DiskChopper(
                    axle_position=A(_vec([0.0, 0.0, 8.0])), frequency=A(_s(-14.0, 'Hz')), beam_position=A(_s(0.1, 'rad')),
                    phase=A(_s(0.5, 'rad')), slit_begin=A(_arr([0.0, 2.0], 'rad', dim=d)), slit_end=A(_arr([1.0, 3.0], 'rad', dim=d)),
                    slit_height=A(_arr([3.0, 4.0], 'cm', dim=d)), radius=A(_s(35.0, 'cm')))
                pf = A(_s(14.0, 'Hz'))
                _each(lambda: dc.time_offset_open(pulse_frequency=pf), lambda: dc.open_duration(pulse_frequency=pf),
                      lambda: dc.time_offset_angle_at_beam(angle=A(_arr([0.3, 7.0, 1.0], 'rad', dim='slit')), n_repetitions=2),
                      lambda: dc.time_offset_angle_at_beam(angle=A(_arr([0.3, 7.0, 1.0], 'rad', dim=d))),
                      lambda: P.CC.Chopper.from_disk_chopper(dc, pulse_frequency=pf, npulses=2), lambda: dc.make_svg())()
            return f

    for d in ('plateau', 'x', 'event'):
        @case('find_plateaus', f'dims:data-dim-{d}')
        def _(P, A, O, rng, d=d):
            sig = signal(rng, np.arange(50))
            sig = A(sc.DataArray(sig.data.rename_dims({'time': d}), coords={d: sig.coords['time'].rename_dims({'time': d})}))
            atol = A(_s(0.01, 'Hz/s'))

            def f():
                pl = P.filtering.find_plateaus(sig, atol=atol, min_n_points=3, plateau_dim='plateau')
                P.filtering.filter_in_phase(P.filtering.collapse_plateaus(pl, coord=d), reference=_s(1.0, 'Hz'), rtol=sc.scalar(0.05))
            return f

    for d in ('event', 'x'):
        @case('convert[wavelength]', f'dims:binned-outer-dim-and-event-dim-{d}')
        def _(P, A, O, rng, d=d):
            da = A(binned_beamline_da(rng, outer=d if d == 'event' else 'x', event='event' if d == 'event' else 'x2'))
            return lambda: P.scn.convert(da, 'tof', 'wavelength', scatter=True)

    for name, spec in kernels_1d.items():
        @case(name, 'dims:operands-with-different-internal-dim-names')
        def _(P, A, O, rng, name=name, spec=spec):
            # every operand along its own dim, the dims named like dims used inside the package
            kw = {arg: A(_arr(rng.uniform(0.5, 3.0, 3), unit, dim=internal_dims[i])) for i, (arg, unit) in enumerate(spec)}
            return lambda: getattr(P.KT, name)(**kw)

    for d in ('schema', 'author', 'role', 'r'):
        @case('save_cif', f'dims:loop-dim-{d}', layouts=one_layout())
        def _(P, A, O, rng, d=d):
            cols = O({'l.x': A(_arr([1.0, 2.0, 3.0], 'm', dim=d)), 'l.s': A(sc.array(dims=[d], values=['a', 'b c', "d'e"]))})
            ppl = O(list(people(P).values())[:3])
            return lambda: P.cif.save_cif(io.StringIO(), P.cif.Block('b', [P.cif.Loop(cols)]))

    @case('SqwBuilder.create', 'dims:pixel-dim-energy_transfer', layouts=one_layout())
    def _(P, A, O, rng):
        exps, pix = O(sqw_experiments(P, A)), A(sqw_pixels(rng, dim='energy_transfer'))
        return lambda: P.sqw.Sqw.build(io.BytesIO()).add_pixel_data(pix, experiments=exps).create()

    # ===================================================== (d) calling conventions; kernels as graph nodes
    def conventions(f, kw):
        """f called with the same arguments all-keyword, as positional as the signature allows, and mixed."""
        import inspect

        names = [n for n, p in inspect.signature(f).parameters.items()
                 if p.kind in (p.POSITIONAL_ONLY, p.POSITIONAL_OR_KEYWORD) and n in kw]
        pos = [kw[n] for n in names]
        rest = {k: v for k, v in kw.items() if k not in names}
        thunks = [lambda: f(**kw), lambda: f(*pos, **rest)]
        if len(names) > 1:
            thunks.append(lambda: f(pos[0], **{k: v for k, v in kw.items() if k != names[0]}))
        # keyword arguments in reverse order
        thunks.append(lambda: f(**dict(reversed(list(kw.items())))))
        return thunks

    multi_out = {'beam_aligned_unit_vectors': ('beam_aligned_unit_x', 'beam_aligned_unit_y', 'beam_aligned_unit_z'),
                 'scattering_angles_with_gravity': ('two_theta', 'phi'), 'Q_elements_from_wavelength': ('Qx', 'Qy', 'Qz'),
                 'hkl_elements_from_hkl_vec': ('h', 'k', 'l')}

    def graph_node(P, A, f, kw):
        """f as a node of a transform_coords graph: every parameter is looked up as a coordinate."""
        out = multi_out.get(f.__name__, 'rv_out')
        sizes = {d: n for v in kw.values() for d, n in v.sizes.items()}
        da = A(sc.DataArray(sc.ones(dims=list(sizes), shape=list(sizes.values())), coords=dict(kw)))
        return lambda: da.transform_coords(list(out) if isinstance(out, tuple) else [out], graph={out: f}, keep_inputs=True)

    def kernel_args(A, rng, spec, dt='float64'):
        return {arg: A(_arr(rng.uniform(0.5, 3.0, _N) * (1e3 if arg == 'tof' else 1.0), unit, dtype=dt)) for arg, unit in spec}

    for name, spec in kernels_1d.items():
        @case(name, 'call:positional-keyword-mixed+graph-node')
        def _(P, A, O, rng, name=name, spec=spec):
            f, kw = getattr(P.KT, name), kernel_args(A, rng, spec)
            return _each(*conventions(f, kw), graph_node(P, A, f, kw))

    beam_kernels = {
        'L1': lambda A, rng: dict(incident_beam=A(_vec([0.3, -0.2, 25.0]))),
        'L2': lambda A, rng: dict(scattered_beam=A(_vecs(_scaled_rows(rng, far)))),
        'straight_incident_beam': lambda A, rng: dict(source_position=A(_vec([0.0, 0.0, -25.0])), sample_position=A(_vec([0.1, 0.2, 0.3]))),
        'straight_scattered_beam': lambda A, rng: dict(position=A(_vecs(_scaled_rows(rng, far))), sample_position=A(_vec([0.1, 0.2, 0.3]))),
        'total_beam_length': lambda A, rng: dict(L1=A(_s(25.0, 'm')), L2=A(_arr(rng.uniform(1, 5, _N), 'm'))),
        'total_straight_beam_length_no_scatter': lambda A, rng: dict(source_position=A(_vec([0.0, 0.0, -25.0])), position=A(_vecs(_scaled_rows(rng, far)))),
        'two_theta': lambda A, rng: dict(incident_beam=A(_vec([0.0, 0.0, 25.0])), scattered_beam=A(_vecs(_scaled_rows(rng, far)))),
        'beam_aligned_unit_vectors': lambda A, rng: dict(incident_beam=A(_vec([0.0, 0.0, 25.0])), gravity=A(_vec(g_std, 'm/s^2'))),
        'scattering_angles_with_gravity': lambda A, rng: gravity_args(A, rng, g_std),
        'scattering_angle_in_yz_plane': lambda A, rng: gravity_args(A, rng, g_std),
    }
    for name, mk in beam_kernels.items():
        @case(name, 'call:positional-keyword-mixed+graph-node')
        def _(P, A, O, rng, name=name, mk=mk):
            f, kw = getattr(P.KB, name), mk(A, rng)
            return _each(*conventions(f, kw), graph_node(P, A, f, kw))

    for name in ('Q_elements_from_wavelength', 'Q_vec_from_Q_elements', 'hkl_elements_from_hkl_vec', 'time_at_sample_from_tof'):
        @case(name, 'call:positional-keyword-mixed+graph-node')
        def _(P, A, O, rng, name=name):
            kw = {
                'Q_elements_from_wavelength': lambda: dict(wavelength=A(_arr(rng.uniform(1, 10, _N), 'angstrom')),
                                                           incident_beam=A(_vec([0.0, 0.0, 25.0])), scattered_beam=A(_vecs(_scaled_rows(rng, far)))),
                'Q_vec_from_Q_elements': lambda: {k: A(_arr(rng.normal(size=_N), '1/angstrom')) for k in ('Qx', 'Qy', 'Qz')},
                'hkl_elements_from_hkl_vec': lambda: dict(hkl_vec=A(_vecs(_scaled_rows(rng, far), 'one'))),
                'time_at_sample_from_tof': lambda: dict(pulse_time=A(_arr(np.arange(_N) * 0.071 + 1e6, 's')),
                                                        tof=A(_arr(rng.uniform(1e-3, 1e-2, _N), 's')), L2=A(_arr(rng.uniform(1, 5, _N), 'm')),
                                                        wavelength=A(_arr(rng.uniform(1, 10, _N), 'angstrom'))),
            }[name]()
            f = getattr(P.KT, name)
            return _each(*conventions(f, kw), graph_node(P, A, f, kw))

    @case('entry-points', 'call:positional-keyword-mixed')
    def _(P, A, O, rng):
        da = A(beamline_da(rng, _arr([1e3, 2e3, 4e3], 'us', dim='tof')))
        t, w, d = A(_arr([0.0, 1e-3], 's', dim='vertex')), A(_arr([1.0, 5.0], 'angstrom', dim='vertex')), A(_s(10.0, 'm'))
        fr, ch = O(frame(P, A)), O(chopper(P, A, *chopper_sets['windows-unsorted']))
        fs = O(P.CC.FrameSequence.from_source_pulse(**source(P, A)))
        chs = O([chopper(P, A, 8.0, 'm', [5e-3], [9e-3])])
        cyl, mat = O(cylinder(P, A)), O(material(P, A))
        start, direction = A(_vecs(rng.normal(size=(4, 3)) * 0.3, 'cm')), A(_vecs(rng.normal(size=(4, 3)), 'one'))
        wl, det, beam = A(_arr([0.5, 1.8], 'angstrom', dim='wavelength')), A(_vecs(rng.normal(size=(3, 3)) * 100, 'cm')), A(_vec([0, 0, 1.0], 'one'))
        pd = A(powder(rng))
        sp, res = clean_fit(P, rng)
        nv, res = A(sc.DataArray(sc.values(sp.data), coords={'x': sp.coords['x']})), O(res)
        sig, atol = A(signal(rng, np.arange(50))), A(_s(0.01, 'Hz/s'))
        dc, pf = O(disk(P, A, [10.0, 100.0], [60.0, 150.0])), A(_s(14.0, 'Hz'))
        gm = O(P.peaks.model.GaussianModel(prefix='g_'))
        x = A(_arr(np.linspace(0, 10, 7), 'angstrom'))
        gp = O({'g_amplitude': sc.scalar(2.0), 'g_loc': _s(4.0, 'angstrom'), 'g_scale': _s(0.3, 'angstrom')})
        return _each(
            *conventions(P.scn.convert, dict(data=da, origin='tof', target='wavelength', scatter=True)),
            *conventions(P.scn.Ltotal, dict(da=da, scatter=True)), *conventions(P.scn.two_theta, dict(da=da)),
            *conventions(P.CC.propagate_times, dict(time=t, wavelength=w, distance=d)),
            *conventions(fr.chop, dict(chopper=ch)), *conventions(fr.propagate_to, dict(distance=d)),
            *conventions(fs.chop, dict(choppers=chs)), *conventions(fs.propagate_to, dict(distance=d)),
            *conventions(cyl.beam_intersection, dict(start_point=start, direction=direction)),
            *conventions(mat.attenuation_coefficient, dict(wavelength=wl)),
            *conventions(P.compute_transmission_map, dict(sample_shape=cyl, sample_material=mat, beam_direction=beam,
                                                          wavelength=wl, detector_position=det, quadrature_kind='cheap')),
            *conventions(lambda fname, da, **k: P.save_xye(io.StringIO(), da, **k), dict(fname=None, da=pd)),
            *conventions(P.save_xye, dict(fname=io.StringIO(), da=pd, coord='tof', header='h')),
            *conventions(P.peaks.remove_peaks, dict(data=nv, fit_results=res)),
            *conventions(P.filtering.find_plateaus, dict(data=sig, atol=atol, min_n_points=3)),
            *conventions(dc.time_offset_open, dict(pulse_frequency=pf)),
            *conventions(dc.time_offset_angle_at_beam, dict(angle=A(_s(0.3, 'rad')), n_repetitions=2)),
            *conventions(P.CC.Chopper.from_disk_chopper, dict(disk_chopper=dc, pulse_frequency=pf, npulses=2)),
            *conventions(gm.guess, dict(data=sp, coord='x')), lambda: gm(x, **gp), lambda: gm(x=x, **gp),
            *conventions(gm.fwhm, dict(params=gp)),
        )

    # ===================================================== (e) numpy scalars / str subclasses where Python ones are documented
    import enum

    class Names(str, enum.Enum):
        gaussian = 'gaussian'
        linear = 'linear'
        cheap = 'cheap'
        tof = 'tof'
        big = 'big'
        V = 'V'

    class Small(enum.IntEnum):
        two = 2
        three = 3

    for tag, (S_, I_, B_) in {'numpy': (np.str_, np.int64, np.bool_), 'enum': (lambda s: Names[s] if s in Names.__members__ else np.str_(s), lambda i: Small(i) if i in (2, 3) else np.int32(i), np.bool_)}.items():
        @case('entry-points', f'scalars:{tag}-str-int-bool-arguments')
        def _(P, A, O, rng, S_=S_, I_=I_, B_=B_):
            da = A(beamline_da(rng, _arr([1e3, 2e3, 4e3], 'us', dim='tof')))
            sp = A(spectrum(rng))
            e, w = A(_arr([4.0, 6.5], 'angstrom')), A(_s(2.0, 'angstrom'))
            sig, atol = A(signal(rng, np.arange(50))), A(_s(0.01, 'Hz/s'))
            dc, pf = O(disk(P, A, [10.0, 100.0], [60.0, 150.0])), A(_s(14.0, 'Hz'))
            pd = A(powder(rng))
            exps, pix = O(sqw_experiments(P, A, run_id=I_)), A(sqw_pixels(rng, 7))
            exps_py = O(sqw_experiments(P, A))
            cyl = O(cylinder(P, A))
            fpar = O(P.peaks.FitParameters(neighbor_separation_factor=np.float64(-0.5), guess_background_fraction=np.float32(0.5)))
            x = A(_arr(np.linspace(0, 10, 7), 'angstrom'))
            return _each(
                lambda: P.scn.convert(da, S_('tof'), np.str_('wavelength'), scatter=B_(True)),
                lambda: P.scn.convert(da, S_('tof'), np.str_('wavelength'), scatter=B_(False)),
                lambda: P.scn.Ltotal(da, scatter=B_(True)),
                lambda: P.peaks.fit_peaks(sp, peak_estimates=e, windows=w, background=S_('linear'), peak=S_('gaussian'), fit_parameters=fpar),
                lambda: P.peaks.fit_peaks(sp, peak_estimates=e, windows=w, background=[S_('linear')], peak=(S_('gaussian'), np.str_('lorentzian'))),
                lambda: P.peaks.model.PolynomialModel(degree=I_(2), prefix=np.str_('p_')).guess(sp),
                lambda: P.peaks.model.GaussianModel(prefix=np.str_('g_')).with_prefix(np.str_('h_')).guess(sp, coord=np.str_('x')),
                lambda: P.filtering.find_plateaus(sig, atol=atol, min_n_points=I_(3), plateau_dim=np.str_('plateau')),
                lambda: dc.time_offset_angle_at_beam(angle=A(_s(0.3, 'rad')), n_repetitions=I_(3)),
                lambda: P.CC.Chopper.from_disk_chopper(dc, pulse_frequency=pf, npulses=I_(2)),
                lambda: dc.make_svg(image_size=I_(100)),
                lambda: P.save_xye(io.StringIO(), pd, coord=S_('tof'), header=np.str_('my header')),
                lambda: P.cif.CIF(np.str_('name'), comment=np.str_('c')).with_reducers(np.str_('prog 1')).with_reduced_powder_data(
                    pd, comment=np.str_('data')).save(io.StringIO()),
                lambda: P.cif.save_cif(io.StringIO(), P.cif.Block(np.str_('b'), [{np.str_('a.b'): I_(3), 'a.c': np.float32(1.5),
                                                                                  'a.d': B_(True), 'a.e': np.str_('text')}])),
                lambda: P.sqw.Sqw.build(io.BytesIO(), title=np.str_('t'), byteorder=S_('big')).add_pixel_data(
                    pix, experiments=exps, n_dims=I_(4)).create(chunk_size=I_(3)),           # numpy run ids
                lambda: P.sqw.Sqw.build(io.BytesIO(), title=np.str_('t'), byteorder=S_('big')).add_pixel_data(
                    pix, experiments=exps_py, n_dims=4).create(chunk_size=I_(3)),
                lambda: cyl.quadrature(S_('cheap')),
                lambda: (P.Atom.for_isotope(S_('V')), P.ScatteringParams.for_isotope(S_('V'))),
                lambda: P.GT.elastic(S_('tof')), lambda: P.GB.beamline(scatter=B_(True)),
            )

    # ===================================================== (f) one-shot iterables where a collection is documented
    @case('entry-points', 'iterables:one-shot-iterators-and-generators')
    def _(P, A, O, rng):
        M = P.peaks.model
        sp = A(spectrum(rng))
        e, w = A(_arr([4.0, 6.5], 'angstrom')), A(_s(2.0, 'angstrom'))
        fs = O(P.CC.FrameSequence.from_source_pulse(**source(P, A)))
        chs = O([chopper(P, A, 15.0, 'm', [10e-3], [20e-3]), chopper(P, A, 8.0, 'm', [5e-3], [9e-3])])
        models = O([M.PolynomialModel(degree=1, prefix='a_'), M.PolynomialModel(degree=2, prefix='b_')])
        pks = O([M.GaussianModel(prefix='g_'), M.LorentzianModel(prefix='l_')])
        chunk, loop = O(P.cif.Chunk({'a.b': 1})), O(P.cif.Loop({'l.x': A(sc.arange('i', 3.0, unit='m'))}))
        ppl = O(list(people(P).values()))
        exps, pix = O(sqw_experiments(P, A)), A(sqw_pixels(rng, 7))
        sp0, res = clean_fit(P, rng)
        res = O(res)
        nv = A(sc.DataArray(sc.values(sp0.data), coords={'x': sp0.coords['x']}))
        return _each(
            lambda: fs.chop(iter(chs)), lambda: fs.chop(c for c in chs), lambda: fs.chop(tuple(chs)),
            lambda: fs.chop(reversed(chs)), lambda: fs.chop({c.distance.value: c for c in chs}.values()),
            lambda: P.peaks.fit_peaks(sp, peak_estimates=e, windows=w, background=iter(models), peak=(m for m in pks)),
            lambda: P.peaks.fit_peaks(sp, peak_estimates=e, windows=w, background=iter(['linear', 'quadratic']),
                                      peak=map(str, ['gaussian', 'lorentzian'])),
            lambda: P.peaks.fit_peaks(sp, peak_estimates=e, windows=w, background=iter([]), peak='gaussian'),
            lambda: P.peaks.remove_peaks(nv, iter(res)), lambda: P.peaks.remove_peaks(nv, tuple(res)),
            lambda: P.cif.save_cif(io.StringIO(), P.cif.Block('b', iter([chunk, loop]))),
            lambda: P.cif.save_cif(io.StringIO(), iter([P.cif.Block('b1', (c for c in [chunk])), P.cif.Block('b2', [loop])])),
            lambda: P.cif.CIF('a').with_authors(*iter(ppl)).with_reducers(*(str(i) for i in range(2))).save(io.StringIO()),
            lambda: P.sqw.Sqw.build(io.BytesIO()).add_pixel_data(pix, experiments=iter(exps)).create(),
            lambda: P.sqw.Sqw.build(io.BytesIO()).add_pixel_data(pix, experiments=tuple(exps), rows=iter(('u1', 'signal', 'error')),
                                                                 row_units=iter(('1/angstrom', 'count', 'count**2'))).create(),
            lambda: M.PolynomialModel(degree=1, prefix='q_')(A(_arr([1.0, 2.0], 'angstrom')),
                                                            **dict(iter({'q_a0': sc.scalar(1.0), 'q_a1': _s(1.0, '1/angstrom')}.items()))),
        )

    # ===================================================== (g) second use: results fed back, the same objects again
    @case('Frame/FrameSequence', 'second-use:results-fed-back-and-same-choppers-again')
    def _(P, A, O, rng):
        fr, ch = O(frame(P, A)), O(chopper(P, A, *chopper_sets['windows-unsorted']))
        fs, chs = O(P.CC.FrameSequence.from_source_pulse(**source(P, A))), O([chopper(P, A, 8.0, 'm', [5e-3, 15e-3], [9e-3, 20e-3])])
        d = A(_s(8.0, 'm'))

        def f():
            once = O(fr.chop(ch))
            twice = O(once.chop(ch))                      # a chopped frame through the same chopper again
            O(twice.propagate_to(d)).propagate_to(d)      # to where it already is
            seq = O(fs.chop(chs))
            seq2 = O(seq.chop(chs))                       # the same list of choppers again
            seq2.propagate_to(d)
            seq2[d].chop(chs[0])
            fs.chop(chs)
        return f

    @case('peaks', 'second-use:fit-remove-fit-with-the-same-objects')
    def _(P, A, O, rng):
        da, e, w = A(spectrum(rng)), A(_arr([4.0, 6.5], 'angstrom')), A(_s(2.0, 'angstrom'))
        fpar, freq = O(P.peaks.FitParameters(neighbor_separation_factor=-0.5)), O(P.peaks.FitRequirements())
        bad = O(P.peaks.FitParameters(neighbor_separation_factor=2.5))
        model = O(P.peaks.model.GaussianModel(prefix='mine_'))

        def fit(data, fp_):
            return P.peaks.fit_peaks(data, peak_estimates=e, windows=w, background='linear', peak=model,
                                     fit_parameters=fp_, fit_requirements=freq)

        def f():
            try:
                fit(da, bad)                              # a call that may raise ...
            except Exception:  # noqa: BLE001
                pass
            res = O(fit(da, fpar))                        # ... and the same call again with good parameters
            nv = O(sc.DataArray(sc.values(da.data), coords={'x': da.coords['x']}))
            removed = O(P.peaks.remove_peaks(nv, res))
            O(fit(sc.DataArray(removed.data, coords=dict(removed.coords)) if removed.variances is not None else da, fpar))
            P.peaks.remove_peaks(removed, res)            # the result fed back, the same fit results again
            x = O(_arr(np.linspace(0, 10, 5), 'angstrom'))
            for r in res:
                r.eval_model(x), r.eval_peak(x), r.eval_background(x) if hasattr(r, 'eval_background') else None
                r.report()
        return f

    @case('convert', 'second-use:converted-data-converted-again')
    def _(P, A, O, rng):
        da = A(beamline_da(rng, _arr([1e3, 2e3, 4e3, 9e3], 'us', dim='tof')))
        db = A(binned_beamline_da(rng, masks=('pixel', 'event')))

        def f():
            for d in (da, db):
                w = O(P.scn.convert(d, 'tof', 'wavelength', scatter=True))
                for tgt in ('dspacing', 'Q', 'energy'):
                    O(P.scn.convert(w, 'wavelength', tgt, scatter=True))
                P.scn.convert(d, 'tof', 'wavelength', scatter=True)
                lam = O(P.KT.wavelength_from_tof(tof=d.coords['tof'] if d.bins is None else d.bins.coords['tof'],
                                                 Ltotal=P.scn.Ltotal(d, scatter=True)))
                en = O(P.KT.energy_from_wavelength(wavelength=lam))
                P.KT.wavelength_from_energy(energy=en)
        return f

    @case('io', 'second-use:same-data-into-several-builders-and-files')
    def _(P, A, O, rng):
        pd = A(with_var(powder(rng), 'some-negative'))
        cal = A(with_var(calibration(), 'nan'))
        exps, pix = O(sqw_experiments(P, A)), A(sqw_pixels(rng, 7, var=var_classes['some-negative']))
        sample = O(P.sqw.SqwIXSample(name='s', lattice_spacing=A(_vec([4.0, 2.0, 3.0], 'angstrom')),
                                     lattice_angle=A(_vec([90.0, 90.0, 120.0], 'deg'))))

        def f():
            base = O(P.cif.CIF('a').with_reduced_powder_data(pd))
            c2 = O(base.with_reduced_powder_data(pd, comment='again').with_powder_calibration(cal))
            for c in (base, c2, base):
                c.save(io.StringIO())
            for _ in range(2):
                P.save_xye(io.StringIO(), pd)
            for order in ('little', 'big', 'little'):
                b = P.sqw.Sqw.build(io.BytesIO(), byteorder=order).add_pixel_data(pix, experiments=exps).add_default_sample(sample)
                b.create()
                b.create()                                # the same builder written twice
        return f

    # ===================================================== (i) subclasses / duck-typed stand-ins
    @case('fit_peaks', 'stand-ins:user-model-subclass-overriding-hooks')
    def _(P, A, O, rng):
        M = P.peaks.model

        class Box(M.Model):
            """A user model as the Model docs describe: overrides _call / _guess / _param_bounds."""

            def __init__(self, *, prefix=''):
                super().__init__(param_names=('height', 'loc', 'width'), prefix=prefix)

            def _call(self, x, params):
                return params['height'] * sc.exp(-(((x - params['loc']) / params['width']) ** 4))

            def _guess(self, x, y):
                return {'height': y.max(), 'loc': x[np.argmax(y.values)], 'width': (x.max() - x.min()) / 4.0}

            def _param_bounds(self):
                return {'width': (0.0, np.inf)}

            def fwhm(self, params):
                return params[self.prefix + 'width'] * 2.0

        class LoudGaussian(M.GaussianModel):
            def _guess(self, x, y):
                g = super()._guess(x, y)
                return {k: v * 1.0 for k, v in g.items()}

            def with_prefix(self, prefix):
                return LoudGaussian(prefix=prefix)

        da, e, w = A(spectrum(rng)), A(_arr([4.0, 6.5], 'angstrom')), A(_s(2.0, 'angstrom'))
        box, loud = O(Box(prefix='mine_')), O(LoudGaussian(prefix=''))
        return _each(lambda: P.peaks.fit_peaks(da, peak_estimates=e, windows=w, background='linear', peak=loud),
                     lambda: P.peaks.fit_peaks(da, peak_estimates=e[0:1], windows=w, background=['linear'], peak=[box, loud]),
                     lambda: (box + loud).guess(da), lambda: box.with_prefix('x_').param_bounds)

    @case('chopper', 'stand-ins:subclasses-and-duck-typed-choppers')
    def _(P, A, O, rng):
        import types

        class MyDisk(P.DiskChopper):
            def time_offset_open(self, *, pulse_frequency):
                return super().time_offset_open(pulse_frequency=pulse_frequency) * 1.0

            def time_offset_close(self, *, pulse_frequency):
                return super().time_offset_close(pulse_frequency=pulse_frequency) * 1.0

        dc = O(MyDisk(axle_position=A(_vec([0.0, 0.0, 8.0])), frequency=A(_s(14.0, 'Hz')), beam_position=A(_s(0.0, 'rad')),
                      phase=A(_s(0.5, 'rad')), slit_begin=A(_arr([0.0, 2.0], 'rad', dim='slit')),
                      slit_end=A(_arr([1.0, 3.0], 'rad', dim='slit'))))
        pf = A(_s(14.0, 'Hz'))
        duck = O(types.SimpleNamespace(distance=A(_s(8.0, 'm')), time_open=A(_arr([5e-3, 15e-3], 's', dim='cutout')),
                                       time_close=A(_arr([9e-3, 20e-3], 's', dim='cutout'))))

        class MyChopper(P.CC.Chopper):
            def __getitem__(self, key):
                return super().__getitem__(key)

        mine = O(MyChopper(distance=A(_s(8.0, 'm')), time_open=A(_arr([5e-3, 15e-3], 's', dim='cutout')),
                           time_close=A(_arr([9e-3, 20e-3], 's', dim='cutout'))))
        fr, fs = O(frame(P, A)), O(P.CC.FrameSequence.from_source_pulse(**source(P, A)))
        return _each(lambda: P.CC.Chopper.from_disk_chopper(dc, pulse_frequency=pf, npulses=2),
                     lambda: dc.open_duration(pulse_frequency=pf), lambda: fr.chop(duck), lambda: fr.chop(mine),
                     lambda: fs.chop([mine, duck]), lambda: fs.chop([mine])[A(_s(12.0, 'm'))])

    @case('io', 'stand-ins:mapping-and-file-like-stand-ins')
    def _(P, A, O, rng):
        import collections
        import types

        class Store(collections.UserDict):
            pass

        class OD(dict):
            def items(self):
                return list(super().items())

        class Sink(io.StringIO):
            def write(self, s):
                return super().write(s)

        content = O(Store({'a.b': 1, 'a.c': A(sc.scalar(2.5, variance=0.04, unit='m'))}))
        proxy = O(types.MappingProxyType({'p.q': 'text'}))
        cols = O(OD({'l.x': A(sc.arange('i', 3.0, unit='m'))}))
        pd = A(powder(rng))
        dg = O(sc.DataGroup({'position': A(_vec([0.0, 0.0, 8.0])), 'rotation_speed': A(_s(-14.0, 'Hz')),
                             'beam_position': A(_s(400.0, 'deg')), 'phase': A(_s(-30.0, 'deg')),
                             'slit_edges': A(_arr([200.0, 250.0, 10.0, 60.0], 'deg', dim='slit')),
                             'slit_height': A(_s(3.0, 'cm')), 'radius': A(_s(35.0, 'cm'))}))
        od = O(collections.OrderedDict(dg.items()))
        return _each(lambda: P.cif.save_cif(Sink(), P.cif.Block('b', [P.cif.Chunk(content), P.cif.Chunk(proxy), P.cif.Loop(cols), content, proxy])),
                     lambda: P.cif.Block('b').add(content, comment='c'), lambda: P.cif.Block('b').add(proxy),
                     lambda: P.save_xye(Sink(), pd), lambda: P.cif.CIF('a').with_reduced_powder_data(pd).save(Sink()),
                     lambda: P.DiskChopper.from_nexus(dg), lambda: P.DiskChopper.from_nexus(od))

    # ===================================================== (i2) pass-through stand-ins
    # A method the package calls on a caller-defined class may hand back, UNCHANGED, one of the objects it was given
    # (f(x; c) = c returns its parameter, f(x) = x returns x) or something the object keeps (a background tabulated on
    # the grid of the data, a view of such a table, a pre-computed quadrature, constant opening times).  Whatever the
    # package then does with that return value it does to an object the caller owns.  Each such stand-in is put into
    # every operand position of every combinator that consumes the return value, and evaluated with operand shapes
    # that coincide with the shape of the other operand (0-d x, a table on the grid of x, a per-point parameter) as
    # well as shapes that do not (broadcasting), at lengths next to the sizes the code uses itself (1, the 2 of a
    # 'range', the 3 / 4 parameters of the peak models).  Judged: every caller-owned object (the arguments, the
    # parameter dict, the stored state) is bit-identical afterwards, the same evaluation gives the same result again,
    # also after the caller wrote into the earlier result (a result made by the package is the caller's to modify).
    def passthrough_models(P):
        M = P.peaks.model

        class Pedestal(M.Model):
            """f(x; c) = c: hands its parameter back."""

            def __init__(self, *, prefix=''):
                super().__init__(param_names=('c',), prefix=prefix)

            def _call(self, x, params):
                return params['c']

            def _guess(self, x, y):
                return {'c': sc.min(y)}

        class Identity(M.Model):
            """f(x) = x: hands the independent variable back."""

            def __init__(self, *, prefix=''):
                super().__init__(param_names=(), prefix=prefix)

            def _call(self, x, params):
                return x

            def _guess(self, x, y):
                return {}

        class Tabulated(M.Model):
            """A background measured on the grid of the data, no free parameters: hands its table back."""

            def __init__(self, table, *, prefix=''):
                super().__init__(param_names=(), prefix=prefix)
                self.table = table

            def _call(self, x, params):
                return self.table

            def _guess(self, x, y):
                return {}

        class TabulatedView(Tabulated):
            """The same with a table longer than the data: hands back a view of the part that covers x."""

            def _call(self, x, params):
                return self.table[self.table.dims[0], 0:x.sizes[x.dims[0]]] if x.ndim else self.table[self.table.dims[0], 1]

        return Pedestal, Identity, Tabulated, TabulatedView

    def builtin_with_params(P, A, kind, prefix, dt):
        """A built-in model and parameters for it such that the result has the unit of x (angstrom)."""
        M = P.peaks.model
        if kind == 'polynomial':
            return M.PolynomialModel(degree=1, prefix=prefix), {prefix + 'a0': A(_arr1(0.5, 'angstrom', dt)), prefix + 'a1': A(_arr1(2.0, 'one', dt))}
        m = {'gaussian': M.GaussianModel, 'lorentzian': M.LorentzianModel, 'pseudo_voigt': M.PseudoVoigtModel}[kind](prefix=prefix)
        pr = {prefix + 'amplitude': A(_arr1(10.0, 'angstrom^2', dt)), prefix + 'loc': A(_arr1(1.5, 'angstrom', dt)),
              prefix + 'scale': A(_arr1(0.2, 'angstrom', dt))}
        if kind == 'pseudo_voigt':
            pr[prefix + 'fraction'] = A(_arr1(0.3, 'one', dt))
        return m, pr

    def _arr1(v, unit, dt):
        return sc.scalar(v, unit=unit, dtype=dt)

    def twice_and_after_writing_into_the_result(label, evaluate):
        """evaluate() three times with the very same objects; the caller scales the second result in place."""
        def run():
            first = evaluate()
            f1 = fp(first)
            second = evaluate()
            f2 = fp(second)
            if f1 != f2:
                raise _Verdict('history_dependence', f'{label}: the same evaluation with the same objects gives a different result the second time',
                               family='stand-ins', factory=label.split('[')[0], needs_mutation=False)
            try:
                second *= 2.0
            except Exception:  # noqa: BLE001  (a read-only result: nothing a caller could do to it)
                return
            if fp(first) != f1:
                raise _Verdict('history_dependence', f'{label}: writing into the result of the second evaluation changed the result of the first',
                               family='stand-ins', factory=label.split('[')[0], needs_mutation=True)
            if fp(evaluate()) != f1:
                raise _Verdict('history_dependence', f'{label}: after the caller wrote into an earlier result the same evaluation gives a different result',
                               family='stand-ins', factory=label.split('[')[0], needs_mutation=True)
        return run

    # x: 0-d, and 1-d of length 1, 2 ('range'), 3 and 4 (number of peak parameters), 11
    x_shapes = {'x-0d': None, 'x-len-1': 1, 'x-len-2': 2, 'x-len-3': 3, 'x-len-4': 4, 'x-len-11': 11}
    positions = ('U+B', 'B+U', '(U+B)+B2', 'B2+(U+B)', '(B+U)+B2', 'B2+(B+U)', 'CompositeModel(U,B,prefix)', 'with_prefix(U+B)')

    def compose(P, pos, U, B, B2):
        M = P.peaks.model
        return {'U+B': lambda: U + B, 'B+U': lambda: B + U, '(U+B)+B2': lambda: (U + B) + B2, 'B2+(U+B)': lambda: B2 + (U + B),
                '(B+U)+B2': lambda: (B + U) + B2, 'B2+(B+U)': lambda: B2 + (B + U),
                'CompositeModel(U,B,prefix)': lambda: M.CompositeModel(U, B, prefix=''),
                'with_prefix(U+B)': lambda: (U + B).with_prefix('')}[pos]()

    for user in ('returns-its-parameter', 'returns-its-per-point-parameter', 'returns-x', 'returns-stored-table', 'returns-view-of-stored-table'):
        for pos in positions:
            @case('CompositeModel.__call__', f'passthrough:user-model-{user}:{pos}')
            def _(P, A, O, rng, user=user, pos=pos):
                Pedestal, Identity, Tabulated, TabulatedView = passthrough_models(P)
                runs = []
                kinds = ('gaussian', 'lorentzian', 'pseudo_voigt', 'polynomial')
                for k, (shape, n) in enumerate(x_shapes.items()):
                    # (dtype and partner model alternate over shapes x operand positions: every pair occurs in some case)
                    for dt in (('float64', 'float32')[(k + positions.index(pos)) % 2],):
                        kind = kinds[(k + positions.index(pos) // 2) % len(kinds)]
                        xv = np.float64(1.5) if n is None else np.linspace(1.0, 2.0, n)
                        x = A(sc.scalar(xv, unit='angstrom', dtype=dt) if n is None else _arr(xv, 'angstrom', dtype=dt))
                        like_x = (lambda v: sc.scalar(v, unit='angstrom', dtype=dt)) if n is None else (
                            lambda v: _arr(np.linspace(v, v - 1.0, n), 'angstrom', dtype=dt))
                        B, pr = builtin_with_params(P, A, kind, 'peak_', dt)
                        B2, pr2 = builtin_with_params(P, A, 'polynomial', 'lin_', dt)
                        if user == 'returns-its-parameter':
                            Um, pu = Pedestal(prefix='bkg_'), {'bkg_c': A(sc.scalar(3.0, unit='angstrom', dtype=dt))}
                        elif user == 'returns-its-per-point-parameter':
                            Um, pu = Pedestal(prefix='bkg_'), {'bkg_c': A(like_x(5.0))}
                        elif user == 'returns-x':
                            Um, pu = Identity(prefix='bkg_'), {}
                        elif user == 'returns-stored-table':
                            Um, pu = Tabulated(A(like_x(5.0)), prefix='bkg_'), {}
                        else:
                            tab = A(_arr(np.linspace(5.0, 4.0, 16), 'angstrom', dtype=dt))
                            Um, pu = TabulatedView(tab, prefix='bkg_'), {}
                        O(Um), O(B), O(B2)
                        model = O(compose(P, pos, Um, B, B2))
                        params = O({**pu, **pr, **(pr2 if 'B2' in pos else {})})
                        runs.append(twice_and_after_writing_into_the_result(
                            f'CompositeModel.__call__[{user},{pos},{shape},{dt},{kind}]',
                            lambda model=model, x=x, params=params: model(x, **params)))
                return _each(*runs)

    @case('CompositeModel.__call__', 'passthrough:both-operands-user-models-and-the-same-object-in-both')
    def _(P, A, O, rng):
        Pedestal, Identity, Tabulated, TabulatedView = passthrough_models(P)
        runs = []
        for shape, n in x_shapes.items():
            x = A(sc.scalar(1.5, unit='angstrom') if n is None else _arr(np.linspace(1.0, 2.0, n), 'angstrom'))
            like_x = (lambda v: sc.scalar(v, unit='angstrom')) if n is None else (lambda v: _arr(np.linspace(v, v - 1.0, n), 'angstrom'))
            c, table = A(like_x(3.0)), A(like_x(5.0))
            tab16 = A(_arr(np.linspace(5.0, 4.0, 16), 'angstrom'))
            pa, pb = Pedestal(prefix='a_'), Pedestal(prefix='b_')
            combos = {
                'pedestal+table': (pa + Tabulated(table), {'a_c': c}),
                'table+pedestal': (Tabulated(table) + pa, {'a_c': c}),
                'pedestal+pedestal-one-variable-for-both': (pa + pb, {'a_c': c, 'b_c': c}),
                'table+table-one-table-in-both': (Tabulated(table) + Tabulated(table), {}),
                'view+view-of-one-table': (TabulatedView(tab16) + TabulatedView(tab16), {}),
                'x+x': (Identity() + Identity(), {}),
                'x+pedestal-whose-parameter-is-x': (Identity() + pa, {'a_c': x}),
                'table-that-is-x+x': (Tabulated(x) + Identity(), {}),
            }
            for name, (model, params) in combos.items():
                O(model), O(params)
                runs.append(twice_and_after_writing_into_the_result(
                    f'CompositeModel.__call__[{name},{shape}]', lambda model=model, x=x, params=params: model(x, **params)))
        return _each(*runs)

    @case('fit_peaks', 'passthrough:user-models-returning-parameters-and-stored-guesses-bounds-table')
    def _(P, A, O, rng):
        M = P.peaks.model
        Pedestal, Identity, Tabulated, TabulatedView = passthrough_models(P)

        class StartingValues(M.GaussianModel):
            """A peak model with the caller's starting values and bounds; its width IS its scale parameter."""

            def __init__(self, start, bounds, *, prefix=''):
                super().__init__(prefix=prefix)
                self.start, self.bounds = start, bounds

            def _guess(self, x, y):
                return self.start

            def _param_bounds(self):
                return self.bounds

            def fwhm(self, params):
                return params[self.prefix + 'scale']

        class OnTable(M.Model):
            """f(x; s) = table on the grid of x, whatever s: hands back a view of the stored table."""

            def __init__(self, table, *, prefix=''):
                super().__init__(param_names=('s',), prefix=prefix)
                self.table = table

            def _call(self, x, params):
                i = int(np.searchsorted(self.table.coords['x'].values, x.values[0])) if x.ndim else 0
                return self.table.data['x', i:i + x.sizes['x']] if x.ndim else self.table.data['x', 0]

            def _guess(self, x, y):
                return {'s': sc.scalar(1.0)}

        da, e, w = A(spectrum(rng)), A(_arr([4.0, 6.5], 'angstrom')), A(_s(2.0, 'angstrom'))
        start = O({'amplitude': A(sc.scalar(2.0, unit='angstrom')), 'loc': A(_s(4.0, 'angstrom')), 'scale': A(_s(0.3, 'angstrom'))})
        bounds = O({'scale': (0.0, 5.0), 'loc': (0.0, 10.0)})
        peak = O(StartingValues(start, bounds, prefix='peak_'))
        flat = O(Pedestal(prefix='bkg_'))
        table = A(sc.DataArray(_arr(np.ones(120), 'one'), coords={'x': da.coords['x'].copy()}))
        ontab = O(OnTable(table, prefix='bkg_'))
        x0, xg = A(_s(4.0, 'angstrom')), A(da.coords['x'].copy())
        nv = A(sc.DataArray(sc.values(da.data), coords={'x': da.coords['x']}))

        def summary(res):
            return [(r.popt, r.assessment, r.message, getattr(r, 'red_chisq', None), getattr(r, 'aic', None)) for r in res]

        def f(bkg):
            res = P.peaks.fit_peaks(da, peak_estimates=e, windows=w, background=bkg, peak=peak)
            again = P.peaks.fit_peaks(da, peak_estimates=e, windows=w, background=bkg, peak=peak)
            if fp(summary(res)) != fp(summary(again)):
                raise _Verdict('history_dependence', 'fit_peaks with pass-through user models: the same fit with the same objects gives a different result the second time',
                               family='stand-ins', factory='fit_peaks', needs_mutation=False)
            for r in res:
                for x in (x0, xg):
                    for ev in (r.eval_model, r.eval_peak):
                        if r.popt:
                            twice_and_after_writing_into_the_result(f'FitResult.{ev.__name__}', lambda ev=ev, x=x: ev(x))()
            first = fp(P.peaks.remove_peaks(nv, res))
            if fp(P.peaks.remove_peaks(nv, res)) != first:
                raise _Verdict('history_dependence', 'remove_peaks with pass-through user models: a different result the second time',
                               family='stand-ins', factory='remove_peaks', needs_mutation=False)
        def quiet(bkg):  # (a parameter the model ignores: scipy says so on stderr each time)
            import warnings

            with warnings.catch_warnings():
                warnings.simplefilter('ignore')
                f(bkg)
        return _each(lambda: quiet(flat), lambda: quiet(ontab), lambda: quiet('linear'))

    @case('compute_transmission_map', 'passthrough:shape-and-material-returning-stored-quadrature-distances-coefficients')
    def _(P, A, O, rng):
        from scippneutron.absorption.types import SampleShape

        runs = []
        # sizes that coincide: points x detectors x wavelengths all of one length (and 1), next to sizes that do not
        for npt, ndet, nwl in ((9, 9, 9), (1, 1, 1), (4, 1, 4), (3, 3, 2)):
            pts = A(_vecs(rng.uniform(-0.3, 0.3, size=(npt, 3)), 'cm', dim='quad'))
            wts = A(_arr(np.full(npt, 1.0 / npt), 'cm^3', dim='quad'))
            vol = A(_s(1.0, 'cm^3'))
            det = A(_vecs(rng.normal(size=(ndet, 3)) * 100, 'cm', dim='detector'))
            wl = A(_arr(np.linspace(0.5, 5.0, nwl), 'angstrom', dim='wavelength'))
            beam = A(_vec([0.0, 0.0, 1.0], 'one'))
            dist = A(sc.array(dims=['detector', 'quad'], values=rng.uniform(0.1, 1.0, size=(ndet, npt)), unit='cm'))
            dist_in = A(_arr(rng.uniform(0.1, 1.0, size=npt), 'cm', dim='quad'))
            mu_tab = A(_arr(np.linspace(0.1, 0.5, nwl), '1/cm', dim='wavelength'))
            mu_const = A(_s(0.3, '1/cm'))
            store = O({'quad': (pts, wts), 'vol': vol, 'dist': dist, 'dist_in': dist_in})

            def stand_ins(store=store, wl=wl, mu_tab=mu_tab, mu_const=mu_const):

                class Lookup(SampleShape):
                    """A shape described by tables: every method hands back what it keeps."""

                    def beam_intersection(self, start_point, direction):
                        return store['dist'] if direction.ndim == 2 else store['dist_in']

                    @property
                    def volume(self):
                        return store['vol']

                    def quadrature(self, kind):
                        return store['quad']

                class SamePath(SampleShape):
                    """Every path through the sample has one length, in and out: the same object for both."""

                    def beam_intersection(self, start_point, direction):
                        return store['dist']

                    volume = property(lambda self: store['vol'])

                    def quadrature(self, kind):
                        return store['quad']

                class TableMaterial(P.Material):
                    def attenuation_coefficient(self, wavelength):
                        i = int(np.argmin(abs(wl.values - wavelength.value)))
                        return mu_tab['wavelength', i]

                class GreyMaterial(P.Material):
                    def attenuation_coefficient(self, wavelength):
                        return mu_const

                return Lookup, SamePath, TableMaterial, GreyMaterial

            Lookup, SamePath, TableMaterial, GreyMaterial = stand_ins()
            sp = P.ScatteringParams.for_isotope('V')
            mats = {'standard': P.Material(scattering_params=sp, effective_sample_number_density=A(_s(0.07, '1/angstrom^3'))),
                    'table': TableMaterial(scattering_params=sp, effective_sample_number_density=A(_s(0.07, '1/angstrom^3'))),
                    'grey': GreyMaterial(scattering_params=sp, effective_sample_number_density=A(_s(0.07, '1/angstrom^3')))}
            shapes = {'lookup': Lookup(), 'same-path': SamePath()}
            for sname, shape in shapes.items():
                for mname, mat in mats.items():
                    O(shape), O(mat)

                    def evaluate(shape=shape, mat=mat, beam=beam, wl=wl, det=det):
                        return P.compute_transmission_map(shape, mat, beam_direction=beam, wavelength=wl, detector_position=det,
                                                          quadrature_kind='table')

                    def run(evaluate=evaluate, label=f'compute_transmission_map[{sname},{mname},{npt}x{ndet}x{nwl}]'):
                        first = evaluate()
                        f1 = fp(first)
                        if fp(evaluate()) != f1:
                            raise _Verdict('history_dependence', f'{label}: a different map the second time', family='stand-ins',
                                           factory='compute_transmission_map', needs_mutation=False)
                        # the data of the map is made by the package (the coords are the caller's arrays, documented)
                        first.data *= 2.0
                        if fp(evaluate()) != f1:
                            raise _Verdict('history_dependence', f'{label}: a different map after the caller wrote into the earlier map',
                                           family='stand-ins', factory='compute_transmission_map', needs_mutation=True)
                    runs.append(run)
            cyl = O(cylinder2(P, A))
            runs.append(lambda cyl=cyl, mat=mats['table'], beam=beam, wl=wl, det=det: P.compute_transmission_map(
                cyl, mat, beam_direction=beam, wavelength=wl, detector_position=det, quadrature_kind='cheap'))
        return _each(*runs)

    @case('DiskChopper', 'passthrough:subclass-returning-stored-times-and-angles')
    def _(P, A, O, rng):
        t_open, t_close = A(_arr([1e-3, 9e-3], 's', dim='slit')), A(_arr([4e-3, 12e-3], 's', dim='slit'))
        store = O({'open': t_open, 'close': t_close})

        class Measured(P.DiskChopper):
            """Opening and closing times taken from a measurement: handed back as they are."""

            def time_offset_open(self, *, pulse_frequency):
                return store['open']

            def time_offset_close(self, *, pulse_frequency):
                return store['close']

        class MeasuredEdges(P.DiskChopper):
            def time_offset_angle_at_beam(self, *, angle, n_repetitions=None):
                return store['open'] if angle is self.slit_begin or angle is self.slit_end and not self.is_clockwise else store['close']

        def mk(cls):
            return cls(axle_position=A(_vec([0.0, 0.0, 8.0])), frequency=A(_s(14.0, 'Hz')), beam_position=A(_s(0.0, 'rad')),
                       phase=A(_s(0.5, 'rad')), slit_begin=A(_arr([0.0, 2.0], 'rad', dim='slit')), slit_end=A(_arr([1.0, 3.0], 'rad', dim='slit')))

        dc, de = O(mk(Measured)), O(mk(MeasuredEdges))
        pf = A(_s(14.0, 'Hz'))
        fr = O(frame(P, A))

        def f():
            for _ in range(2):
                twice_and_after_writing_into_the_result('DiskChopper.open_duration', lambda: dc.open_duration(pulse_frequency=pf))()
                ch = P.CC.Chopper.from_disk_chopper(dc, pulse_frequency=pf, npulses=1)
                ce = P.CC.Chopper.from_disk_chopper(de, pulse_frequency=pf, npulses=1)   # times in the unit asked for: no conversion
                first = fp(fr.chop(ce))
                if fp(fr.chop(ce)) != first or fp(fr.chop(P.CC.Chopper.from_disk_chopper(de, pulse_frequency=pf, npulses=1))) != first:
                    raise _Verdict('history_dependence', 'Frame.chop with a chopper made from stored times: a different frame the second time',
                                   family='stand-ins', factory='from_disk_chopper', needs_mutation=False)
                fr.chop(ch)
        return f

    # ===================================================== (k)/(l) contents changed in place between calls; results vs arguments
    # A caller may keep its operand objects and change their CONTENTS in place between two calls, and may write into a
    # result it was given.  For every entry point that computes new values from scipp operands:
    #   (l1) after a call every argument is scaled in place: the result obtained EARLIER keeps its bits;
    #   (k)  the call is repeated with the very same objects (new contents): the result equals, bit for bit, the result
    #        for fresh copies holding the same contents (a result remembered under the identity of an operand would not);
    #   (l2) the contents are put back in place, the call must give the first result again; that result is then scaled in
    #        place: every argument keeps its bits and yet another call still gives the first result.
    # Operand lengths 2, 3, 4 (the 2 of a 'range', the 3 components of a vector / parameters of a peak, one more).
    def _leaves(o, out):
        if isinstance(o, sc.Variable):
            out.append(o)
        elif isinstance(o, sc.DataArray):
            out.append(o.data)
        elif isinstance(o, dict):
            for v in o.values():
                _leaves(v, out)
        elif isinstance(o, list | tuple):
            for v in o:
                _leaves(v, out)
        return out

    def _scale_in_place(o, factor=1.25):
        n = 0
        for v in _leaves(o, []):
            try:
                v *= factor
                n += 1
            except Exception:  # noqa: BLE001  (read-only, integer, string ...: nothing a caller could do this way)
                pass
        return n

    def _put_back(v, saved):
        v.values = saved.values
        if saved.variances is not None:
            v.variances = saved.variances

    def contents_probe(name, call, args):
        def run():
            def verdict(kind, what, direction):
                return _Verdict(kind, f'{name}: {what}', function=name, direction=direction)

            saved = {k: v.copy() for k, v in args.items()}

            def unchanged(when):  # (the probe puts contents back itself, so it has to look at the arguments itself, too)
                for k, v in args.items():
                    if fp(v) != fp(saved[k]):
                        raise verdict('owner_buffer_modified', f'{when} modified the argument {k!r}', 'call')

            try:
                first = call(**args)
                f1 = fp(first)
                unchanged('the first call')
                for i, (k, v) in enumerate(args.items()):
                    _scale_in_place(v, 1.25 + 0.25 * i)
                    if fp(first) != f1:
                        raise verdict('result_aliases_argument', f'writing into the argument {k!r} after the call changed the result obtained earlier', 'argument->result')
                try:
                    same_objects = fp(call(**args))
                except Exception as e:  # noqa: BLE001
                    same_objects = 'raised ' + type(e).__name__
                try:
                    fresh_objects = fp(call(**{k: v.copy() for k, v in args.items()}))
                except Exception as e:  # noqa: BLE001
                    fresh_objects = 'raised ' + type(e).__name__
                for k, v in args.items():
                    _put_back(v, saved[k])
                if same_objects != fresh_objects:
                    raise verdict('history_dependence', 'after the contents of the operands were changed in place, the call with the very same '
                                  'objects gives a result different from the call with fresh objects holding the same contents', 'contents-changed-in-place')
                insensitive = same_objects == f1  # (e.g. a ratio of operands: the repeated call teaches nothing here)
                again = call(**args)
                unchanged('the call after the contents were put back')
                if fp(again) != f1:
                    raise verdict('history_dependence', 'with the original contents put back in place the call gives a result different from the first', 'contents-put-back')
                if _scale_in_place(again):
                    for k, v in args.items():
                        if fp(v) != fp(saved[k]):
                            raise verdict('result_aliases_argument', f'writing into the result changed the argument {k!r}', 'result->argument')
                    if fp(call(**args)) != f1:
                        raise verdict('history_dependence', 'after the caller wrote into an earlier result the same call gives a different result', 'result-written')
            finally:  # (whatever was found: the harness leaves the caller's objects as it got them)
                for k, v in args.items():
                    _put_back(v, saved[k])
            if insensitive:
                raise _Insensitive()

        return run

    class _Insensitive(Exception):
        """The result did not change with the contents: counted ('noncanon case raised: ...: _Insensitive'), not judged."""

    probe_sizes = itertools.cycle((2, 3, 4))

    def probe_case(name, build_args, call, dts=('float64', 'float32')):
        n = next(probe_sizes)
        for dt in dts:
            @case(name, f'in-place:contents-changed-between-calls-and-result-vs-arguments[{dt},len-{n}]')
            def _(P, A, O, rng, dt=dt, n=n):
                args = {k: A(v) for k, v in build_args(P, rng, n, dt).items()}
                return contents_probe(name, lambda **kw: call(P, **kw), args)

    def _u(rng, lo, hi, n, unit, dt):
        return _arr(rng.uniform(lo, hi, n), unit, dtype=dt)

    probe_case('L1', lambda P, rng, n, dt: {'incident_beam': _vec([0.3, -0.2, 25.0])}, lambda P, **kw: P.KB.L1(**kw), dts=('float64',))
    probe_case('L2', lambda P, rng, n, dt: {'scattered_beam': _vecs(rng.normal(size=(n, 3)) + [0, 0, 4.0])}, lambda P, **kw: P.KB.L2(**kw), dts=('float64',))
    probe_case('straight_incident_beam', lambda P, rng, n, dt: {'source_position': _vec([0.0, 0.0, -25.0]), 'sample_position': _vec([0.1, 0.2, 0.3])},
               lambda P, **kw: P.KB.straight_incident_beam(**kw), dts=('float64',))
    probe_case('straight_scattered_beam', lambda P, rng, n, dt: {'position': _vecs(rng.normal(size=(n, 3)) + [0, 0, 4.0]), 'sample_position': _vec([0.1, 0.2, 0.3])},
               lambda P, **kw: P.KB.straight_scattered_beam(**kw), dts=('float64',))
    probe_case('total_beam_length', lambda P, rng, n, dt: {'L1': sc.scalar(25.0, unit='m', dtype=dt), 'L2': _u(rng, 1, 5, n, 'm', dt)},
               lambda P, **kw: P.KB.total_beam_length(**kw))
    probe_case('total_straight_beam_length_no_scatter', lambda P, rng, n, dt: {'source_position': _vec([0.0, 0.0, -25.0]), 'position': _vecs(rng.normal(size=(n, 3)) + [0, 0, 4.0])},
               lambda P, **kw: P.KB.total_straight_beam_length_no_scatter(**kw), dts=('float64',))
    probe_case('two_theta', lambda P, rng, n, dt: {'incident_beam': _vec([0.0, 0.0, 25.0]), 'scattered_beam': _vecs(rng.normal(size=(n, 3)) + [0, 0, 4.0])},
               lambda P, **kw: P.KB.two_theta(**kw), dts=('float64',))
    probe_case('beam_aligned_unit_vectors', lambda P, rng, n, dt: {'incident_beam': _vec([0.0, 0.0, 25.0]), 'gravity': _vec(g_std, 'm/s^2')},
               lambda P, **kw: P.KB.beam_aligned_unit_vectors(**kw), dts=('float64',))
    for gname in ('scattering_angles_with_gravity', 'scattering_angle_in_yz_plane'):
        probe_case(gname, lambda P, rng, n, dt: {'incident_beam': _vec([0.0, 0.0, 25.0]), 'scattered_beam': _vecs(rng.normal(size=(n, 3)) + [0, 0.2, 4.0]),
                                                 'wavelength': _arr(rng.uniform(1, 10, n) * 1e-10, 'm', dtype=dt), 'gravity': _vec(g_std, 'm/s^2')},
                   lambda P, gname=gname, **kw: getattr(P.KB, gname)(**kw))
    probe_ranges = {'us': (1e3, 1e4), 'm': (10.0, 20.0), 'rad': (0.1, 2.0), 'meV': (10.0, 20.0), 'angstrom': (1.0, 8.0), '1/angstrom': (1.0, 5.0)}
    for kname, spec in kernels_1d.items():
        probe_case(kname, lambda P, rng, n, dt, spec=spec: {
            arg: _u(rng, *(np.array(probe_ranges[unit]) * (10.0 if arg == 'tof' and len(spec) == 4 else 1.0)), n, unit, dt) for arg, unit in spec},
            lambda P, kname=kname, **kw: getattr(P.KT, kname)(**kw))
    probe_case('Q_vec_from_Q_elements', lambda P, rng, n, dt: {q: _u(rng, -3, 3, n, '1/angstrom', 'float64') for q in ('Qx', 'Qy', 'Qz')},
               lambda P, **kw: P.KT.Q_vec_from_Q_elements(**kw), dts=('float64',))
    probe_case('Q_elements_from_wavelength', lambda P, rng, n, dt: {'wavelength': _u(rng, 1, 8, n, 'angstrom', dt), 'incident_beam': _vec([0.0, 0.0, 25.0]),
                                                                  'scattered_beam': _vecs(rng.normal(size=(n, 3)) + [0, 0, 4.0])},
               lambda P, **kw: P.KT.Q_elements_from_wavelength(**kw))
    probe_case('propagate_times', lambda P, rng, n, dt: {'time': _u(rng, 0, 3e-3, n, 's', dt), 'wavelength': _u(rng, 1, 8, n, 'angstrom', dt), 'distance': sc.scalar(10.0, unit='m', dtype=dt)},
               lambda P, time, wavelength, distance: P.CC.propagate_times(time, wavelength, distance))
    probe_case('Material.attenuation_coefficient', lambda P, rng, n, dt: {'wavelength': _arr(rng.uniform(0.5, 5, n), 'angstrom', dim='wavelength', dtype=dt)},
               lambda P, wavelength: P.Material(scattering_params=P.ScatteringParams.for_isotope('V'),
                                                effective_sample_number_density=_s(0.07, '1/angstrom^3')).attenuation_coefficient(wavelength))
    probe_case('Cylinder.beam_intersection', lambda P, rng, n, dt: {'start_point': _vecs(rng.uniform(-0.2, 0.2, size=(n, 3)), 'cm'), 'direction': _vecs(rng.normal(size=(n, 3)), 'one')},
               lambda P, start_point, direction: cylinder2(P, lambda v: v).beam_intersection(start_point, direction), dts=('float64',))
    probe_case('DiskChopper.time_offset_angle_at_beam', lambda P, rng, n, dt: {'angle': _u(rng, 0, 6, n, 'rad', dt)},
               lambda P, angle: disk(P, lambda v: v, [10.0, 100.0], [60.0, 150.0]).time_offset_angle_at_beam(angle=angle))
    # the same with operand VALUES for which a step inside the entry point is a no-op (unit-length vectors, a zero
    # offset / distance / phase, factor one): the step that would otherwise make a new array may be skipped
    def probe_case_noop(name, build_args, call):
        @case(name, 'in-place:operands-that-make-an-internal-step-a-no-op')
        def _(P, A, O, rng):
            args = {k: A(v) for k, v in build_args(P, rng).items()}
            return contents_probe(name, lambda **kw: call(P, **kw), args)

    unit_rows = [[0.0, 0.0, 1.0], [0.0, 1.0, 0.0], [0.6, 0.0, 0.8]]
    probe_case_noop('beam_aligned_unit_vectors', lambda P, rng: {'incident_beam': _vec([0.0, 0.0, 1.0]), 'gravity': _vec([0.0, -1.0, 0.0], 'm/s^2')},
                    lambda P, **kw: P.KB.beam_aligned_unit_vectors(**kw))
    probe_case_noop('two_theta', lambda P, rng: {'incident_beam': _vec([0.0, 0.0, 1.0]), 'scattered_beam': _vecs(unit_rows)},
                    lambda P, **kw: P.KB.two_theta(**kw))
    probe_case_noop('L2', lambda P, rng: {'scattered_beam': _vecs(unit_rows)}, lambda P, **kw: P.KB.L2(**kw))
    probe_case_noop('straight_incident_beam', lambda P, rng: {'source_position': _vec([0.0, 0.0, 0.0]), 'sample_position': _vec([0.1, 0.2, 0.3])},
                    lambda P, **kw: P.KB.straight_incident_beam(**kw))
    probe_case_noop('straight_scattered_beam', lambda P, rng: {'position': _vecs(unit_rows), 'sample_position': _vec([0.0, 0.0, 0.0])},
                    lambda P, **kw: P.KB.straight_scattered_beam(**kw))
    probe_case_noop('total_beam_length', lambda P, rng: {'L1': _s(0.0, 'm'), 'L2': _arr([1.0, 2.0, 3.0], 'm')}, lambda P, **kw: P.KB.total_beam_length(**kw))
    probe_case_noop('total_straight_beam_length_no_scatter', lambda P, rng: {'source_position': _vec([0.0, 0.0, 0.0]), 'position': _vecs(unit_rows)},
                    lambda P, **kw: P.KB.total_straight_beam_length_no_scatter(**kw))
    probe_case_noop('scattering_angles_with_gravity', lambda P, rng: {
        'incident_beam': _vec([0.0, 0.0, 1.0]), 'scattered_beam': _vecs(unit_rows), 'wavelength': _arr([0.0, 0.0, 0.0], 'm'), 'gravity': _vec([0.0, -1.0, 0.0], 'm/s^2')},
        lambda P, **kw: P.KB.scattering_angles_with_gravity(**kw))
    probe_case_noop('Q_elements_from_wavelength', lambda P, rng: {'wavelength': _arr([1.0, 1.0, 1.0], 'angstrom'), 'incident_beam': _vec([0.0, 0.0, 1.0]),
                                                                  'scattered_beam': _vecs(unit_rows)}, lambda P, **kw: P.KT.Q_elements_from_wavelength(**kw))
    probe_case_noop('propagate_times', lambda P, rng: {'time': _arr([1e-3, 2e-3], 's'), 'wavelength': _arr([1.0, 2.0], 'angstrom'), 'distance': _s(0.0, 'm')},
                    lambda P, time, wavelength, distance: P.CC.propagate_times(time, wavelength, distance))
    probe_case_noop('DiskChopper.time_offset_angle_at_beam', lambda P, rng: {'angle': _arr([0.0, 1.0], 'rad')},
                    lambda P, angle: disk(P, lambda v: v, [0.0, 2.0], [1.0, 3.0], unit='rad', phase=(0.0, 'rad'), f=1.0 / (2 * np.pi)).time_offset_angle_at_beam(angle=angle))
    probe_case_noop('polynomial-model.__call__', lambda P, rng: {'x': _arr([1.0, 1.0, 1.0], 'angstrom'), 'p_a0': _s(0.0, 'angstrom'), 'p_a1': sc.scalar(1.0)},
                    lambda P, x, **pr: P.peaks.model.PolynomialModel(degree=1, prefix='p_')(x, **pr))
    probe_case_noop('energy_transfer_direct_from_tof', lambda P, rng: {'tof': _arr([2e4, 3e4], 'us'), 'L1': _s(10.0, 'm'), 'L2': _arr([0.0, 0.0], 'm'), 'incident_energy': _s(15.0, 'meV')},
                    lambda P, **kw: P.KT.energy_transfer_direct_from_tof(**kw))

    for mkind in ('gaussian', 'lorentzian', 'pseudo_voigt', 'polynomial'):
        def margs(P, rng, n, dt, mkind=mkind):
            _, pr = builtin_with_params(P, lambda v: v, mkind, 'p_', dt)
            return {'x': _arr(np.linspace(1.0, 2.0, n), 'angstrom', dtype=dt), **pr}
        probe_case(f'{mkind}-model.__call__', margs,
                   lambda P, x, mkind=mkind, **pr: builtin_with_params(P, lambda v: v, mkind, 'p_', 'float64')[0](x, **pr))
    for ckind in ('gaussian', 'polynomial'):
        def cargs(P, rng, n, dt, ckind=ckind):
            _, pr = builtin_with_params(P, lambda v: v, ckind, 'p_', dt)
            _, pr2 = builtin_with_params(P, lambda v: v, 'polynomial', 'lin_', dt)
            return {'x': _arr(np.linspace(1.0, 2.0, n), 'angstrom', dtype=dt), **pr, **pr2}
        probe_case(f'composite-{ckind}+linear.__call__', cargs,
                   lambda P, x, ckind=ckind, **pr: (builtin_with_params(P, lambda v: v, ckind, 'p_', 'float64')[0]
                                                    + builtin_with_params(P, lambda v: v, 'polynomial', 'lin_', 'float64')[0])(x, **pr))

    # ===================================================== the Monte-Carlo quadrature with the caller's random state pinned
    # The 'mc' quadrature draws its points from numpy's process-wide random state, which belongs to the caller like any
    # other input: a caller who puts it into the same state before each of two identical calls (np.random.seed, as the
    # package's own test does) gets the same points, however many quadratures were drawn in between.  (Reading of
    # "results do not depend on call history" with the global random state counted among the inputs; without pinning
    # nothing is compared.)
    @case('Cylinder.quadrature', 'mc:numpy-global-random-state-pinned-by-the-caller', layouts=('plain',))
    def _(P, A, O, rng):
        cyl, mat = O(cylinder2(P, A)), O(material2(P, A, O))
        b, w = A(_vec([0.0, 0.1, 3.0], 'one')), A(sc.linspace('wavelength', 0.5, 5.0, 3, unit='angstrom'))
        d = A(_vecs(rng.normal(size=(4, 3)) * 100, 'cm'))
        calls = {"quadrature('mc')": lambda: cyl.quadrature('mc'), "quadrature(('mc', 9))": lambda: cyl.quadrature(('mc', 9)),
                 "compute_transmission_map(quadrature_kind=('mc', 50))": lambda: P.compute_transmission_map(
                     cyl, mat, beam_direction=b, wavelength=w, detector_position=d, quadrature_kind=('mc', 50))}

        def f():
            state = np.random.get_state()
            try:
                for label, call in calls.items():
                    results = []
                    for earlier in (0, 1, 3):
                        for _ in range(earlier):
                            cyl.quadrature(('mc', 5))
                        np.random.seed(20240607)
                        results.append(fp(call()))
                    if len(set(results)) != 1:
                        raise _Verdict('history_dependence', f'Cylinder {label}: with numpy\'s global random state put into the same state before each '
                                       'call, the result depends on how many Monte-Carlo quadratures were drawn earlier in the process',
                                       family='random-state', factory='Cylinder.quadrature(mc)', needs_mutation=False)
            finally:
                np.random.set_state(state)
        return f

    # ===================================================== (n) strings that are not in NFC / NFKC form
    # The string arguments of the combinators and lookups this property is about: model prefixes (they decide which
    # caller-owned parameter object reaches which component) and isotope names (the keys of the lookup caches).  A
    # prefix is kept code point by code point, two prefixes that merely normalise to the same string are two prefixes,
    # and a name that merely normalises to an isotope name is not that isotope -- neither now nor for later lookups.
    odd_strings = {'decomposed-accent': 'e\u0301', 'angstrom-sign': '\u212b', 'kelvin-sign': '\u212a', 'ohm-sign': '\u2126',
                   'micro-sign': '\u00b5', 'fullwidth': '\uff50\uff4b', 'ligature': '\ufb01', 'conjoining-jamo': '\u1100\u1161',
                   'greek-question-mark': '\u037e'}

    @case('model combinators / lookups', 'unicode:prefixes-and-isotope-names-not-in-normal-form', layouts=('plain',))
    def _(P, A, O, rng):
        import unicodedata

        M = P.peaks.model
        x = A(_arr([1.0, 1.5, 2.0], 'angstrom'))

        def bad(what):
            return _Verdict('string_not_preserved', what, function='model combinators / lookups')

        def f():
            for label, odd in odd_strings.items():
                pre, norm = odd + '_', unicodedata.normalize('NFKC', odd) + '_'
                assert norm != pre
                g, gp = builtin_with_params(P, lambda v: v, 'gaussian', pre, 'float64')
                g2, gp2 = builtin_with_params(P, lambda v: v, 'gaussian', norm, 'float64')
                lin = M.PolynomialModel(degree=1, prefix='b_').with_prefix(pre + 'b_')
                for m, names in ((g, set(gp)), (lin, {pre + 'b_a0', pre + 'b_a1'}), (g + g2, set(gp) | set(gp2)),
                                 ((g + g2).with_prefix(''), set(gp) | set(gp2))):
                    if sorted(map(list, m.param_names)) != sorted(map(list, names)):
                        raise bad(f'{label}: parameter names {sorted(m.param_names)!r} instead of {sorted(names)!r}')
                if list(g.prefix) != list(pre):
                    raise bad(f'{label}: prefix {g.prefix!r} instead of {pre!r}')
                alone, both = g(x, **gp), (g + g2)(x, **gp, **gp2)
                if fp(both) != fp(alone + g2(x, **gp2)):
                    raise bad(f'{label}: the sum of two models whose prefixes differ only by normalisation is not the sum of the two')
                try:
                    g(x, **gp2)   # the names of the OTHER model
                except Exception:  # noqa: BLE001
                    pass
                else:
                    raise bad(f'{label}: a model with prefix {pre!r} accepted parameters named with the prefix {norm!r}')
            for name in ('K', 'H', 'Si', 'V'):
                ref = fp((P.Atom.for_isotope(name), P.ScatteringParams.for_isotope(name)))
                for variant in sorted({name.replace('K', '\u212a'), ''.join(chr(ord(c) + 0xfee0) for c in name), name[0] + '\u0301' + name[1:]} - {name}):
                    for lookup in (P.Atom.for_isotope, P.ScatteringParams.for_isotope):
                        try:
                            got = lookup(variant)
                        except Exception:  # noqa: BLE001  (refused: fine)
                            continue
                        if list(got.isotope) != list(variant):
                            raise bad(f'lookup of {variant!r} ({[hex(ord(c)) for c in variant]}) returned the entry {got.isotope!r}')
                    if fp((P.Atom.for_isotope(name), P.ScatteringParams.for_isotope(name))) != ref:
                        raise _Verdict('history_dependence', f'lookup of {name!r} differs after a lookup of {variant!r}', family='atoms', factory='for_isotope', needs_mutation=False)
        return f

    # ===================================================== (j) display / copy / pickle / == between two computational calls
    def displayed(make, compute, label):
        """build(): the object is computed with, then shown / copied / pickled / compared, then computed with again:
        the object itself must not change (caller-owned) and the second result must equal the first."""
        import copy
        import pickle

        def build(P, A, O, rng):
            obj = O(make(P, A, O, rng))
            other = make(P, A, O, np.random.Generator(np.random.PCG64(12345)))

            def run():
                first = fp(compute(P, obj))
                ops = [repr, str, lambda o: format(o, ''), lambda o: getattr(o, '_repr_html_', lambda: None)(),
                       lambda o: getattr(o, '_repr_svg_', lambda: None)(), copy.copy, copy.deepcopy,
                       lambda o: pickle.loads(pickle.dumps(o)), lambda o: o == o, lambda o: o == other, lambda o: o != other,
                       lambda o: o == copy.deepcopy(o), lambda o: hash(o), lambda o: o == 'not the same type', dir,
                       lambda o: [getattr(o, a, None) for a in dir(o) if not a.startswith('_') and isinstance(getattr(type(o), a, None), property)]]
                for op in ops:
                    try:
                        op(obj)
                    except Exception:  # noqa: BLE001  (unhashable, unpicklable ...: not a matter of this property)
                        pass
                second = fp(compute(P, obj))
                if first != second:
                    raise _Verdict('history_dependence',
                                   f'{label}: the same computation on the same object gives a different result after the '
                                   'object was displayed / copied / pickled / compared', family='display', factory=label,
                                   needs_mutation=False)
            return run
        return build

    x7 = lambda: _arr(np.linspace(0.0, 10.0, 7), 'angstrom')  # noqa: E731
    gp7 = lambda pre: {pre + 'amplitude': sc.scalar(2.0), pre + 'loc': _s(4.0, 'angstrom'), pre + 'scale': _s(0.3, 'angstrom')}  # noqa: E731
    displayables = {
        'DiskChopper': (lambda P, A, O, rng: disk(P, A, [10.0 + rng.random(), 100.0], [60.0, 150.0], f=-14.0),
                        lambda P, o: (o.time_offset_open(pulse_frequency=_s(14.0, 'Hz')), o.open_duration(pulse_frequency=_s(14.0, 'Hz')))),
        'Chopper': (lambda P, A, O, rng: chopper(P, A, 8.0 + rng.random(), 'm', [15e-3, 5e-3], [20e-3, 9e-3]),
                    lambda P, o: frame(P, lambda v: v).chop(o)),
        'Frame': (lambda P, A, O, rng: frame(P, A).chop(chopper(P, A, 8.0 + rng.random(), 'm', [15e-3, 5e-3], [20e-3, 9e-3])),
                  lambda P, o: (o.bounds(), o.subbounds(), o.propagate_to(_s(20.0, 'm')))),
        'FrameSequence': (lambda P, A, O, rng: P.CC.FrameSequence.from_source_pulse(**source(P, A)).chop(
            [chopper(P, A, 8.0 + rng.random(), 'm', [5e-3], [9e-3])]),
            lambda P, o: (o[_s(12.0, 'm')], o.propagate_to(_s(20.0, 'm')).frames[-1])),
        'GaussianModel': (lambda P, A, O, rng: P.peaks.model.GaussianModel(prefix=f'g{rng.integers(9)}_'),
                          lambda P, o: (o(x7(), **gp7(o.prefix)), o.fwhm(gp7(o.prefix)), sorted(o.param_bounds.items()))),
        'CompositeModel': (lambda P, A, O, rng: P.peaks.model.GaussianModel(prefix=f'g{rng.integers(9)}_') + P.peaks.model.PolynomialModel(degree=1, prefix='p_'),
                           lambda P, o: (sorted(o.param_names), sorted(o.param_bounds.items()), o.guess(spectrum(np.random.Generator(np.random.PCG64(3)))))),
        'FitResult': (lambda P, A, O, rng: clean_fit(P, rng)[1][0],
                      lambda P, o: (o.eval_model(x7()), o.eval_peak(x7()), o.report(), [getattr(o, a, None) for a in ('popt', 'red_chisq', 'aic', 'p_value', 'assessment')])),
        'FitParameters': (lambda P, A, O, rng: P.peaks.FitParameters(neighbor_separation_factor=-0.5 - rng.random()),
                          lambda P, o: [(r.popt, r.assessment) for r in P.peaks.fit_peaks(
                              spectrum(np.random.Generator(np.random.PCG64(3))), peak_estimates=_arr([4.0, 6.5], 'angstrom'),
                              windows=_s(2.0, 'angstrom'), background='linear', peak='gaussian', fit_parameters=o)]),
        'Cylinder': (lambda P, A, O, rng: cylinder2(P, A, radius=0.5 + rng.random()),
                     lambda P, o: (o.quadrature('cheap'), o.center, o.volume, o.beam_intersection(_vecs([[0.1, 0.0, 0.0]], 'cm'), _vecs([[0.0, 0.0, 1.0]], 'one')))),
        'Material': (lambda P, A, O, rng: material2(P, A, O, density=0.07 + rng.random()),
                     lambda P, o: o.attenuation_coefficient(_arr([0.5, 1.8], 'angstrom', dim='wavelength'))),
        'Atom': (lambda P, A, O, rng: P.Atom.for_isotope(['V', 'H', 'Si'][rng.integers(3)]),
                 lambda P, o: [getattr(o, a, None) for a in ('atomic_weight', 'z', 'isotope')]),
        'ScatteringParams': (lambda P, A, O, rng: P.ScatteringParams.for_isotope(['V', 'H', 'Si'][rng.integers(3)]),
                             lambda P, o: P.Material(scattering_params=o, effective_sample_number_density=_s(0.07, '1/angstrom^3')
                                                     ).attenuation_coefficient(_arr([0.5, 1.8], 'angstrom', dim='wavelength'))),
        # (authors without a role: every save of a builder draws fresh ids for the roles of its authors from a
        # counter, so the text of a builder whose authors have roles differs from save to save -- reported, not judged)
        'CIF': (lambda P, A, O, rng: P.cif.CIF(f'n{rng.integers(9)}').with_reduced_powder_data(A(powder(rng))).with_authors(
            people(P)['plain']), lambda P, o: _cif_text(P, o)),
        'Block': (lambda P, A, O, rng: P.cif.Block(f'b{rng.integers(9)}', [P.cif.Chunk({'a.b': 1}, comment='c'),
                                                                           P.cif.Loop({'l.x': A(sc.arange('i', 3.0, unit='m'))})]),
                  lambda P, o: _cif_text(P, o)),
        'SqwIXExperiment': (lambda P, A, O, rng: sqw_experiments(P, A, n=1)[0],
                            lambda P, o: _sqw_bytes(P, [o], sqw_pixels(np.random.Generator(np.random.PCG64(3)), 7))),
        'Person': (lambda P, A, O, rng: list(people(P).values())[rng.integers(3)],
                   lambda P, o: _cif_text(P, P.cif.CIF('a').with_authors(o))),
        'elastic-graph': (lambda P, A, O, rng: P.GT.elastic('tof'),
                          lambda P, o: beamline_da(np.random.Generator(np.random.PCG64(3)), _arr([1e3, 2e3], 'us', dim='tof')).transform_coords(
                              ['wavelength'], graph={**P.GB.beamline(scatter=True), **o})),
    }

    def _cif_text(P, o):
        buf = io.StringIO()
        o.save(buf) if isinstance(o, P.cif.CIF) else P.cif.save_cif(buf, o)
        return [ln for ln in buf.getvalue().splitlines() if 'audit.creation_date' not in ln]

    def _sqw_bytes(P, exps, pix):
        buf = io.BytesIO()
        P.sqw.Sqw.build(buf, byteorder='little').add_pixel_data(pix, experiments=exps).create()
        raw = buf.getvalue()
        return len(raw)  # the main header carries the creation time: only the size is comparable

    for label, (make, compute) in displayables.items():
        case(label, 'display:repr-copy-deepcopy-pickle-eq-between-two-computations', layouts=one_layout())(
            displayed(make, compute, label))

    # ===================================================== (l3) results vs results vs module state
    # Two results never share memory with each other, the parts of one result do not share memory with one another,
    # and nothing a result is made of is module state.  For every call that hands out scipp values (a fresh call each
    # time, with arguments made anew, so that argument aliasing -- judged above -- plays no role): the call is made
    # twice (r0, r1 equal); then a caller stores new finite values, in place, into every writable leaf of r1 in turn
    # (leaves that hold NaN / inf / 0 included: assignment, not arithmetic); after each write
    #   (1) every OTHER leaf of r1 keeps its bits,   (2) the result obtained EARLIER (r0) keeps its bits,
    # and at the end  (3) a repeat of the call gives the bits of the first result.
    def _named_leaves(o, path, out, depth=0):
        import dataclasses
        if depth > 5:
            return out
        if isinstance(o, sc.Variable):
            out.append((path, o))
        elif isinstance(o, sc.DataArray):
            out.append((path + '.data', o.data))
            for k, v in o.coords.items():
                out.append((f'{path}.coords[{k}]', v))
            for k, v in o.masks.items():
                out.append((f'{path}.masks[{k}]', v))
        elif isinstance(o, dict | sc.DataGroup):
            for k, v in o.items():
                _named_leaves(v, f'{path}[{k!r}]', out, depth + 1)
        elif isinstance(o, list | tuple):
            for i, v in enumerate(o):
                _named_leaves(v, f'{path}[{i}]', out, depth + 1)
        elif dataclasses.is_dataclass(o) and not isinstance(o, type):
            for f in dataclasses.fields(o):
                if f.name.startswith('_'):   # (not part of the public surface: what a property hands out is looked at as a result of its own)
                    continue
                try:
                    _named_leaves(getattr(o, f.name), f'{path}.{f.name}', out, depth + 1)
                except Exception:  # noqa: BLE001
                    pass
        return out

    def _store(v, k):
        """Store new finite values in place; True if the leaf now holds other bits than before."""
        if v.dtype not in (sc.DType.float64, sc.DType.float32, sc.DType.int64, sc.DType.int32):
            return False
        before = fp(v)
        for offset in (0.0, 1.0):
            try:
                new = (np.arange(int(np.prod(v.shape, dtype=int)), dtype=float).reshape(v.shape) + offset + k) * (0.0 if k == 0 and offset == 0.0 else 1.0)
                if v.ndim == 0:
                    v.value = new.reshape(()).astype(v.values.dtype)[()]
                else:
                    v.values = new.astype(v.values.dtype)
                if v.variances is not None:
                    v.variances = new.astype(v.values.dtype) if v.ndim else float(new)
            except Exception:  # noqa: BLE001  (read-only: nothing a caller could do this way)
                return False
            if fp(v) != before:
                return True
        return False

    def isolation_probe(name, call):
        def run(P):
            def verdict(kind, what, direction):
                return _Verdict(kind, f'{name}: {what}', function=name, direction=direction)

            r0 = call()
            f0 = fp(r0)
            r1 = call()
            if fp(r1) != f0:
                raise verdict('history_dependence', 'two identical calls with arguments made anew give different results', 'repeat')
            leaves = _named_leaves(r1, 'result', [])
            seen, uniq = set(), []
            for path, v in leaves:   # (one Variable object reachable under two names is one leaf)
                if id(v) not in seen:
                    seen.add(id(v))
                    uniq.append((path, v))
            expect = [fp(v) for _, v in uniq]
            written = 0
            for i, (path, v) in enumerate(uniq):
                if not _store(v, i):
                    continue
                written += 1
                expect[i] = fp(v)
                P.ctx.event('result_isolation_leaf_written')
                for j, (other, w) in enumerate(uniq):
                    if j != i and fp(w) != expect[j]:
                        raise verdict('result_parts_share_memory', f'storing values in place into {path} changed {other} of the same result', 'leaf->other-leaf')
                if fp(r0) != f0:
                    raise verdict('result_aliases_earlier_result', f'storing values in place into {path} of one result changed the result an earlier, identical call had returned', 'result->earlier-result')
            if not written:
                raise _Insensitive()
            if fp(call()) != f0:
                raise verdict('history_dependence', 'after the caller stored values in place into every leaf of an earlier result the same call gives a different result', 'result-written')
        return run

    def isolation_case(entry, facet, make_call):
        @case(entry, f'results:independent-of-each-other-and-of-writes-into-earlier-results[{facet}]', layouts=one_layout())
        def _(P, A, O, rng, make_call=make_call):
            seed = int(rng.integers(1 << 30))
            probe = isolation_probe(f'{entry}[{facet}]', make_call(P, seed))
            return lambda: probe(P)

    def _fit_models(P, pk, bg):
        M = P.peaks.model
        peak = {'gaussian': M.GaussianModel, 'lorentzian': M.LorentzianModel, 'pseudo_voigt': M.PseudoVoigtModel}[pk](prefix='peak_')
        return peak, M.PolynomialModel(degree=bg, prefix='bkg_')

    # fits that did not produce parameters: the public factory for every kind of model pair and assessment ...
    for pk, bg in (('gaussian', 1), ('lorentzian', 2), ('pseudo_voigt', 0)):
        for how in ('failed', 'window_too_narrow', 'for_too_narrow_window', 'with-message'):
            def make(P, seed, pk=pk, bg=bg, how=how):
                def call():
                    peak, back = _fit_models(P, pk, bg)
                    win = _arr([1.0, 2.0], 'angstrom', dim='range')
                    FR, FA = P.peaks.FitResult, P.peaks.FitAssessment
                    if how == 'for_too_narrow_window':
                        return FR.for_too_narrow_window(peak=peak, background=back, window=win)
                    if how == 'with-message':
                        return FR.for_failure(peak=peak, background=back, window=win, message='no luck')
                    return FR.for_failure(peak=peak, background=back, window=win, assessment=None if how == 'failed' else FA.window_too_narrow)
                return call
            isolation_case('FitResult.for_failure', f'{pk}+degree-{bg}:{how}', make)

    # ... and fit_peaks itself: every window too narrow, some too narrow, none; the three peak models
    for pk, bg_name in (('gaussian', 'linear'), ('lorentzian', 'quadratic'), ('pseudo_voigt', 'linear')):
        for facet, widths in {'all-windows-too-narrow': [0.1, 0.1], 'one-window-too-narrow': [0.1, 2.0], 'no-window-too-narrow': [2.0, 2.0],
                              'windows-without-any-point': [1e-6, 1e-6]}.items():
            if facet == 'no-window-too-narrow' and pk != 'gaussian':
                continue
            def make(P, seed, pk=pk, bg_name=bg_name, widths=widths):
                def call():
                    da = spectrum(np.random.Generator(np.random.PCG64(seed)))
                    est = np.array([4.0, 6.5])
                    w = np.array(widths)
                    return P.peaks.fit_peaks(da, peak_estimates=_arr(est, 'angstrom'), windows=win2d(np.stack([est - w / 2, est + w / 2], axis=1)),
                                             background=bg_name, peak=pk)
                return call
            isolation_case('fit_peaks', f'{pk}+{bg_name}:{facet}', make)

    # the other producers of parameter sets and table values
    for mkind in ('gaussian', 'lorentzian', 'pseudo_voigt', 'polynomial'):
        def make(P, seed, mkind=mkind):
            def call():
                m, pr = builtin_with_params(P, lambda v: v, mkind, 'p_', 'float64')
                out = [m.guess(spectrum(np.random.Generator(np.random.PCG64(seed)))), m(_arr([1.0, 1.5, 2.0], 'angstrom'), **pr)]
                if hasattr(m, 'fwhm'):
                    out.append(m.fwhm(pr))
                return out
            return call
        isolation_case('Model.guess / __call__ / fwhm', mkind, make)
    for iso in ('H', '2H', 'V', 'Si'):
        isolation_case('Atom / ScatteringParams lookups', iso, lambda P, seed, iso=iso: lambda: [
            P.Atom.for_isotope(iso), P.Atom.for_isotope(iso).atomic_weight, P.ScatteringParams.for_isotope(iso)])
    for kname, spec in kernels_1d.items():
        isolation_case(kname, 'fixed-operands', lambda P, seed, kname=kname, spec=spec: lambda: getattr(P.KT, kname)(**{
            arg: _arr(np.linspace(*(np.array(probe_ranges[unit]) * (10.0 if arg == 'tof' and len(spec) == 4 else 1.0)), 3), unit) for arg, unit in spec}))
    isolation_case('conversion.beamline kernels', 'fixed-operands', lambda P, seed: lambda: [
        P.KB.two_theta(incident_beam=_vec([0.0, 0.0, 25.0]), scattered_beam=_vecs(unit_rows)), P.KB.L2(scattered_beam=_vecs(unit_rows)),
        P.KB.beam_aligned_unit_vectors(incident_beam=_vec([0.0, 0.0, 25.0]), gravity=_vec(g_std, 'm/s^2')),
        P.KB.scattering_angles_with_gravity(incident_beam=_vec([0.0, 0.0, 25.0]), scattered_beam=_vecs(unit_rows), wavelength=_arr([1.0, 2.0, 3.0], 'angstrom'),
                                            gravity=_vec(g_std, 'm/s^2'))])
    isolation_case('DiskChopper / Frame results', 'fixed-operands', lambda P, seed: lambda: [
        (d := disk(P, lambda v: v, [10.0, 100.0], [60.0, 150.0])).time_offset_open(pulse_frequency=_s(14.0, 'Hz')), d.open_duration(pulse_frequency=_s(14.0, 'Hz')),
        d.slit_begin, d.relative_time_open(), (fr := frame(P, lambda v: v).chop(chopper(P, lambda v: v, 8.0, 'm', [5e-3], [9e-3]))).bounds(), fr.subbounds()])

    # ===================================================== (l4) families of CIF builders, saved in every order
    # A builder and the builders derived from it (and from those) are independent objects: the text saved from a member
    # of such a family equals the text saved from an identically constructed builder none of whose relatives was ever
    # saved -- whichever relatives were saved before, whether a member was derived before or after its parent was saved.
    # The authors have roles and contact details, so that everything a save draws from per-builder state is in the text.
    # (Saving the SAME builder object twice continues its numbering of authors: existing behaviour, counted, not judged.)
    cif_kinds = {
        'with_reducers': lambda P, b, rng: b.with_reducers('prog 1.0'),
        'with_beamline': lambda P, b, rng: b.with_beamline(P.metadata.Beamline(name='DREAM', facility='ESS')),
        'with_reduced_powder_data': lambda P, b, rng: b.with_reduced_powder_data(powder(np.random.Generator(np.random.PCG64(11)))),
        'with_powder_calibration': lambda P, b, rng: b.with_powder_calibration(calibration()),
        'with_authors': lambda P, b, rng: b.with_authors(people(P)['quotes']),
        'copy': lambda P, b, rng: b.copy(),
    }
    kind_names = list(cif_kinds)
    for ki, kind in enumerate(kind_names):
        for relation in ('grandchild', 'sibling'):
            other = kind_names[(ki + (1 if relation == 'grandchild' else 2)) % len(kind_names)]

            @case('CIF builder family', f'saved-in-every-order:{kind}+{relation}-{other}', layouts=('plain',))
            def _(P, A, O, rng, kind=kind, relation=relation, other=other):
                ppl = people(P)

                def recipes():
                    """member -> (parent member or None, how it is made from the parent)"""
                    return {'base': (None, lambda _: P.cif.CIF('fam', comment='family').with_authors(ppl['contact'], ppl['non-ascii'])),
                            'child': ('base', lambda b: cif_kinds[kind](P, b, rng)),
                            'other': ('child' if relation == 'grandchild' else 'base', lambda b: cif_kinds[other](P, b, rng))}

                def member(made, nme, rec):
                    if nme not in made:
                        parent, how = rec[nme]
                        made[nme] = how(member(made, parent, rec) if parent else None)
                    return made[nme]

                def text(b):
                    buf = io.StringIO()
                    b.save(buf)
                    return [ln for ln in buf.getvalue().splitlines() if 'audit.creation_date' not in ln]

                def f():
                    rec = recipes()
                    ref = {nme: text(member({}, nme, rec)) for nme in rec}   # never-shared: none of its relatives is ever saved
                    for nme in rec:
                        if not any('author' in ln for ln in ref[nme]):
                            raise _Insensitive()
                    for eager in (True, False):
                        for order in itertools.permutations(rec):
                            made = {}
                            if eager:   # the whole family exists before the first save
                                for nme in rec:
                                    member(made, nme, rec)
                            saved = []
                            for nme in order:
                                got = text(member(made, nme, rec))
                                P.ctx.event('cif_family_member_saved_after_relatives')
                                if got != ref[nme]:
                                    diff = next((f'{a!r} instead of {b!r}' for a, b in zip(got, ref[nme], strict=False) if a != b), 'different length')
                                    raise _Verdict('history_dependence', f'CIF builder family ({kind}, {relation} {other}): the text saved from {nme!r} after '
                                                   f'{saved or "nothing"} had been saved ({"derived before" if eager else "derived after"} those saves) differs from the text '
                                                   f'of an identically constructed builder whose relatives were never saved: {diff}',
                                                   family='cif-builder-family', factory=kind, needs_mutation=False)
                                saved.append(nme)
                    b = member({}, 'child', rec)
                    if text(b) != text(b):
                        P.ctx.count('the same CIF builder saved twice: the second text differs (author ids continue; existing behaviour, not judged)')
                return f
            _.second = False

    # ===================================================== (h) sizes beyond the thresholds inside the code
    # absorption/base.py switches to a per-detector loop above 20_000_000 (points x detectors); the SQW writer
    # works through pixels in chunks of 8192; beyond that generic large sizes (2**20 + 7, 3 x 400001) at which
    # numpy / scipp / TBB change strategy (threaded loops, chunked reductions, buffered text output).
    N1, N2 = 2**20 + 7, 3 * 400001

    def heavy_case(entry, facet, layouts=('slice',), second=True):
        def deco(f):
            f.layouts, f.heavy, f.second = layouts, True, second
            cases.append((entry, facet, f))
            return f
        return deco

    @heavy_case('conversion.tof kernels', f'size:{N1}-elements')
    def _(P, A, O, rng):
        pool = {unit: A(_arr(rng.uniform(0.5, 3.0, N1) * (1e3 if unit == 'us' else 1.0), unit))
                for unit in ('us', 'm', 'rad', 'meV', 'angstrom', '1/angstrom')}
        return _each(*[lambda name=name, spec=spec: getattr(P.KT, name)(**{arg: pool[unit] for arg, unit in spec})
                       for name, spec in kernels_1d.items()])

    @heavy_case('conversion.tof kernels', f'size:{N2}-elements-float32-with-variances', layouts=('strided',))
    def _(P, A, O, rng):
        pool = {unit: A(with_var(_arr(rng.uniform(0.5, 3.0, N2) * (1e3 if unit == 'us' else 1.0), unit, dtype='float32'),
                                 'some-negative', 'float32'))
                for unit in ('us', 'm', 'rad', 'meV', 'angstrom', '1/angstrom')}
        return _each(*[lambda name=name, spec=spec: getattr(P.KT, name)(**{arg: pool[unit] for arg, unit in spec})
                       for name, spec in kernels_1d.items()])

    @heavy_case('conversion.beamline kernels', f'size:{N1}-detectors')
    def _(P, A, O, rng):
        b1, g = A(_vec([0.0, 0.0, 25.0])), A(_vec(g_std, 'm/s^2'))
        b2 = A(_vecs(rng.normal(size=(N1, 3)) + [0.0, 0.2, 4.0]))
        lam = A(_arr(rng.uniform(1, 10, N1) * 1e-10, 'm'))
        return _each(lambda: P.KB.scattering_angles_with_gravity(incident_beam=b1, scattered_beam=b2, wavelength=lam, gravity=g),
                     lambda: P.KB.scattering_angle_in_yz_plane(incident_beam=b1, scattered_beam=b2, wavelength=lam, gravity=g),
                     lambda: P.KB.two_theta(incident_beam=b1, scattered_beam=b2), lambda: P.KB.L2(scattered_beam=b2),
                     lambda: P.KB.two_theta(incident_beam=b2, scattered_beam=b2))

    @heavy_case('convert', f'size:{N2}-events-in-4096-pixels-with-masks')
    def _(P, A, O, rng):
        npix = 4096
        table = sc.DataArray(
            sc.array(dims=['event'], values=rng.uniform(0.5, 2.0, N2), variances=rng.uniform(-1e-9, 1.0, N2), unit='counts'),
            coords={'tof': _arr(rng.uniform(1e3, 1e4, N2), 'us', dim='event')},
            masks={'em': sc.array(dims=['event'], values=rng.random(N2) < 0.1)})
        cuts = np.sort(rng.integers(0, N2 + 1, size=npix - 1))
        da = sc.DataArray(sc.bins(begin=sc.array(dims=['x'], values=np.concatenate([[0], cuts]), unit=None, dtype='int64'),
                                  end=sc.array(dims=['x'], values=np.concatenate([cuts, [N2]]), unit=None, dtype='int64'),
                                  dim='event', data=table),
                          coords={'position': _vecs(rng.normal(size=(npix, 3)) + [0.0, 0.0, 4.0]),
                                  'source_position': _vec([0.0, 0.0, -25.0]), 'sample_position': _vec([0.0, 0.0, 0.0])},
                          masks={'pm': sc.array(dims=['x'], values=np.arange(npix) % 3 == 0)})
        da = A(da)
        return _each(*[lambda tgt=tgt: P.scn.convert(da, 'tof', tgt, scatter=True) for tgt in ('wavelength', 'dspacing', 'Q', 'energy')])

    @heavy_case('compute_transmission_map', 'size:points-x-detectors-beyond-20_000_000', second=False)
    def _(P, A, O, rng):
        cyl, mat = O(cylinder(P, A, 'axis-tilted')), O(material(P, A))
        b, w = A(_vec([0.0, 0.1, 3.0], 'one')), A(_arr([0.5, 5.0], 'angstrom', dim='wavelength'))
        few = A(_vecs(rng.normal(size=(11, 3)) * 100, 'cm'))
        # (sample points drawn by the package's Monte-Carlo quadrature: 11 detectors x 1818182 points)
        return lambda: P.compute_transmission_map(cyl, mat, beam_direction=b, wavelength=w, detector_position=few,
                                                  quadrature_kind=('mc', 20_000_000 // 11 + 1))

    for npx in (8192, 8193, 2 * 8192 + 5):
        @heavy_case('SqwBuilder.create', f'size:{npx}-pixels-chunks-of-8192', layouts=('strided',))
        def _(P, A, O, rng, npx=npx):
            exps, pix = O(sqw_experiments(P, A)), A(sqw_pixels(rng, npx, var=var_classes['some-negative']))
            return _each(lambda: P.sqw.Sqw.build(io.BytesIO(), byteorder='big').add_pixel_data(pix, experiments=exps).create(),
                         lambda: P.sqw.Sqw.build(io.BytesIO(), byteorder='native').add_pixel_data(pix, experiments=exps).create(chunk_size=npx - 1))

    @heavy_case('io text writers', 'size:400001-and-16385-rows', second=False)
    def _(P, A, O, rng):
        def tab(n, dt):
            return sc.DataArray(sc.array(dims=['tof'], values=rng.normal(size=n).astype(dt), variances=rng.uniform(-1e-9, 1.0, n).astype(dt)),
                                coords={'tof': _arr(np.arange(n, dtype=float), 'us', dim='tof')})
        big, mid = A(tab(400001, 'float64')), A(tab(2**14 + 1, 'float32'))
        return _each(lambda: P.save_xye(io.StringIO(), big),
                     lambda: P.cif.CIF('a').with_reduced_powder_data(mid).save(io.StringIO()))

    @heavy_case('peaks / filtering / cascade', 'size:large-1d-data')
    def _(P, A, O, rng):
        n = 2**16 + 1
        x = np.linspace(0.0, 10.0, n)
        y = 5 * np.exp(-((x - 4.0) / 0.3) ** 2) + 3 * np.exp(-((x - 6.5) / 0.25) ** 2) + 1.0 + rng.normal(size=n) * 0.05
        da = A(sc.DataArray(sc.array(dims=['x'], values=y, variances=np.full(n, 0.05**2)), coords={'x': _arr(x, 'angstrom')}))
        e, w = A(_arr([4.0, 6.5], 'angstrom')), A(_s(2.0, 'angstrom'))
        fpar = O(P.peaks.FitParameters(neighbor_separation_factor=-0.5))
        lvl = np.repeat([1.0, 5.0, -2.0, 7.0], N1 // 4 + 1)[:N1]
        sig = A(sc.DataArray(_arr(lvl, 'Hz', dim='time'), coords={'time': _arr(np.arange(N1, dtype=float), 's', dim='time')}))
        atol = A(_s(0.01, 'Hz/s'))
        t, wl = A(_arr(rng.uniform(0, 3e-3, N1), 's', dim='vertex')), A(_arr(rng.uniform(1, 10, N1), 'angstrom', dim='vertex'))
        nc = 513
        opens = np.arange(nc) * 1e-4
        fr, ch = O(frame(P, A)), O(chopper(P, A, 8.0, 'm', list(opens), list(opens + 5e-5)))
        dc = O(disk(P, A, list(np.arange(1025) * 0.3), list(np.arange(1025) * 0.3 + 0.2)))
        pf = A(_s(14.0, 'Hz'))

        def fit():
            res = P.peaks.fit_peaks(da, peak_estimates=e, windows=w, background='linear', peak='gaussian', fit_parameters=fpar)
            P.peaks.remove_peaks(sc.DataArray(sc.values(da.data), coords={'x': da.coords['x']}), res)
        return _each(fit, lambda: P.filtering.collapse_plateaus(P.filtering.find_plateaus(sig, atol=atol, min_n_points=3)),
                     lambda: P.CC.propagate_times(t, wl, A(_s(10.0, 'm'))), lambda: fr.chop(ch).subbounds(),
                     lambda: (dc.time_offset_open(pulse_frequency=pf), dc.time_offset_angle_at_beam(angle=A(_arr(rng.uniform(0, 6, N1), 'rad')))),
                     lambda: P.CC.Chopper.from_disk_chopper(dc, pulse_frequency=pf, npulses=3))

    return cases


_ALL_CASES = _value_cases()
VALUE_CASES = [c for c in _ALL_CASES if not getattr(c[2], 'heavy', False)]
HEAVY_CASES = [c for c in _ALL_CASES if getattr(c[2], 'heavy', False)]
VALUE_PARTS = 3
LAYOUTS = _LAY3
NONCANON = sorted({f'noncanon:{e}:{f}' for e, f, _ in _ALL_CASES})
N_NONCANON_RUNS = sum(len(getattr(b, 'layouts', None) or LAYOUTS) for _, _, b in _ALL_CASES)


def value_grid(ctx, shard, cases=None):
    """Every computational entry point with arguments that are not in canonical form (see above)."""
    import types

    import scippneutron as scn
    from scippneutron import peaks
    from scippneutron.absorption import Cylinder, Material, compute_transmission_map
    from scippneutron import metadata
    from scippneutron.atoms import Atom, ScatteringParams
    from scippneutron.chopper import DiskChopper, extract_chopper_from_nexus, filtering
    from scippneutron.conversion import beamline as KB
    from scippneutron.conversion import tof as KT
    from scippneutron.conversion.graph import beamline as GB
    from scippneutron.conversion.graph import tof as GT
    from scippneutron.io import cif, save_xye
    from scippneutron.io import sqw
    from scippneutron.tof import chopper_cascade as CC

    P = types.SimpleNamespace(scn=scn, peaks=peaks, Cylinder=Cylinder, Material=Material,
                              compute_transmission_map=compute_transmission_map, ScatteringParams=ScatteringParams,
                              DiskChopper=DiskChopper, extract_chopper_from_nexus=extract_chopper_from_nexus,
                              filtering=filtering, KB=KB, KT=KT, GB=GB, GT=GT, cif=cif, save_xye=save_xye, sqw=sqw, CC=CC,
                              metadata=metadata, Atom=Atom, ctx=ctx)
    origin = {'v': 'value_grid'}
    mm = make_monitor(ctx, origin)
    tr = Tracer()
    part, nparts = shard.get('part', 0), shard.get('nparts', 1)
    slow = []
    try:
        with tr:
            for rep in range(shard['reps']):
                for k, (entry, facet, build) in enumerate(VALUE_CASES if cases is None else cases):
                    if k % nparts != part:
                        continue
                    reached = False
                    t_case = time.time()
                    lays = [i for i, x in enumerate(LAYOUTS) if not getattr(build, 'layouts', None) or x in build.layouts]
                    second_li = lays[k % len(lays)]  # the layout in which the call is made a second time
                    if not getattr(build, 'second', True):  # (the two longest heavy cases are run once)
                        second_li = None
                    for li, layout in enumerate(LAYOUTS):
                        if getattr(build, 'layouts', None) and layout not in build.layouts:
                            continue
                        rng = np.random.Generator(np.random.PCG64([shard['seed'], 9009, rep, k, li]))
                        owned = []  # [object, fingerprint when the caller made it]

                        def A(obj, layout=layout, owned=owned):
                            arg, owner = _lay(layout, obj)
                            owned.append((arg, fp(arg)))
                            if owner is not None:
                                owned.append((owner, fp(owner)))
                            return arg

                        def O(obj, owned=owned):  # noqa: E743
                            owned.append((obj, fp(obj)))
                            return obj

                        label = f'{entry}[{facet},{layout}]'
                        j0 = mm.judged
                        try:
                            # the preparation of a case uses the package, too (constructors, a fit to get results)
                            thunk = build(P, A, O, rng)
                        except Exception as e:  # noqa: BLE001
                            ctx.count(f'noncanon case not built: {entry}:{facet}: {type(e).__name__}')
                            thunk = None
                        j1 = mm.judged
                        # FIRST use, then the very same call with the very same objects once more (SECOND use: whatever
                        # the first call left behind -- caches, half-done work of a call that raised -- is in place now)
                        raised = False
                        for use in (('first', 'second') if li == second_li else ('first',)):
                            if thunk is not None:
                                origin['v'] = 'value_grid' if use == 'first' else 'value_grid (second use of the same objects)'
                                try:
                                    thunk()
                                except _Verdict as v:
                                    ctx.violation(v.kind, v.what, {'label': label, 'workload': 'value_grid', 'use': use}, **v.keys)
                                except Exception as e:  # noqa: BLE001  (raising is allowed; writing while raising is not)
                                    if use == 'first':
                                        ctx.count(f'noncanon case raised: {entry}:{facet}: {type(e).__name__}')
                                    raised = True
                            changed = [o for o, was in owned if fp(o) != was]
                            if changed:
                                ctx.violation('owner_buffer_modified',
                                              f'{label}: {len(changed)} caller-owned object(s) handed to the call (an '
                                              'argument, or the buffer an argument is a slice of) changed'
                                              + (' in the second use of the same objects' if use == 'second' else ''),
                                              {'label': label, 'workload': 'value_grid', 'use': use,
                                               'changed': [describe(o) for o in changed[:3]]},
                                              function=entry)
                                break
                            if thunk is None:
                                break
                            if use == 'second':
                                ctx.event('second_use_case')
                                ctx.hit('second-use:after-a-call-that-raised' if raised else 'second-use:after-a-call-that-returned')
                        origin['v'] = 'value_grid'
                        ctx.event('noncanon_case')
                        ctx.case(('noncanon', entry, facet, layout), n=max(1, mm.judged - j0))
                        if thunk is not None and mm.judged > j1:
                            reached = True
                            ctx.hit('noncanon-layout:' + layout)
                    if reached:
                        ctx.hit(f'noncanon:{entry}:{facet}')
                    slow.append((round(time.time() - t_case, 2), f'{entry}:{facet}'))
            if part == 0 and cases is None:
                fingerprint_probe(ctx, P)
        for qn in mm.reached:
            ctx.classes.add('reached:' + qn)
        ctx.event('mutation_monitor.judged_calls', mm.judged)
        ctx.event('mutation_monitor.observed_calls', mm.events)
        ctx.extra['functions_armed'] = len(mm.functions)
        ctx.extra['value_grid_cases'] = len(VALUE_CASES)
        ctx.extra[f'slowest_cases:{shard["kind"]}:{part}'] = sorted(slow, reverse=True)[:12]
    finally:
        mm.uninstall()


def fingerprint_probe(ctx, P):
    """Every verdict of oracle A rests on fp() seeing a change of a caller-owned object.  For every kind of object the
    workloads hand over -- scipp objects written through their numpy views, slots dataclasses, pydantic models,
    mapping stand-ins, plain namespaces -- one field of a private object is changed the way an in-place write would
    change it, and the fingerprint must differ.  A blind spot makes the run inconclusive, never silent."""
    import collections
    import types

    def var():
        return sc.array(dims=['x'], values=[1.0, 2.0, 3.0], variances=[0.5, -1e-9, 0.0], unit='m')

    def da():
        return sc.DataArray(var(), coords={'x': sc.arange('x', 3.0, unit='s')},
                            masks={'m': sc.array(dims=['x'], values=[False, True, False])})

    def binned():
        table = sc.DataArray(sc.array(dims=['event'], values=[1.0, 2.0, 3.0], variances=[1.0, -1.0, 0.0]),
                             coords={'tof': sc.arange('event', 3.0, unit='us')},
                             masks={'em': sc.array(dims=['event'], values=[False, False, True])})
        return sc.DataArray(sc.bins(begin=sc.array(dims=['x'], values=[0, 1], unit=None), dim='event', data=table))

    def setitem(view, i, v):
        view[i] = v

    class Sub(P.peaks.FitParameters):
        def __init__(self, note, **kw):
            super().__init__(**kw)
            self.note = note

    M = P.peaks.model
    probes = [
        ('Variable.values view', var, lambda o: setitem(o.values, 1, 7.0)),
        ('Variable.variances view: negative -> 0', var, lambda o: setitem(o.variances, 1, 0.0)),
        ('Variable.variances view: 0.0 -> -0.0', var, lambda o: setitem(o.variances, 2, -0.0)),
        ('DataArray.variances view', da, lambda o: setitem(o.variances, 1, 0.0)),
        ('DataArray mask flipped', da, lambda o: setitem(o.masks['m'].values, 0, True)),
        ('DataArray mask added', da, lambda o: o.masks.__setitem__('n', sc.array(dims=['x'], values=[False] * 3))),
        ('DataArray name', da, lambda o: setattr(o, 'name', 'intensity_norm')),
        ('DataArray coord view', da, lambda o: setitem(o.coords['x'].values, 0, 9.0)),
        ('binned event weight variance', binned, lambda o: setitem(o.bins.constituents['data'].variances, 1, 0.0)),
        ('binned event mask', binned, lambda o: setitem(o.bins.constituents['data'].masks['em'].values, 0, True)),
        ('0-d element of a buffer', lambda: sc.concat([sc.scalar(1.0, unit='m')] * 3, 'b'), lambda o: o['b', 1].__imul__(2.0)),
        ('FitParameters (slots dataclass)', lambda: P.peaks.FitParameters(neighbor_separation_factor=-0.5),
         lambda o: setattr(o, 'neighbor_separation_factor', 0.0)),
        ('FitParameters -0.0 -> 0.0', lambda: P.peaks.FitParameters(neighbor_separation_factor=-0.0),
         lambda o: setattr(o, 'neighbor_separation_factor', 0.0)),
        ('FitParameters np.float64 -> float', lambda: P.peaks.FitParameters(neighbor_separation_factor=np.float64(0.5)),
         lambda o: setattr(o, 'neighbor_separation_factor', 0.5)),
        ('FitRequirements (slots dataclass)', lambda: P.peaks.FitRequirements(), lambda o: setattr(o, 'min_p_value', 0.5)),
        ('FitParameters subclass: slot', lambda: Sub('n', neighbor_separation_factor=2.0), lambda o: setattr(o, 'neighbor_separation_factor', 1.0)),
        ('FitParameters subclass: __dict__', lambda: Sub('n'), lambda o: setattr(o, 'note', 'm')),
        ('SimpleNamespace stand-in', lambda: types.SimpleNamespace(a=1.5), lambda o: setattr(o, 'a', 1.0)),
        ('UserDict stand-in', lambda: collections.UserDict({'a': 1}), lambda o: o.__setitem__('a', 2)),
        ('Person (pydantic)', lambda: P.metadata.Person(name='J', role=None), lambda o: setattr(o, 'role', 'x')),
        ('Person (pydantic) via __dict__', lambda: P.metadata.Person(name='J'), lambda o: o.__dict__.__setitem__('name', 'K')),
        ('Beamline (pydantic)', lambda: P.metadata.Beamline(name='D'), lambda o: setattr(o, 'site', 'x')),
        ('Source (pydantic)', lambda: P.metadata.ESS_SOURCE.model_copy(), lambda o: setattr(o, 'name', 'x')),
        ('Software (pydantic)', lambda: P.metadata.Software(name='a', version='1'), lambda o: setattr(o, 'version', '2')),
        ('Cylinder field in place', lambda: P.Cylinder(symmetry_line=_vec([0, 1.0, 0], 'one'), center_of_base=_vec([0, 0, 0], 'cm'),
                                                       radius=_s(1.0, 'cm'), height=_s(1.0, 'cm')), lambda o: o.radius.__imul__(2.0)),
        ('Material field rebound', lambda: P.Material(scattering_params=P.ScatteringParams.for_isotope('V'),
                                                      effective_sample_number_density=_s(0.07, '1/angstrom^3')),
         lambda o: object.__setattr__(o, 'effective_sample_number_density', _s(1.0, '1/angstrom^3'))),
        ('ScatteringParams field rebound', lambda: P.ScatteringParams(isotope='mine', absorption_cross_section=_s(1.0, 'barn')),
         lambda o: object.__setattr__(o, 'absorption_cross_section', _s(2.0, 'barn'))),
        ('cif.Chunk comment', lambda: P.cif.Chunk({'a.b': 1}), lambda o: setattr(o, 'comment', 'x')),
        ('cif.Loop column', lambda: P.cif.Loop({'l.x': sc.arange('i', 3.0)}), lambda o: o.__setitem__('l.y', sc.arange('i', 3.0))),
        ('cif.Block content', lambda: P.cif.Block('b'), lambda o: o.add({'x.y': 1})),
        ('cif.CIF comment', lambda: P.cif.CIF('n'), lambda o: setattr(o, 'comment', 'zz')),
        ('cif.CIFSchema (frozen dataclass)', lambda: P.cif.CIFSchema(name='a', version='1', location='l'),
         lambda o: object.__setattr__(o, 'name', 'b')),
        ('SqwIXSample', lambda: P.sqw.SqwIXSample(name='s', lattice_spacing=_vec([2.0, 3.0, 4.0], 'angstrom'),
                                                  lattice_angle=_vec([90.0, 90.0, 120.0], 'deg')),
         lambda o: o.lattice_angle.__imul__(2.0)),
        ('SqwIXSource nested in SqwIXNullInstrument',
         lambda: P.sqw.SqwIXNullInstrument(name='i', source=P.sqw.SqwIXSource(name='s', target_name='t', frequency=_s(14.0, 'Hz'))),
         lambda o: setattr(o.source, 'name', 'x')),
        ('DiskChopper field in place', lambda: P.DiskChopper(
            axle_position=_vec([0, 0, 8.0]), frequency=_s(14.0, 'Hz'), beam_position=_s(0.0, 'rad'), phase=_s(0.5, 'rad'),
            slit_begin=_arr([0.0], 'rad', dim='slit'), slit_end=_arr([1.0], 'rad', dim='slit')), lambda o: o.phase.__imul__(2.0)),
        ('cascade Chopper field rebound', lambda: P.CC.Chopper(distance=_s(8.0, 'm'), time_open=_arr([1.0], 's', dim='cutout'),
                                                              time_close=_arr([2.0], 's', dim='cutout')),
         lambda o: object.__setattr__(o, 'distance', _s(9.0, 'm'))),
        ('Frame subframe list', lambda: P.CC.Frame(distance=_s(0.0, 'm'), subframes=[]), lambda o: o.subframes.append('x')),
        ('Model prefix', lambda: M.GaussianModel(prefix='a_'), lambda o: setattr(o, '_prefix', 'b_')),
        ('CompositeModel part', lambda: M.GaussianModel(prefix='a_') + M.PolynomialModel(degree=1, prefix='p_'),
         lambda o: o._param_names.add('x')),
        ('list element identity kept, content changed', lambda: [P.peaks.FitParameters()], lambda o: setattr(o[0], 'guess_background_fraction', 0.1)),
    ]
    for name, make, change in probes:
        try:
            obj = make()
            before = fp(obj)
            change(obj)
            after = fp(obj)
        except Exception as e:  # noqa: BLE001  (the object cannot be changed that way: nothing to be blind to)
            ctx.count(f'fingerprint probe not applicable: {name}: {type(e).__name__}')
            continue
        ctx.event('fingerprint_probe')
        if before == after:
            ctx.inconclusive_because(f'rv.snap.fp is blind to a change of: {name} (a mutation of such an argument would go unnoticed)')


# =============================================================== oracle B ===
SENTINEL = object()


def _sentinel_fn(**kw):
    return None


def _display(obj):
    """Look at a result, copy it, pickle it, compare it -- nothing of which is meant to change anything."""
    import copy
    import pickle

    if isinstance(obj, _Frozen):
        obj = obj.obj
    n = 0
    for op in (repr, str, lambda o: getattr(o, '_repr_html_', lambda: None)(), copy.copy, copy.deepcopy,
               lambda o: pickle.loads(pickle.dumps(o)), lambda o: o == o, lambda o: o == copy.deepcopy(o), lambda o: o != 'x',
               lambda o: hash(o), lambda o: sorted(o) if isinstance(o, dict | set) else None,
               lambda o: [getattr(o, a, None) for a in dir(o) if not a.startswith('_')
                          and isinstance(getattr(type(o), a, None), property)]):
        try:
            op(obj)
            n += 1
        except Exception:  # noqa: BLE001  (unhashable, unpicklable, incomparable: not a matter of this property)
            pass
    return n


def mutate(obj, depth=0):
    """Do to a returned object what a caller can do through its public surface. Returns #mutations."""
    n = 0
    if depth > 3 or obj is None or isinstance(obj, _Frozen):
        return 0
    if isinstance(obj, sc.Variable):
        try:
            if obj.dtype in (sc.DType.float64, sc.DType.float32, sc.DType.int64, sc.DType.int32):
                obj *= 2
                obj += 1
                if obj.dtype in (sc.DType.float64, sc.DType.float32) and not np.all(np.isfinite(obj.values)):
                    # (arithmetic leaves NaN / inf as they are: a caller replaces such entries by assignment)
                    obj.values = np.where(np.isfinite(obj.values), obj.values, 12345.0)
                return 1
        except Exception:  # noqa: BLE001  (read-only: fine)
            return 0
        return 0
    if isinstance(obj, dict):
        keys = list(obj.keys())
        try:
            if keys:
                for k in keys[:2]:
                    n += mutate(obj[k], depth + 1)
                obj[keys[0]] = _sentinel_fn
                del obj[keys[-1]]
                n += 2
            obj['__injected__'] = _sentinel_fn
            n += 1
        except Exception:  # noqa: BLE001
            pass
        return n
    if isinstance(obj, list):
        for x in obj[:2]:
            n += mutate(x, depth + 1)
        try:
            obj.append(obj[0] if obj else 'injected')
            if len(obj) > 1:
                del obj[0]
            n += 1
        except Exception:  # noqa: BLE001
            pass
        return n
    if isinstance(obj, set):
        obj.add('__injected__')
        if len(obj) > 1:
            obj.pop()
        return 1
    if isinstance(obj, tuple | str | int | float | frozenset):
        return 0
    # objects: public attributes, properties and dataclass fields
    names = [a for a in dir(obj) if not a.startswith('_')]
    for a in names:
        try:
            v = getattr(obj, a)
        except Exception:  # noqa: BLE001
            continue
        if callable(v) and not isinstance(v, sc.Variable):
            continue
        if isinstance(v, sc.Variable | dict | list | set):
            n += mutate(v, depth + 1)
        elif isinstance(v, str) and a in ('name', 'comment'):
            try:
                setattr(obj, a, v + 'X')
                n += 1
            except Exception:  # noqa: BLE001
                pass
    add = getattr(obj, 'add', None)
    if callable(add) and type(obj).__name__ == 'Block':
        try:
            add({'injected.tag': 'v'})
            n += 1
        except Exception:  # noqa: BLE001
            pass
    return n


def family_graphs():
    import scippneutron as scn
    from scippneutron.conversion.graph import beamline as GB
    from scippneutron.conversion.graph import tof as GT
    from scippneutron.core import conversions as CV

    da = sc.DataArray(sc.ones(dims=['x'], shape=[2]), coords={'tof': sc.arange('x', 1.0, 3.0, unit='us')})
    F = {}
    for s in ('tof', 'wavelength', 'energy', 'Q'):
        F[f'elastic({s})'] = lambda s=s: GT.elastic(s)
    F['kinematic(tof)'] = lambda: GT.kinematic('tof')
    for s in ('tof', 'wavelength', 'energy'):
        F[f'elastic_dspacing({s})'] = lambda s=s: GT.elastic_dspacing(s)
    for s in ('tof', 'wavelength'):
        F[f'elastic_energy({s})'] = lambda s=s: GT.elastic_energy(s)
        F[f'elastic_Q({s})'] = lambda s=s: GT.elastic_Q(s)
        F[f'elastic_Q_vec({s})'] = lambda s=s: GT.elastic_Q_vec(s)
        F[f'elastic_hkl({s})'] = lambda s=s: GT.elastic_hkl(s)
    for s in ('tof', 'energy', 'Q'):
        F[f'elastic_wavelength({s})'] = lambda s=s: GT.elastic_wavelength(s)
    F['direct_inelastic(tof)'] = lambda: GT.direct_inelastic('tof')
    F['indirect_inelastic(tof)'] = lambda: GT.indirect_inelastic('tof')
    for sflag in (True, False):
        F[f'beamline({sflag})'] = lambda sflag=sflag: GB.beamline(scatter=sflag)
        F[f'Ltotal({sflag})'] = lambda sflag=sflag: GB.Ltotal(scatter=sflag)
    for nm in ('incident_beam', 'scattered_beam', 'two_theta', 'L1', 'L2'):
        F[f'graph.{nm}()'] = lambda nm=nm: getattr(GB, nm)()
    F['conversion_graph(tof,dspacing,True,elastic)'] = lambda: CV.conversion_graph('tof', 'dspacing', True, 'elastic')
    F['conversion_graph(tof,L1,True,elastic)'] = lambda: CV.conversion_graph('tof', 'L1', True, 'elastic')
    F['conversion_graph(tof,wavelength,False,elastic)'] = lambda: CV.conversion_graph('tof', 'wavelength', False, 'elastic')
    F['conversion_graph(tof,energy_transfer,True,direct)'] = lambda: CV.conversion_graph('tof', 'energy_transfer', True, 'direct_inelastic')
    F['deduce_conversion_graph(da,tof,Q,True)'] = lambda: scn.deduce_conversion_graph(da, 'tof', 'Q', True)
    return F, fp


def family_atoms():
    from scippneutron.atoms import Atom, ScatteringParams, reference_wavelength

    F = {}
    for name in ('H', '2H', 'V', '50V', 'Si'):
        F[f'Atom.for_isotope({name})'] = lambda name=name: Atom.for_isotope(name)
        F[f'ScatteringParams.for_isotope({name})'] = lambda name=name: ScatteringParams.for_isotope(name)
    F['reference_wavelength()'] = reference_wavelength

    def view(o):
        # observable state: every public field / property value
        out = {}
        for a in dir(o):
            if a.startswith('_'):
                continue
            try:
                v = getattr(o, a)
            except Exception as e:  # noqa: BLE001
                v = ('raises', type(e).__name__)
            if callable(v) and not isinstance(v, sc.Variable):
                continue
            out[a] = v
        return fp(out) if not isinstance(o, sc.Variable) else fp(o)
    return F, view


def family_models():
    from scippneutron.peaks import model as M

    g = M.GaussianModel(prefix='a_')
    p = M.PolynomialModel(degree=2, prefix='b_')
    lz = M.LorentzianModel(prefix='a_l_')
    c = g + p
    x = sc.linspace('x', -1.0, 1.0, 7, unit='one')

    def params(m):
        out = {}
        for nme in sorted(m.param_names):
            base = nme.split('_')[-1]
            if base in ('loc', 'scale'):
                out[nme] = sc.scalar(0.3)
            elif base.startswith('a') and base[1:].isdigit():
                out[nme] = sc.scalar(0.5)
            elif base == 'fraction':
                out[nme] = sc.scalar(0.4)
            else:
                out[nme] = sc.scalar(2.0)
        return out

    def view(o):
        if isinstance(o, M.Model):
            return fp((type(o).__name__, o.prefix, sorted(o.param_names), sorted(o.param_bounds.items()),
                       o(x, **params(o))))
        return fp(sorted(o) if isinstance(o, set) else o)

    F = {
        'g.with_prefix(x_)': lambda: g.with_prefix('x_'),
        'c.with_prefix(y_)': lambda: c.with_prefix('y_'),
        'p.with_prefix()': lambda: p.with_prefix(''),
        'g + p': lambda: g + p,
        'c + lz': lambda: c + lz,
        'g.param_names': lambda: g.param_names,
        'c.param_names': lambda: c.param_names,
        'g.param_bounds': lambda: g.param_bounds,
        'c.param_bounds': lambda: c.param_bounds,
        'lz.param_bounds': lambda: lz.param_bounds,
    }
    return F, view


def family_cif():
    from scippneutron.io import cif
    from scippneutron.metadata import Beamline, Person

    rng = np.random.Generator(np.random.PCG64(5))
    da = sc.DataArray(sc.array(dims=['tof'], values=rng.random(4), variances=rng.random(4) * 0.01),
                      coords={'tof': sc.arange('tof', 4.0, unit='us')})
    person = Person(name='Jane Doe', email='jane@example.com', corresponding=True)
    bl = Beamline(name='DREAM', facility='ESS')
    base = cif.CIF('base', comment='c').with_reducers('prog v1').with_reduced_powder_data(da)
    block = cif.Block('blk', [{'audit.creation_method': 'x'}, cif.Loop({'a.b': sc.arange('i', 3.0, unit='m')})],
                      comment='hello')

    def view(o):
        buf = io.StringIO()
        if isinstance(o, cif.CIF):
            o.save(buf)
        else:
            cif.save_cif(buf, o)
        text = buf.getvalue()
        # the audit block records the current date: drop that line
        return fp([ln for ln in text.splitlines() if 'audit.creation_date' not in ln])

    F = {
        'base.copy()': lambda: base.copy(),
        'base.with_reducers': lambda: base.with_reducers('other'),
        'base.with_authors': lambda: base.with_authors(person),
        'base.with_beamline': lambda: base.with_beamline(bl),
        'base.with_reduced_powder_data': lambda: base.with_reduced_powder_data(da, comment='again'),
        'base.with_powder_calibration': lambda: base.with_powder_calibration(
            sc.DataArray(sc.array(dims=['cal'], values=[1.0, 2.0]), coords={'power': sc.array(dims=['cal'], values=[0, 1])})),
        'block.copy()': lambda: block.copy(),
    }
    return F, view


def family_frames():
    """Frames computed from a frame sequence (lookups by distance, propagation, chopping): every call
    computes a new frame; what a caller does to it must not reach the sequence or later lookups.
    (Index access ``seq[i]`` and the frame lists of derived sequences hand out the stored frames by
    design and are not part of this family.)"""
    from scippneutron.tof import chopper_cascade as CC

    def m(x):
        return sc.scalar(float(x), unit='m')

    def chopper(d, t0=0.0):
        return CC.Chopper(distance=m(d), time_open=sc.array(dims=['cutout'], values=[t0, t0 + 0.02], unit='s'),
                          time_close=sc.array(dims=['cutout'], values=[t0 + 0.01, t0 + 0.03], unit='s'))

    src = CC.FrameSequence.from_source_pulse(
        time_min=sc.scalar(0.0, unit='s'), time_max=sc.scalar(0.003, unit='s'),
        wavelength_min=sc.scalar(0.5, unit='angstrom'), wavelength_max=sc.scalar(12.0, unit='angstrom'))
    seq = src.chop([chopper(8.0, 0.004), chopper(15.0, 0.01)]).propagate_to(m(30.0))
    F = {
        'seq[source distance]': lambda: seq[m(0.0)],
        'seq[first chopper distance]': lambda: seq[m(8.0)],
        'seq[second chopper distance]': lambda: seq[m(15.0)],
        'seq[last distance]': lambda: seq[m(30.0)],
        'seq[last distance in mm]': lambda: seq[sc.scalar(30000.0, unit='mm')],
        'seq[between]': lambda: seq[m(11.0)],
        'seq[beyond]': lambda: seq[m(45.0)],
        'frame.propagate_to(own distance)': lambda: seq.frames[1].propagate_to(m(8.0)),
        'frame.propagate_to(further)': lambda: seq.frames[1].propagate_to(m(9.5)),
        'frame.chop(at own distance)': lambda: seq.frames[2].chop(chopper(15.0, 0.012)),
        'frame.chop(further)': lambda: seq.frames[2].chop(chopper(20.0, 0.02)),
        'seq.propagate_to(last distance)[-1]': lambda: seq.propagate_to(m(30.0)).frames[-1],
        'seq.propagate_to(further)[-1]': lambda: seq.propagate_to(m(40.0)).frames[-1],
        'seq.chop([at last distance])[-1]': lambda: seq.chop([chopper(30.0, 0.03)]).frames[-1],
        'frame.bounds()': lambda: seq.frames[2].bounds(),
        'frame.subbounds()': lambda: seq.frames[2].subbounds(),
        'seq (stored frames)': lambda: _Frozen(seq),
    }
    def rebind(obj, depth=0):
        """What a caller does to a frame it was given: reassign its fields and edit its lists.  The vertex
        arrays themselves are left alone: a propagated subframe shares its wavelength array with the
        subframe it was computed from (Subframe.propagate_by), by design."""
        n = 0
        if isinstance(obj, CC.Frame):
            for sub in obj.subframes[:2]:
                n += rebind(sub)
            obj.distance = obj.distance * 2.0
            if obj.subframes:
                del obj.subframes[0]
            obj.subframes.append(CC.Subframe(time=sc.array(dims=['vertex'], values=[0.0, 1.0, 1.0], unit='s'),
                                             wavelength=sc.array(dims=['vertex'], values=[1.0, 1.0, 2.0],
                                                                 unit='angstrom')))
            return n + 3
        if isinstance(obj, CC.Subframe):
            obj.time = obj.time * 2.0
            obj.wavelength = obj.wavelength + sc.scalar(1.0, unit='angstrom')
            return 2
        if isinstance(obj, sc.DataGroup):
            for k in list(obj.keys()):
                obj[k] = obj[k] * 2.0
                n += 1
            return n
        return 0

    return F, (lambda o: fp(o.obj) if isinstance(o, _Frozen) else fp(o)), rebind


class _Frozen:
    """A view-only entry of a history family: its value is fingerprinted but never handed to mutate()."""

    def __init__(self, obj):
        self.obj = obj


FAMILIES = {'graphs': family_graphs, 'atoms': family_atoms, 'models': family_models, 'cif': family_cif,
            'frames': family_frames}


def history(ctx, shard):
    fam = shard['family']
    made = FAMILIES[fam]()
    F, view = made[:2]
    mutate_result = made[2] if len(made) > 2 else mutate
    names = list(F)
    pristine = {}
    for nme in names:
        try:
            pristine[nme] = view(F[nme]())
        except Exception as e:  # noqa: BLE001
            ctx.count(f'factory unusable: {nme}: {type(e).__name__}')
            pristine[nme] = None
    names = [nme for nme in names if pristine[nme] is not None]
    # 'display' = what happens to a result between two computational calls without anybody meaning to change
    # anything: repr / str / copy / deepcopy / pickle / == (objects with lazily filled caches, __eq__ that normalises ...)
    alphabet = [('call', nme) for nme in names] + [('mutate', k) for k in range(2)] + [('display', k) for k in range(2)]
    maxlen = shard['maxlen']
    first = shard.get('first')  # shard over the first symbol
    total = 0
    poisoned_by = None
    for L in range(1, maxlen + 1):
        for seq in itertools.product(range(len(alphabet)), repeat=L):
            if first is not None and seq[0] % shard['nfirst'] != first:
                continue
            # a mutate symbol needs an earlier result to act on
            results = []
            valid = True
            nmut = 0
            ndisp = 0
            for s in seq:
                kind, arg = alphabet[s]
                if kind == 'display':
                    if arg >= len(results):
                        valid = False
                        break
                    ndisp += _display(results[arg])
                elif kind == 'call':
                    try:
                        results.append(F[arg]())
                    except Exception as e:  # noqa: BLE001
                        ctx.violation('factory_raised', f'{arg} raised {type(e).__name__} after history: {e}',
                                      {'family': fam, 'sequence': [alphabet[i] for i in seq]}, factory=arg)
                        valid = False
                        break
                else:
                    if arg >= len(results):
                        valid = False
                        break
                    nmut += mutate_result(results[arg])
            if not valid:
                continue
            total += 1
            bad = []
            for nme in names:
                try:
                    now = view(F[nme]())
                except Exception as e:  # noqa: BLE001
                    now = ('raises', type(e).__name__)
                if now != pristine[nme]:
                    bad.append(nme)
            ctx.event('history_sequence')
            if nmut:
                ctx.event('history_sequence_with_mutation')
            if ndisp:
                ctx.event('history_sequence_with_display')
            ctx.case((fam, seq))
            if total <= 2:
                ctx.sample({'family': fam, 'sequence': [list(alphabet[i]) for i in seq], 'mutations_applied': nmut})
            if bad:
                readable = [list(alphabet[i]) for i in seq]
                for nme in bad[:3]:
                    ctx.violation('history_dependence',
                                  f'{nme} no longer returns its pristine value after the history {readable}',
                                  {'family': fam, 'sequence': readable, 'affected': bad, 'mutations_applied': nmut},
                                  family=fam, factory=nme.split('(')[0], needs_mutation=bool(nmut))
                # the shared state is poisoned for the rest of this process: stop this family here
                poisoned_by = readable
                break
        if poisoned_by:
            break
    ctx.extra[f'history_{fam}' + (f'_part{first}' if first is not None else '')] = {'factories': names, 'alphabet': len(alphabet), 'sequences': total,
                                   'max_length': maxlen, 'stopped_after_poisoning': poisoned_by}
    ctx.extra['exhaustive_subspace'] = ('oracle B only: all call/mutate histories up to the stated max_length per '
                                        'family (see history_* entries); oracle A is sampled')


# ================================================================ pytest ===
def pytest_shard(ctx, shard):
    """Repository tests with the mutation monitor armed (thorough tier)."""
    out = tempfile.mkdtemp(prefix='rv-c09-pytest-')
    env = dict(os.environ, RV_MUTMON_OUT=out)
    here = os.path.dirname(os.path.dirname(os.path.dirname(os.path.abspath(__file__))))
    repo = os.path.dirname(os.environ.get('RV_REPO_SRC', '/repo/src'))
    cmd = [sys.executable, '-m', 'pytest', '-q', '-p', 'no:cacheprovider', '-p', 'rv.pytest_monitor',
           '--continue-on-collection-errors', '-x' if False else '-q', *shard['paths']]
    try:
        p = subprocess.run(cmd, cwd=repo, env=env, capture_output=True, text=True, timeout=3000)
        tail = (p.stdout or '')[-300:]
        ctx.extra.setdefault('pytest_tail', []).append(tail.strip().splitlines()[-1] if tail.strip() else '')
        for f in glob.glob(os.path.join(out, '*.json')):
            with open(f) as fh:
                rep = json.load(fh)
            ctx.event('mutation_monitor.judged_calls', rep['judged'])
            ctx.event('mutation_monitor.observed_calls', rep['events'])
            ctx.event('pytest_tests', rep.get('tests', 0))
            for qn in rep['reached']:
                ctx.classes.add('reached:' + qn)
            for r in rep['reports']:
                ctx.violation('argument_mutated', r['what'], dict(r['case'], workload='pytest:' + ' '.join(shard['paths'])),
                              **r['keys'])
            ctx.case(('pytest', tuple(shard['paths'])), n=max(1, rep['judged']))
    except subprocess.TimeoutExpired:
        ctx.inconclusive_because('pytest under the mutation monitor hit the watchdog')
    finally:
        import shutil
        shutil.rmtree(out, ignore_errors=True)


# ============================================================ (o) fresh interpreter ===
# The empty history: the first call in a new interpreter that has imported ONLY the module of the entry point (plus
# scipp / numpy to build the operands) must give, bit for bit, what the same call gives in this worker process, which
# has every module loaded and thousands of calls behind it.
_FRESH_SER = r"""
import dataclasses, json, sys
import numpy as np
import scipp as sc
def ser(o, depth=0):
    if isinstance(o, sc.Variable):
        var = None if o.variances is None else np.ascontiguousarray(o.variances).tobytes().hex()
        return ['V', list(o.dims), list(o.shape), str(o.unit), str(o.dtype), np.ascontiguousarray(o.values).tobytes().hex(), var]
    if isinstance(o, sc.DataArray):
        return ['DA', ser(o.data), {k: ser(v) for k, v in o.coords.items()}, {k: ser(v) for k, v in o.masks.items()}]
    if isinstance(o, dict):
        return ['D', sorted([[str(k), ser(v, depth + 1)] for k, v in o.items()])]
    if isinstance(o, (list, tuple)):
        return ['L', [ser(v, depth + 1) for v in o]]
    if isinstance(o, (set, frozenset)):
        return ['S', sorted(map(str, o))]
    if isinstance(o, float):
        return ['f', o.hex()]
    if o is None or isinstance(o, (bool, int, str)):
        return ['p', repr(o)]
    if callable(o):
        return ['F', getattr(o, '__qualname__', type(o).__name__)]
    if dataclasses.is_dataclass(o) and depth < 4:
        return ['DC', type(o).__name__, [[f.name, ser(getattr(o, f.name, None), depth + 1)] for f in dataclasses.fields(o)]]
    if isinstance(o, np.generic):
        return ['NG', str(o.dtype), o.tobytes().hex()]
    d = getattr(o, '__dict__', None)
    if d and depth < 4:
        return ['O', type(o).__name__, sorted([[k, ser(v, depth + 1)] for k, v in d.items()])]
    return ['R', type(o).__name__]
def v(values, unit, dim='x', dtype='float64'):
    return sc.array(dims=[dim], values=values, unit=unit, dtype=dtype)
def s(value, unit):
    return sc.scalar(float(value), unit=unit)
def vec(xyz, unit='m'):
    return sc.vector(xyz, unit=unit)
def vecs(rows, unit='m'):
    return sc.vectors(dims=['x'], values=rows, unit=unit)
def spectrum():
    x = np.linspace(0.0, 10.0, 120)
    y = 5 * np.exp(-((x - 4.0) / 0.3) ** 2) + 1.0 + 0.05 * np.sin(37.0 * x)
    da = sc.DataArray(sc.array(dims=['x'], values=y, variances=np.full(120, 0.05 ** 2)), coords={'x': sc.array(dims=['x'], values=x, unit='angstrom')})
    return da
"""
FRESH_CALLS = [  # (label, the module of the entry point, the call)
    ('atoms.for_isotope', 'scippneutron.atoms',
     "[m.Atom.for_isotope('V'), m.ScatteringParams.for_isotope('H'), m.Atom.for_isotope('Si').atomic_weight, m.reference_wavelength()]"),
    ('conversion.graph.tof.elastic', 'scippneutron.conversion.graph.tof',
     "[m.elastic('tof'), m.elastic_wavelength('tof'), m.elastic_dspacing('wavelength'), m.direct_inelastic('tof')]"),
    ('conversion.graph.beamline.beamline', 'scippneutron.conversion.graph.beamline', "[m.beamline(scatter=True), m.beamline(scatter=False)]"),
    ('conversion.tof kernels', 'scippneutron.conversion.tof',
     "[m.wavelength_from_tof(tof=v([1e3, 2e3], 'us'), Ltotal=s(10, 'm')), m.energy_from_tof(tof=v([1e3, 2e3], 'us'), Ltotal=s(10, 'm')), "
     "m.dspacing_from_energy(energy=v([10.0, 20.0], 'meV'), two_theta=s(1.0, 'rad')), "
     "m.energy_transfer_direct_from_tof(tof=v([2e4, 3e4], 'us'), L1=s(10, 'm'), L2=s(2, 'm'), incident_energy=s(15, 'meV')), "
     "m.Q_from_wavelength(wavelength=v([1.0, 2.0], 'angstrom', dtype='float32'), two_theta=s(1.0, 'rad'))]"),
    ('conversion.beamline kernels', 'scippneutron.conversion.beamline',
     "[m.two_theta(incident_beam=vec([0, 0, 25.0]), scattered_beam=vecs([[0.1, 0.2, 4.0], [1.0, -0.5, 3.0]])), "
     "m.scattering_angles_with_gravity(incident_beam=vec([0, 0, 25.0]), scattered_beam=vecs([[0.1, 0.2, 4.0], [1.0, -0.5, 3.0]]), "
     "wavelength=v([1.0, 6.0], 'angstrom'), gravity=vec([0, -9.80665, 0], 'm/s^2')), m.beam_aligned_unit_vectors(incident_beam=vec([0.2, 0, 25.0]), gravity=vec([0, -9.80665, 0], 'm/s^2'))]"),
    ('peaks.model', 'scippneutron.peaks.model',
     "[(m.PolynomialModel(degree=1, prefix='b_') + m.GaussianModel(prefix='p_'))(v([1.0, 1.5, 2.0], 'angstrom'), b_a0=s(1, 'one'), b_a1=s(0.5, '1/angstrom'), "
     "p_amplitude=s(10, 'angstrom'), p_loc=s(1.5, 'angstrom'), p_scale=s(0.2, 'angstrom')), m.PseudoVoigtModel(prefix='').guess(spectrum()), m.LorentzianModel().param_bounds]"),
    ('peaks.fit_peaks', 'scippneutron.peaks',
     "[(r.popt, r.red_chisq, r.aic, r.message) for r in m.fit_peaks(spectrum(), peak_estimates=v([4.0], 'angstrom'), windows=s(2.0, 'angstrom'), background='linear', peak='gaussian')]"),
    ('absorption', 'scippneutron.absorption',
     "[(c := m.Cylinder(symmetry_line=vec([0, 1.0, 0], 'one'), center_of_base=vec([0, -0.5, 0], 'cm'), radius=s(0.5, 'cm'), height=s(1, 'cm'))).quadrature('cheap'), "
     "c.beam_intersection(vecs([[0.1, 0.0, 0.0]], 'cm'), vecs([[0.0, 0.0, 1.0]], 'one')), c.volume]"),
    ('chopper.DiskChopper', 'scippneutron.chopper.disk_chopper',
     "[(d := m.DiskChopper(axle_position=vec([0, 0, 8.0]), frequency=s(14, 'Hz'), beam_position=s(0, 'rad'), phase=s(0.5, 'rad'), "
     "slit_begin=v([0.0, 2.0], 'rad', 'slit'), slit_end=v([1.0, 3.0], 'rad', 'slit'))).time_offset_open(pulse_frequency=s(14, 'Hz')), d.open_duration(pulse_frequency=s(14, 'Hz'))]"),
    ('tof.chopper_cascade', 'scippneutron.tof.chopper_cascade',
     "[m.propagate_times(v([0.0, 1e-3], 's'), v([1.0, 5.0], 'angstrom'), s(10, 'm')), "
     "m.FrameSequence.from_source_pulse(time_min=s(0, 's'), time_max=s(3e-3, 's'), wavelength_min=s(1, 'angstrom'), wavelength_max=s(8, 'angstrom'))"
     ".chop([m.Chopper(distance=s(8, 'm'), time_open=v([5e-3], 's', 'cutout'), time_close=v([9e-3], 's', 'cutout'))])[s(12, 'm')].bounds()]"),
]


def fresh_shard(ctx, shard):
    env = dict(os.environ)
    procs = []
    control = subprocess.Popen([sys.executable, '-c', _FRESH_SER + "\nprint(json.dumps(ser([v([1.0], 'm'), {'a': 1.5}])))"],
                               stdout=subprocess.PIPE, stderr=subprocess.PIPE, text=True, env=env)
    for label, module, expr in FRESH_CALLS:
        script = f'import {module} as m\n' + _FRESH_SER + f'\nprint(json.dumps(ser({expr})))\n'
        procs.append(subprocess.Popen([sys.executable, '-c', script], stdout=subprocess.PIPE, stderr=subprocess.PIPE, text=True, env=env))
    ns = {}
    exec(_FRESH_SER, ns)  # noqa: S102  (the serialiser and the operand builders: the same text here and there)
    out, err = control.communicate(timeout=300)
    if control.returncode != 0 or json.loads(out) != json.loads(json.dumps(ns['ser']([ns['v']([1.0], 'm'), {'a': 1.5}]))):
        ctx.inconclusive_because('fresh-interpreter probe: the control subprocess (scipp and numpy only) failed: ' + err[-300:])
        for p in procs:
            p.kill()
        return
    for (label, module, expr), proc in zip(FRESH_CALLS, procs, strict=True):
        out, err = proc.communicate(timeout=600)
        m = importlib.import_module(module)
        here = []
        for _ in range(3):  # (in the worker: three times; the last two, which have a history behind them, are judged)
            try:
                here.append(json.loads(json.dumps(ns['ser'](eval(expr, dict(ns, m=m))))))  # noqa: S307
            except Exception as e:  # noqa: BLE001
                here.append(['raised', type(e).__name__])
        if proc.returncode == 0:
            try:
                there = json.loads(out.strip().splitlines()[-1])
            except Exception:  # noqa: BLE001
                ctx.oracle_error('fresh_shard: output of ' + label)
                continue
        else:
            last = (err.strip().splitlines() or ['?'])[-1]
            there = ['raised', last.split(':')[0].split('.')[-1]]
        if here[0][0] == 'raised':
            ctx.count(f'fresh-interpreter call raises in the worker: {label}: {here[0][1]}')
        ctx.event('fresh_interpreter_call')
        ctx.hit('fresh-interpreter:' + label)
        ctx.case(('fresh', label))
        here = here[1:]
        if here[0] != here[1]:
            ctx.violation('history_dependence', f'{label}: two identical calls in the worker process give different results',
                          {'label': label, 'call': expr, 'workload': 'fresh'}, family='fresh-interpreter', factory=label, needs_mutation=False)
        elif there != here[0]:
            ctx.violation('history_dependence',
                          f'{label}: the first call in a fresh interpreter that imported only {module} gives a result different from the same call in the worker process'
                          + (f' (the fresh interpreter raised: {err.strip().splitlines()[-1][:200]})' if proc.returncode != 0 and err.strip() else ''),
                          {'label': label, 'call': expr, 'workload': 'fresh', 'fresh': str(there)[:300], 'worker': str(here[0])[:300]},
                          family='fresh-interpreter', factory=label, needs_mutation=False)


# ================================================================ driver ===
def plan(tier, seed):
    shards = [{'kind': 'alias', 'reps': 1 if tier == 'quick' else 4}]  # (index 0: also run as the environment variants)
    # the longest shards first, so that they do not start when everything else is done
    order = sorted(REUSE, key=lambda m: m not in ('c17', 'c02', 'c13'))
    shards.append({'kind': 'reuse', 'module': order[0], 'n_sub': 1 if tier == 'quick' else 3})
    shards.append({'kind': 'heavy', 'reps': 1})
    shards.append({'kind': 'fresh'})
    for part in range(VALUE_PARTS):
        shards.append({'kind': 'values', 'reps': 1 if tier == 'quick' else 3, 'part': part, 'nparts': VALUE_PARTS})
    for m in order[1:]:
        shards.append({'kind': 'reuse', 'module': m, 'n_sub': 1 if tier == 'quick' else 3})
    for fam in HISTORY_FAMILIES:
        if fam == 'graphs':
            nfirst = 4 if tier == 'quick' else 8
            for f in range(nfirst):
                shards.append({'kind': 'history', 'family': fam, 'maxlen': 2 if tier == 'quick' else 3,
                               'first': f, 'nfirst': nfirst})
        else:
            shards.append({'kind': 'history', 'family': fam, 'maxlen': 3 if fam not in ('cif', 'frames') or tier != 'quick' else 2})
    if tier == 'thorough':
        for pth in PYTEST_DIRS:
            shards.append({'kind': 'pytest', 'paths': [pth]})
    return shards


def requirements(tier):
    return {'events': {'mutation_monitor.judged_calls': 5000, 'alias_case': 100, 'history_sequence': 1000,
                       'history_sequence_with_mutation': 200, 'noncanon_case': N_NONCANON_RUNS,
                       'second_use_case': sum(1 for c in _ALL_CASES if getattr(c[2], 'second', True)),
                       'result_isolation_leaf_written': 300, 'cif_family_member_saved_after_relatives': 12 * 12 * 3, 'fingerprint_probe': 20, 'history_sequence_with_display': 200,
                       'fresh_interpreter_call': len(FRESH_CALLS)},
            'forced': [*NONCANON, *('noncanon-layout:' + x for x in LAYOUTS), 'second-use:after-a-call-that-raised',
                       'second-use:after-a-call-that-returned', *('fresh-interpreter:' + c[0] for c in FRESH_CALLS)]}


def run(shard, ctx):
    t0 = time.time()
    if shard['kind'] == 'alias':
        alias_grid(ctx, shard)
    elif shard['kind'] == 'values':
        value_grid(ctx, shard)
    elif shard['kind'] == 'heavy':
        value_grid(ctx, shard, HEAVY_CASES)
    elif shard['kind'] == 'reuse':
        reuse_shard(ctx, shard)
    elif shard['kind'] == 'history':
        history(ctx, shard)
    elif shard['kind'] == 'pytest':
        pytest_shard(ctx, shard)
    elif shard['kind'] == 'fresh':
        fresh_shard(ctx, shard)
    ctx.extra['shard_wall:' + shard['kind'] + ':' + str(shard.get('module') or shard.get('family') or shard.get('paths') or '') + ':' + str(shard.get('first', ''))] = round(time.time() - t0, 1)


FINDING_PREDICATES = {}

TECHNIQUE = ('universal argument-mutation monitor (sys.monitoring on every code object of the computational modules, '
             'bit-exact before/after fingerprints at the outermost frame) riding on all workloads; exhaustive '
             'history checker over call/mutate sequences of length <= 3 against pristine references')
LEVEL_TEXT = ('exploration with an exhaustive part: (A) every call that crosses the package boundary in the hostile '
              'workloads of all other properties, in a dedicated aliasing grid (arguments already in the converted-to '
              'unit/dtype, slices of caller-owned buffers), in a value grid (arguments not in the canonical form the '
              'code normalises to, configuration objects, variance / mask value classes, calling conventions, stand-ins, second use: a forced class per entry point and facet, three buffer layouts) and, in the thorough tier, in the repository test-suite, has '
              'all its argument objects fingerprinted bit-exactly before and after; (B) for graph factories, table '
              'lookups, model and CIF builder combinators all call/mutate histories up to length 3 (thorough; 2 for the '
              'large graph family in quick) are enumerated and every factory must keep returning its pristine value.')
LEVEL_NOTE = ('trusted: blake2 fingerprints of raw buffers (rv/snap.py); exemption list of sinks and self-mutators '
              'in rv/mutmon.py; mutations limited to what the public surface of a result allows')
DESIGN_REF = 'DESIGN.md section 4, C09'
